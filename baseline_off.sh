#!/bin/bash
# Runs the repository's own test suite with the `verif` guard OFF (no build tag) and
# compares the set of passing tests with /root/.vp/BASELINE.json (371 stable tests).
# Exit 0 iff every baseline test passes.
set -u
export GOFLAGS=-mod=mod GOPROXY=off GOSUMDB=off GOTOOLCHAIN=local
REPO="${VERIF_REPO:-/repo}"
OUT=$(mktemp)
trap 'rm -f "$OUT"' EXIT
for m in . ./cmd ./v2; do
  (cd "$REPO/$m" && go test -mod=mod -json -vet=off -count=1 -timeout 25m ./... ) >> "$OUT" 2>&1
done
python3 - "$OUT" <<'EOF'
import json,sys
passed=set(); failed=set()
for line in open(sys.argv[1], errors='replace'):
    line=line.strip()
    if not line.startswith('{'): continue
    try: e=json.loads(line)
    except Exception: continue
    t=e.get('Test')
    if not t: continue
    k=e.get('Package','')+'::'+t
    if e.get('Action')=='pass': passed.add(k)
    elif e.get('Action')=='fail': failed.add(k)
base=set(json.load(open('/root/.vp/BASELINE.json'))['stable_pass'])
missing=sorted(base-passed)
print(f"baseline tests: {len(base)} passing now: {len(base&passed)} failed: {len(failed)} missing: {len(missing)}")
for m in missing[:40]: print("  NOT PASSING:", m)
for f in sorted(failed)[:40]: print("  FAILED:", f)
sys.exit(0 if not missing and not failed else 1)
EOF
