#!/bin/bash
# tools/keep_seed.sh <ID> <a|b>  — confirm a seeded change from /tmp/seed-out and record it under /verif/seeded/<ID><v>/
set -u
ID="$1"; V="$2"
VD=$(cd "$(dirname "$0")/.." && pwd)
SD=${SEED_ROOT:-/tmp/seed-out}/$ID/$V
OUT=$VD/seeded/$ID${SEED_SUFFIX:-$V}
mkdir -p "$OUT"
cp "$SD/patch.diff" "$OUT/patch.diff"
demo=$(ls "$SD"/demo*_test.go 2>/dev/null | head -1); [ -n "$demo" ] && cp "$demo" "$OUT/demo_test.go"
cp "$SD/README.md" "$OUT/README.seeder.md" 2>/dev/null
TMPD=$(mktemp -d /tmp/keepseed-XXXXXX)
"$VD/tools/confirm_seed.sh" "$SD" "$ID" "$V" 2>&1 | tail -12 > "$TMPD/conf"
"$VD/tools/try_seed.sh" "$SD/patch.diff" > "$TMPD/res" 2>&1
: > "$TMPD/thor"
if grep -q "^$ID missed" "$TMPD/res"; then
  SKIP_BASELINE=1 TIER=thorough "$VD/tools/try_seed.sh" "$SD/patch.diff" "$ID" 2>&1 | grep "^$ID " > "$TMPD/thor"
fi
python3 - "$OUT" "$ID" "$V" "$TMPD" <<'PY'
import json,sys,re,os
out,ID,V,tmpd=sys.argv[1:5]
V=os.environ.get('SEED_SUFFIX',V)
conf=open(tmpd+'/conf').read()
res=open(tmpd+'/res').read()
thor=open(tmpd+'/thor').read()
readme=open(out+'/README.seeder.md').read() if os.path.exists(out+'/README.seeder.md') else ''
caught=[l.split()[0] for l in res.splitlines() if ' CAUGHT ' in l]
missed=[l.split()[0] for l in res.splitlines() if l.endswith(' missed')]
broken=[l for l in res.splitlines() if ' BROKEN ' in l]
first={l.split()[0]: l.split(':: ',1)[1] if ':: ' in l else '' for l in res.splitlines() if ' CAUGHT ' in l}
meta={
 'id': ID+V, 'breaks_property': ID,
 'needs_to_manifest': 'see README.seeder.md (written by the independent seeding agent)',
 'confirmed': {'compiles_and_repo_suite_passes': 'baseline tests: 371 passing now: 371' in res, 'demo': conf.strip().splitlines()[-1] if conf.strip() else ''},
 'ran': ['tools/confirm_seed.sh (demo fails with the change, passes without, in a scratch copy of /repo)', 'tools/try_seed.sh (patch applied to a scratch copy; ./baseline_off.sh; every check, quick tier, via VERIF_REPO)'],
 'caught_by_quick': caught, 'first_finding_key': first, 'missed_by_quick': missed, 'broken': broken,
 'own_check_thorough_when_quick_missed': thor.strip(),
}
json.dump(meta, open(out+'/meta.json','w'), indent=1)
print(ID+V, 'demo:', 'OK' if 'DEMO-CONFIRMED' in conf else 'NOT CONFIRMED', '| own check:', 'CAUGHT' if ID in caught else ('thorough: '+thor.strip()[:60] if thor.strip() else 'MISSED'), '| caught by:', ' '.join(caught))
PY
rm -rf "$TMPD"
