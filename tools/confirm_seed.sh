#!/bin/bash
# tools/confirm_seed.sh <seed dir holding patch.diff, demo_test.go, README.md> <ID> <a|b>
# Confirms in a scratch copy of /repo: patch applies + compiles, demo FAILS with the change and PASSES without.
# Prints: DEMO-CONFIRMED <pkgdir> / DEMO-NOT-CONFIRMED ...
set -u
SD="$1"; ID="$2"; V="$3"
export GOFLAGS=-mod=mod GOPROXY=off GOSUMDB=off GOTOOLCHAIN=local
COPY=$(mktemp -d /tmp/mutconf-XXXXXX)
trap 'rm -rf "$COPY"' EXIT
cp -r /repo/. "$COPY"/ && cd "$COPY" && git checkout -q -- . || exit 3
FP="${SEED_FILEPFX:-zz_seed2?}"; TP="${SEED_TESTPFX:-(?i)TestSeed2?}"
rel=$(grep -hoE "(v2/[a-z/]*|cmd/[a-z/]*)${FP}_${ID}_${V}[A-Za-z0-9_]*\.go" "$SD/README.md" | head -1)
[ -z "$rel" ] && rel="zz_seed_${ID}_${V}_test.go"
dir=$(dirname "$rel")
demo=$(ls "$SD"/demo*_test.go "$SD"/demo_test.go 2>/dev/null | head -1)
[ -z "$demo" ] && { echo "DEMO-NOT-CONFIRMED no demo test file"; exit 1; }
cp "$demo" "$COPY/$rel"
case "$dir" in
  v2*) mod=v2; pkg="./${dir#v2}"; pkg="${pkg%/}"; [ "$pkg" = "./" ] && pkg="."; [ "$dir" = "v2" ] && pkg=".";;
  cmd*) mod=cmd; pkg="./${dir#cmd/}";;
  *) mod=.; pkg=".";;
esac
TAGS=""; grep -q -- "-tags verif" "$SD/README.md" && TAGS="-tags verif"
# a demonstration of a data race only fails under the race detector: honour a README that says so
grep -q -- "go test[^\n]* -race" "$SD/README.md" && TAGS="$TAGS -race"
git apply "$SD/patch.diff" || { echo "DEMO-NOT-CONFIRMED patch does not apply"; exit 1; }
( cd "$COPY/$mod" && timeout 900 go test $TAGS -count=1 -run "${TP}${ID}${V}" "$pkg" ) > "$COPY/with.log" 2>&1; rc_with=$?
git apply -R "$SD/patch.diff"
( cd "$COPY/$mod" && timeout 900 go test $TAGS -count=1 -run "${TP}${ID}${V}" "$pkg" ) > "$COPY/without.log" 2>&1; rc_without=$?
ran=$(grep -c "^ok\|^--- \|^FAIL\|^PASS" "$COPY/without.log")
if [ $rc_with -ne 0 ] && [ $rc_without -eq 0 ] && ! grep -q "no tests to run" "$COPY/without.log"; then
  echo "DEMO-CONFIRMED place=$rel run='cd $mod && go test -count=1 -run ${TP}${ID}${V} $pkg' with_change=FAIL without_change=PASS"
else
  echo "DEMO-NOT-CONFIRMED rc_with=$rc_with rc_without=$rc_without place=$rel"; tail -5 "$COPY/with.log"; tail -5 "$COPY/without.log"
fi
