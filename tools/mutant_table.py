#!/usr/bin/env python3
"""Prints the Markdown table of seeded changes (seeded/*/meta.json) for DESIGN.md Appendix C."""
import json, glob, os, re
V = os.path.dirname(os.path.dirname(os.path.abspath(__file__)))
rows = []
for m in sorted(glob.glob(os.path.join(V, "seeded", "*", "meta.json"))):
    d = json.load(open(m))
    sid = d["id"]
    rd = os.path.join(os.path.dirname(m), "README.seeder.md")
    summary = d.get("summary", "")
    own = d["breaks_property"]
    caught = d.get("caught_by_quick", [])
    owns = "quick" if own in caught else ("thorough" if "CAUGHT" in d.get("own_check_thorough_when_quick_missed", "") else ("not its clause (see note)" if d.get("note") else "**missed**"))
    others = [c for c in caught if c != own]
    key = d.get("first_finding_key", {}).get(own, "").split(" :: ")[0][:110]
    if own not in caught and caught:
        key = "(" + caught[0] + ") " + d.get("first_finding_key", {}).get(caught[0], "").split(" :: ")[0][:100]
    summary = summary + " — needs: " + d.get("needs_to_manifest", "").split(" (details:")[0]
    rows.append(f"| {sid} | {summary} | {owns} | {', '.join(others) or '—'} | `{key}` |")
print("| seeded change | what it does / what it needs | own check | also caught by (quick) | first finding key of the own check |")
print("|---|---|---|---|---|")
print("\n".join(rows))
