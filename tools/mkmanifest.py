#!/usr/bin/env python3
"""Regenerates /verif/MANIFEST.json from the table below (kept here so that the manifest stays valid and consistent)."""
import json, os, subprocess
V = os.path.dirname(os.path.dirname(os.path.abspath(__file__)))

CHECKS = {}
def chk(pid, category, text, note, technique, design_ref, thorough=True):
    CHECKS[pid] = dict(category=category, text=text, note=note, technique=technique, design_ref=design_ref, thorough=thorough)

chk("C01", "exploration",
    "Runtime differential monitor: seeded contents x option configurations are pushed through every writer of both modules and every distinct output through every reader; outputs are compared byte-for-byte with an independent reference encoder and reader results with the logical (de-duplicated) content. Held on the executions produced; says nothing about contents/configurations not generated.",
    "trusts the reference codec (harness/internal/refcar, independent of go-car/go-cid/go-varint/CBOR libs) and stdlib hashes; honest blocks only",
    "runtime monitoring: differential oracle over produced bytes and reader event sequences (reference codec)", "DESIGN.md §6 C01")

chk("C02", "exploration",
    "Runtime monitor over mutated archives: EVERY proper prefix and every byte (one bit quick / all 8 bits thorough) of seeded small valid CARv1/CARv2 archives, plus random mutations, through 10 scanning readers; oracles: every returned block re-hashed with stdlib hashes, reference section table decides whether a cut/flip must be reported, returned blocks must be a prefix of the original sequence. Enumeration is total per archive, archives are sampled.",
    "trusts refcar's section table and stdlib/x-crypto hashes; cuts on section boundaries and past a CARv2 payload are exempt as the property states; zero-length (fully truncated) digests verify vacuously as multihash defines",
    "runtime monitoring: exhaustive truncation/bit-flip fault injection per archive with hash and clean-end oracles", "DESIGN.md §6 C02")

chk("C03", "exploration",
    "Runtime monitor: seeded payloads (duplicates, equal digest under two hash codes, identity, CIDv0, digest widths 0..80) in 5 container forms are indexed by GenerateIndex (both codecs) and LoadIndex(InsertionIndex) from 5 source kinds (seekable, *os.File, plain reader, 1-byte reader, Reader.DataReader) plus the file-path and read-or-generate front-ends; every GetAll/GetFirst/ForEach answer is compared with the key→offsets multiset of an independent scan, for every present CID and absent neighbours; option effects (StoreIdentityCIDs, ZeroLengthSectionAsEOF, MaxIndexCidSize) are predicted by the reference.",
    "trusts refcar's scan; for the in-memory insertion index both digest-keyed and multihash-keyed answers are accepted",
    "runtime monitoring: differential oracle (reference scan) over index query results", "DESIGN.md §6 C03")
chk("C14", "exploration",
    "Runtime monitor: ALL 2^n Next/SkipNext choice strings (n ≤ 6 quick, ≤ 10 thorough; random strings on 25-block archives) over seeded valid v1/v2/padded archives and 4 source kinds wrapped in position counters; every returned CID/block/BlockMetadata is compared with the reference section table, the clean end is required after the last block, and for CARv2 the highest source position read must not exceed the payload end.",
    "trusts refcar's section table; Reader.DataReader() included as an additional seekable source",
    "runtime monitoring: exhaustive operation-string enumeration per archive with reference-table oracle and byte counters on the source", "DESIGN.md §6 C14")

NOT_YET = {}

def main():
    props = [json.loads(l) for l in open(os.path.join(V, "properties.jsonl"))]
    checks = []
    na = []
    for p in props:
        pid = p["id"]
        if pid in CHECKS:
            c = CHECKS[pid]
            e = {
                "property_id": pid,
                "quick_cmd": f"./run {pid} quick",
                "evidence_file": f"/verif/evidence/{pid}.json",
                "replay_cmd_template": f"./run {pid} --replay {{path}}",
                "engine": "carlab",
                "level_claimed": {"category": c["category"], "text": c["text"], "design_ref": c["design_ref"]},
                "level_note": c["note"],
                "technique": c["technique"],
            }
            if c["thorough"]:
                e["thorough_cmd"] = f"./run {pid} thorough"
            checks.append(e)
        else:
            na.append({"property_id": pid, "reason": NOT_YET.get(pid, "monitor designed in DESIGN.md but not built yet in this tree; not claimed until its check exists and is silent on the unchanged tree")})
    hooks_commits = []
    try:
        out = subprocess.run(["git", "-C", "/repo", "log", "--format=%h %s"], capture_output=True, text=True).stdout
        for line in out.splitlines():
            h, s = line.split(" ", 1)
            if s.startswith("verif:"):
                hooks_commits.append(h)
    except Exception:
        pass
    m = {
        "version": 1,
        "setup_cmd": "./run build",
        "hooks": {
            "guard": "verif",
            "enable": "go build -tags verif (the ./run script builds harness/cmd/carlab with -tags verif against /repo via replace directives)",
            "baseline_off_cmd": "./baseline_off.sh",
            "source_commits": hooks_commits,
            "add_only": True,
        },
        "engines": [
            {"name": "carlab", "path": "harness", "serves_properties": sorted(CHECKS), "kind_free_text": "Go harness: seeded workload generators, independent reference codec, executable store models, fault/crash-image memfile, event monitors, evidence writer; built against /repo's working tree on every run"},
        ],
        "checks": checks,
        "notes": "All checks are runtime monitors (see DESIGN.md). Known findings and repaired defects: KNOWN_FINDINGS.txt. Mutants used to validate sensitivity: seeded/.",
        "not_applicable": na,
    }
    json.dump(m, open(os.path.join(V, "MANIFEST.json"), "w"), indent=1)
    print("wrote MANIFEST.json:", len(checks), "checks,", len(na), "not claimed")

main()
