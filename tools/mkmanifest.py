#!/usr/bin/env python3
"""Regenerates /verif/MANIFEST.json from the table below (kept here so that the manifest stays valid and consistent)."""
import json, os, subprocess
V = os.path.dirname(os.path.dirname(os.path.abspath(__file__)))

CHECKS = {}
def chk(pid, category, text, note, technique, design_ref, thorough=True):
    CHECKS[pid] = dict(category=category, text=text, note=note, technique=technique, design_ref=design_ref, thorough=thorough)

chk("C01", "exploration",
    "Runtime differential monitor: seeded contents x option configurations are pushed through every writer of both modules and every distinct output through every reader; outputs are compared byte-for-byte with an independent reference encoder and reader results with the logical (de-duplicated) content. Contents include 1000+-block sequences, section sizes at varint and power-of-two boundaries, identity CIDs longer than MaxIndexCidSize. Held on the executions produced; says nothing about contents/configurations not generated. The deferred path writer's path holds an earlier, longer output in half of the cases.",
    "trusts the reference codec (harness/internal/refcar, independent of go-car/go-cid/go-varint/CBOR libs) and stdlib hashes; honest blocks only",
    "runtime monitoring: differential oracle over produced bytes and reader event sequences (reference codec)", "DESIGN.md §6 C01")

chk("C02", "exploration",
    "Runtime monitor over mutated archives: EVERY proper prefix and every byte (one bit quick / all 8 bits thorough) of seeded small valid CARv1/CARv2 archives, plus random mutations, through 26 scanning readers (v2 BlockReader over Reader.DataReader(), OpenReader(file).Inspect on a real mmap'd file, v2 BlockReader on seekable/plain/1-byte/bufio/data+EOF/stutter/seekable-data+EOF sources with and without ZeroLengthSectionAsEOF, carv1 reader, root CarReader/LoadCar, Inspect(true)); archives with one large section are sampled at offsets; oracles: every returned block re-hashed with stdlib hashes, reference section table decides whether a cut/flip must be reported, returned blocks must be a prefix of the original sequence. A further family makes the SOURCE fail with a non-EOF error at every payload offset (readers that return or validate block bytes must not end cleanly), and a returned block whose hash function has no implementation anywhere counts as unverified. Enumeration is total per archive, archives are sampled. Also a forward-only seeker around Reader.DataReader(). Also Inspect(true) on a Reader opened WithTrustedCAR(true) and after Inspect(false) on the same Reader.",
    "trusts refcar's section table and stdlib/x-crypto hashes; cuts on section boundaries and past a CARv2 payload are exempt as the property states; zero-length (fully truncated) digests verify vacuously as multihash defines",
    "runtime monitoring: exhaustive truncation/bit-flip fault injection per archive with hash and clean-end oracles", "DESIGN.md §6 C02")

chk("C03", "exploration",
    "Runtime monitor: seeded payloads (duplicates, equal digest under two hash codes, identity, CIDv0, digest widths 0..80) in 5 container forms are indexed by GenerateIndex (both codecs) and LoadIndex(InsertionIndex) from 5 source kinds (seekable, *os.File, plain reader, 1-byte reader, Reader.DataReader) plus the file-path and read-or-generate front-ends; every GetAll/GetFirst/ForEach answer is compared with the key→offsets multiset of an independent scan, for every present CID and absent neighbours; option effects (StoreIdentityCIDs, ZeroLengthSectionAsEOF, MaxIndexCidSize) are predicted by the reference; payloads with 16k-53k sections; index generation over a source that fails mid-payload must return an error. Also index size limits of 2^63 / MaxUint64 and sources that deliver one byte per Read or Seek lazily. Also a section of more than 8 MiB and MaxIndexCidSize exactly at / one below the longest indexed CID. Also headers in non-canonical CBOR forms (offsets must be where the sections are).",
    "trusts refcar's scan; for the in-memory insertion index both digest-keyed and multihash-keyed answers are accepted",
    "runtime monitoring: differential oracle (reference scan) over index query results", "DESIGN.md §6 C03")
chk("C14", "exploration",
    "Runtime monitor: ALL 2^n Next/SkipNext choice strings (n ≤ 6 quick, ≤ 10 thorough; random strings on 25-block archives) over seeded valid v1/v2/padded archives and 4 source kinds wrapped in position counters; every returned CID/block/BlockMetadata is compared with the reference section table, the clean end is required after the last block, and for CARv2 the highest source position read must not exceed the payload end. Also limits exactly at the archive's maxima; retained metadata and blocks are re-checked at the end of the string. Containers include v1-nullpad and a CARv2 with a null-padded payload; the call that finds the end is part of the enumerated string.",
    "trusts refcar's section table; Reader.DataReader() included as an additional seekable source",
    "runtime monitoring: exhaustive operation-string enumeration per archive with reference-table oracle and byte counters on the source", "DESIGN.md §6 C14")

chk("C10", "exploration",
    "Runtime monitor with pure byte oracles: for seeded CARv1 payloads x, WrapV1/WrapV1File output must be pragma ‖ header(51,len,51+len) ‖ x ‖ index (index checked against a reference scan), ExtractV1File of 4 CARv2 renderings (and of a wrapped null-padded source) into 7 destination states (absent, larger, smaller, in place, in place through a relative alias, a symlink and a hard link of the source) must yield exactly x and leave the source alone, a CARv1 source must be refused without touching files, and ReplaceRootsInFile must change only the header bytes when the encoded header length is unchanged and otherwise fail leaving the file byte-identical. Also lenient-header files for ReplaceRootsInFile and WrapV1 under MaxAllowedSectionSize exactly at the longest section. Also sources with 16.5k-53k sections. In a quarter of the cases WrapV1File's destination lies on another filesystem than the temporary directory. MaxAllowedHeaderSize at MaxUint64 / 2^63 on wraps.",
    "trusts refcar's CARv2 renderings and header encoder",
    "runtime monitoring: byte-equality oracles on files before/after each transform", "DESIGN.md §6 C10")
chk("C11", "exploration",
    "Runtime monitor: seeded record multisets (8 hash codes, widths 0..80, repeated digests, offsets up to 2^63-1) loaded in 8/24 permutations into both on-disk codecs; reported byte count, strict reference parse, bucket and entry order, multiset equality, permutation invariance (after canonicalising same-digest runs, byte-exact when none), WriteTo→ReadFrom round trip with identical GetAll/ForEach answers and byte-identical re-marshal; plus writing sessions whose flattened embedded index is compared (lookups; bytes when no digest repeats) with GenerateIndex over the finished payload. Also sessions that flatten in the other codec first, PutMany batches refused midway, a reused bytes.Buffer as ReadFrom source. Also multisets with a bucket over 1 MiB and sessions with a CID exactly at MaxIndexCidSize, regenerated under the session's options. Also identity digests of 2040-5000 bytes. Session indexes are also regenerated from a bufio.Reader, a bytes.Buffer and a plain reader.",
    "trusts refcar's index parser/builder",
    "runtime monitoring: reference-parser oracle on serialized bytes and before/after query comparison", "DESIGN.md §6 C11")
chk("C13", "exploration",
    "Runtime monitor: Inspect(true|false) on seeded valid archives in 5 container forms under default limits and limits exactly at / one below the largest section and header — every Stats field compared with a reference scan; typed corruptions with by-construction verdicts; random mutations of the section region judged three-way (Inspect vs BlockReader scan vs reference). Also huge limits, Inspect(false) then Inspect(true) on one Reader, a payload header whose version is not 1. Every typed corruption is also inspected under WithTrustedCAR(true): same verdict. Also a CARv2 whose declared payload ends in null bytes (ZeroLengthSectionAsEOF). Also a section limit of 0.",
    "trusts refcar's scan and stdlib hashes; random mutations leave the CBOR header intact to avoid parser-leniency false alarms",
    "runtime monitoring: reference-model oracle on returned Stats and accept/reject verdicts", "DESIGN.md §6 C13")

chk("C07", "exploration",
    "Runtime monitor: seeded archives (duplicates, same multihash under other codecs, same key with different bytes, identity twins) in 5 container forms x {UseWholeCIDs, StoreIdentityCIDs} x {embedded/generated index, caller-supplied index built by the library or by the reference in either codec}; every present CID and 4-5 absent neighbours are queried through blockstore.NewReadOnly, OpenReadOnly and storage.OpenReadable; Has/Get/GetSize/GetStream/Roots answers are compared with a reference front-to-back scan, AllKeysChan with the scan's CID sequence in order, and the two front-ends with each other; archives written fully indexed but read without the option, identity CIDs longer than MaxIndexCidSize, an io.ReaderAt that reports EOF with the last full read, and a backing on which one section is unreadable (lookups of its key must fail with an error, neither 'absent' nor bytes). Also a supplied complete index over an archive whose embedded index is incomplete. Also archives with 16.5k-53k sections (index generated at open). Backings include Reader.DataReader() and seekable readers whose seek position is not at the start. Also other-version twins (CIDv0/CIDv1) as queries and archives with a section over 8 MiB.",
    "trusts refcar's scan; for an absent identity CID under StoreIdentityCIDs a size answer and a not-found answer of GetSize are both accepted",
    "runtime monitoring: reference-scan oracle over public read API results, cross-API agreement", "DESIGN.md §6 C07")

chk("C15", "exploration",
    "Runtime monitor: seeded DAGs (dag-cbor/dag-json/dag-pb/raw, repeated links, shared subtrees, identity links, depth 1-6) x selectors (explore-all, depth-limited, field paths) x options (AllowDuplicatePuts, link budget, paddings, index codec / none, TraverseLinksOnlyOnce) through six writer paths (v2 NewSelectiveWriter.WriteTo, TraverseV1, TraverseToFile; root SelectiveCar.Write, Prepare+Dump, WriteCar); a recording link system / store logs every load at the API boundary; output decoded by the reference must equal the distinct loads in first-visit order, announced sizes (DataSize, Prepare().Size(), returned counts — also the count returned by a traversal that fails midway) must equal bytes written, Dump == Write, every block callback's [Offset, Offset+Size) must be that section, CARv2 container fields and index are checked against the reference. Also a Writer reused after a failed WriteTo, two Dags under a per-Dag link budget, partial DAGs (traversal.SkipMe). A traversal that succeeds after more link loads than MaxTraversalLinks allows (0 included) is a violation; identity leaves up to 300 bytes. Per Dag, what a reference traversal of (root, selector) loads must have been loaded; budgets 2^63 / MaxUint64.",
    "trusts refcar; callbacks' Offset/Size semantics (section start, whole section) taken from the code since the API does not document them; merkledag.WalkOptions such as SkipRoot are outside the property's quantifier and not generated",
    "runtime monitoring: recorded load log at the link-system boundary vs reference-decoded output bytes and announced sizes", "DESIGN.md §6 C15")

chk("C04", "exploration",
    "Runtime monitor against an executable reference model: EVERY history of length ≤ 3 (quick) / ≤ 4 (thorough) over {Put of 9 designed blocks, 2 PutMany batches, Finalize, FinalizeReadOnly, Close, Discard} x 10/14 option configurations x {blockstore.ReadWrite, blockstore.OpenReadWriteFile on a caller-owned *os.File, storage.StorageCar on a memfile, storage.StorageCar on a bare ReaderAt/WriterAt that cannot be truncated}, plus random histories of length 10-60; after every step all lookups (Has/Get/GetSize of 9 keys, AllKeysChan, Roots) and the payload bytes on file are compared with the model; after a terminal operation all operations are re-run (errors required, file frozen). Exhaustive within the stated bound only. One configuration's Finalize cannot succeed (index padding 2^63): it is terminal all the same. Limits of 36 and 35 sit exactly at / one byte below five designed CIDs.",
    "trusts the model (harness/internal/lab/model.go: documented admission rules) and refcar; answers are compared against admissible sets so that the model never demands more than the statement",
    "runtime monitoring: step-by-step comparison of public API results and file bytes with an executable map model over exhaustively enumerated short histories", "DESIGN.md §6 C04")
chk("C19", "exploration",
    "Runtime monitor on the car binary built from the working tree: seeded valid archives (6 container classes, identity/duplicate/equal-multihash blocks, roots in/out of the block set, small DAGs) x ~35 command forms (create, index with 3 codecs/--version 1, index create, detach-index, filter plain/inverse/append/--version 1, get-dag with selectors and versions, get-block, list, root, concat v1/v2); every emitted archive goes to `car inspect --full` and (when its roots are blocks) `car verify`, and is decoded by the reference and compared with the expectation computed from the input (selected blocks in source order, payload unchanged + index lookup-equal to a regenerated one, exact block bytes, scan order, concatenation). Also block-less inputs and concat to standard output. Also inputs of 4200-16500 blocks.",
    "trusts refcar and the harness's own CID text codecs; commands that legitimately refuse a combination are not judged (listed in DESIGN.md); `car verify` on zero-root outputs is not judged (precondition vacuous)",
    "runtime monitoring: black-box child-process executions judged by acceptance oracles (the tool's own verifiers) and a reference-decoder content oracle", "DESIGN.md §6 C19")

chk("C05", "exploration",
    "Runtime monitor: seeded writing sessions (incl. none and no-stored-block sessions) x option matrix x {blockstore Put/PutMany, storage.NewWritable, storage.NewReadableWritable, deferred writer} plus archives produced by the built car binary (create, get-dag, filter); each finalized file is parsed by the reference decoder: pragma, DataOffset = 51 + padding, DataSize = exact payload length, IndexOffset = payload end + padding, zero padding bytes, payload = header(roots) ‖ stored sections in put order, index = exactly those sections in canonical order, fully-indexed bit ⇔ StoreIdentityCIDs and no other characteristics bits, nothing after the index; CARv1 mode file = payload; then Reader.Inspect(true) and lib.VerifyCar (when all roots are stored) must accept. Also get-dag of a raw leaf. A third of the blockstore / storage sessions are interrupted (Discard or Finalize) and resumed.",
    "trusts refcar and lab.Model (which puts are stored); CLI outputs are judged for container self-consistency and verifier acceptance only (their content is C19)",
    "runtime monitoring: reference-decoder oracle on finalized bytes plus the library's own verifier verdicts", "DESIGN.md §6 C05")
chk("C12", "exploration",
    "Runtime monitor with byte-equality oracles: for put lists of n blocks ALL 3^(n+1) interruption strings over {continue, Discard+reopen, Finalize+reopen} (n ≤ 3 quick / ≤ 5 thorough; random strings for n = 6..15) x 6/10 option configurations x {blockstore.OpenReadWrite, storage.OpenReadableWritable}: final file must equal the uninterrupted session's; every single-field mismatch on reopen (root replaced/removed/added, data padding ±, wrong version) on finalized and unfinalized files must be rejected leaving the file byte-identical. Also V1 sessions on a backend that cannot be truncated, a section limit below the header size, 1/23/24/25 roots. Also MaxIndexCidSize exactly at the longest stored CID. Half of the blockstore sessions put blocks as batches behind a stored block; a WithoutIndex configuration (refused alike everywhere).",
    "byte equality only; permuted roots and changed multiplicity of duplicated roots are not counted as mismatches",
    "runtime monitoring: exhaustive interruption-string enumeration with byte-equality oracle", "DESIGN.md §6 C12")
chk("C20", "exploration",
    "Runtime monitor against an executable model: ALL op strings of length ≤ 4 (quick) / ≤ 6 (thorough) over {OnPut(once), OnPut(always), Has x2, Put x3, Close} x 7 targets (path v1/v2/v2+options, stream, stream+options, stream that is also an io.WriterAt in CARv2 mode, stream that breaks mid-session; path targets also over a pre-existing file) plus random longer strings; after every step: nothing written / no file before the first Put, output bytes equal to a directly constructed writer fed the same puts, callback log equal to the model's, closed-error after Close. Also a path target whose first header write fails. Also a plain stream asked for a CARv2 (refused like the direct writer) and 2-4 overlapping Puts from separate goroutines. Also callbacks registered from inside a callback, and an option slice with spare capacity shared by two writers. Also io.WriterAt streams whose write position is not at the start and Puts with a key that is no CID.",
    "the direct writer is the oracle for bytes (itself judged by C01/C05)",
    "runtime monitoring: step-by-step comparison with an executable model and a twin direct writer over exhaustively enumerated op strings", "DESIGN.md §6 C20")

chk("C16", "fault_enumeration",
    "Runtime fault injection: the fault-free run of each seeded session (open, 1-5 puts, finalize) yields its list of write calls; EVERY write call is then failed once with accepted byte counts {0, mid, len-1} (quick) or every count (thorough third), with and without retrying the failed block, plus fault pairs (thorough), on 6 targets: StorageCar over a WriterAt memfile, over a plain io.Writer, deferred stream writer, deferred writer on a path, blockstore.ReadWrite with Put and with PutMany (on real files the faults are injected through the verif write hook, attached by *os.File or by file name, whose trace is checked for completeness against the file), plus a hook-independent cross-check in which the KERNEL makes the fault: an untapped child lowers RLIMIT_FSIZE to 'file size + k' around one Put (EFBIG / short write as on a full disk). Monitors: the API call during which the writer failed returns an error; Has(failed block) is false unless stored earlier; if all later calls succeed the finalized archive decodes strictly, holds exactly the acknowledged blocks, a matching index and a consistent header. Also a second Finalize after a failed one (optionally after FinalizeReadOnly). Also sessions that resume an earlier session's file (blockstore and storage). For every write position the retry of the failed call fails too; one target's Truncate fails in the same outage.",
    "fault model = transient error with k < len bytes accepted on one write call; trusts refcar, lab.Model, the memfile and (up to the completeness check) the verif hook",
    "runtime monitoring: enumerated write-fault injection with acked-set bookkeeping and reference decode of the final bytes", "DESIGN.md §6 C16")

chk("C06", "fault_enumeration",
    "Runtime crash-point enumeration: the ordered mutation trace (with call/ack markers) of seeded sessions (open, 1-5 puts, Finalize) x 8 option configurations x {blockstore traced through the verif hooks, storage on a tracing memfile} x {fresh file, resumed discarded file, resumed finalized file} is cut at EVERY event boundary and within every write at torn lengths {1, mid, len-1} (every byte in the thorough tier and in 1 of 8 quick cases); every crash image is reopened with the same roots/options and judged by acked-set bookkeeping: on error all acknowledged sections must remain intact in the file left behind; on success all acknowledged blocks are present with exact bytes, nothing never put is listed, in-flight blocks if present are intact, and after two more puts + Finalize the archive decodes strictly, verifies, holds all acknowledged + new blocks and nothing unknown, with exact index and header. Further sessions contain a Finalize that fails at its 1st/2nd/3rd write (fault + crash product: the caller carries on, every crash point of the whole trace is enumerated). A strace cross-check runs sampled sessions in an untapped child and requires the kernel's pwrite64/ftruncate sequence on the file to equal the hook trace. Whole-CID sessions hold codec twins of their own blocks. Also sessions opened WithoutIndex (the library refuses to finalize them; a Finalize that succeeds is judged like any other). In half of the images the continuation re-issues everything as one PutMany batch.",
    "crash model = prefix of the issued writes with the last write torn (no reordering); traces are checked for completeness against the final file; trusts refcar and the memfile/hook adapter",
    "runtime monitoring: exhaustive crash-image enumeration over the recorded write trace with acked-set oracle and reference decode", "DESIGN.md §6 C06")
chk("C17", "exploration",
    "Runtime monitor on the built car binary: 30 classes of hostile UnixFS DAGs (dot-dot / absolute / empty / long / unicode names, separators, symlinks with escaping targets, same-name symlink-then-file/dir in one directory, in HAMT shards and across roots, several roots, missing blocks, malformed nodes) x 2 output-directory states x up to 5 invocation modes (-f, stdin, relative/symlinked output dir, -p); oracle = recursive snapshot (names, types, sizes, sha256, link targets, modes) of a padded sandbox parent excluding out/ before vs after; any difference is a violation. Coverage guards require that most DAGs really got extracted. Also UnixFS mtime/mode metadata, TMPDIR inside the sandbox, symlinks named like temporary siblings of a later file. Also the output directory named <symlink>/.. (resolved physically, not lexically). Also symlink entries created through an earlier symlink; both same-name entries respelled.",
    "absolute names/targets only point inside the sandbox; a wall-clock watchdog on a child is inconclusive",
    "runtime monitoring: filesystem snapshot-equality oracle around black-box executions on adversarial inputs", "DESIGN.md §6 C17")
chk("C18", "exploration",
    "Runtime monitor on the built car binary: seeded file trees in 12 profiles (names up to 255 bytes, empty files, chunk boundaries, deep nesting, many siblings, odd/unicode names, symlinks incl. dangling/absolute/chains, empty dirs, duplicates, sharded directory; a >174-chunk file in thorough) x 6 create forms (wrap v1/v2, no-wrap v1/v2, several sources, '.') then extraction with -f, stdin pipe, stdin redirect and -f into an output directory named through a symlinked ancestor; oracle = tree equality (names, contents, link targets), exactly one header root (reference-decoded) equal to `car root` output and present as a block, source tree untouched. Also older, longer files already in place, zero-filled files, extraction into `.`. Source and flag spellings: trailing separator, leading ./, --no-wrap=false/true. The archive path may be reserved as an empty file beforehand. Also names differing only in case and standard input on a socket.",
    "modes/mtimes are not part of the property; refcar decodes the header",
    "runtime monitoring: round-trip tree-equality oracle over black-box executions", "DESIGN.md §6 C18")

chk("C08", "exploration",
    "Runtime monitoring under the Go race detector: batches of short concurrent histories (2-16 goroutines x 3-10 ops over 8-32 keys on one shared blockstore.ReadWrite / storage.StorageCar / DeferredCarWriter, with a racing Finalize, fast/slow/cancelled listing consumers and yields injected between section writes) run in a child built with -race; monitors: every race report (normalised to the innermost go-car frame pair), per-key porcupine linearizability of the recorded call/return history against the set model with listings expanded to per-key observations, interval rules tying closed-errors to the terminal operation, a bounded-progress deadlock monitor, and a reference decode of the finalized file (each acknowledged block exactly once, nothing else). Held on the interleavings produced; evidence counts distinct interleaving signatures and overlapping op-type pairs. In half of the histories the store owns its file; the terminal operation may be split (FinalizeReadOnly, then a racing Close); one extra client only asks for the roots. The file as it is when the terminal operation returns success is compared with the file once all clients are done. PutMany batches refused midway (over-long CID) are part of the op mix on one configuration. Has calls under a context cancelled at call time are part of the blockstore op mix.",
    "race detector is happens-before based (finds a racy pair only if both accesses ran); linearizability only over observed schedules; trusts porcupine v1.3.0, refcar, the logical clock (one atomic counter)",
    "runtime monitoring: Go race detector + recorded-history linearizability checking (porcupine) + final-state conservation check", "DESIGN.md §6 C08")

chk("C09", "exploration",
    "Runtime totality/resource monitor in child processes: ~6k inputs (exhaustive typed mutations incl. CBOR header length claims of reference-built v1/v2/index files: length varints ±1/x2/2^31..2^64-1, v2 header field extremes and overflows, index count/width/len extremes, zero-length sections, CID digest-length claims; the repository's fixtures and fuzz corpus; random mutations) x 50 entry points (block reader Next/SkipNext/mixed on 4 source kinds, Reader Roots/DataReader/IndexReader/Inspect, ReadVersion, GenerateIndex/LoadIndex into 3 index kinds from seekable and plain sources, ReadOrGenerateIndex, index.ReadFrom + queries, read-only blockstore and readable storage + queries, WrapV1, ExtractV1File, ReplaceRootsInFile, root CarReader and LoadCar) under small and default limits; each batch runs in a child under ulimit -v 4 GiB / ulimit -t with a start/done log so that a process-fatal error is attributed to its input; monitors: no panic / runtime fatal / CPU-limit kill, read-call budget and iteration cap (bounded progress), TotalAlloc delta ≤ header limit + section limit + 64·len + 256 KiB, a blocked-goroutine monitor (every goroutine with go-car or harness frames parked on a channel or mutex, unchanged for 10 s → the call does not terminate), canary calls at both ends of every batch, and a limit table (exactly-at-maximum accepted, maximum+1 rejected with the too-large error, giant length prefixes rejected with < 64 KiB allocated). Limit rows include limit 0 and WithTrustedCAR entry points (trust waives hashing, not limits). Scanning entry points call Next/SkipNext twice more after an error or the end. Section lengths 2^64-k in a consistent CARv2 (store opened from its index).",
    "'never fails to terminate' is decided as bounded progress (logical read budget, iteration cap, CPU-seconds fence; a wall-clock timeout is inconclusive); allocation measured by runtime.MemStats.TotalAlloc around each sequential call; finding keys name the innermost go-car frame of the dominant allocation / panic",
    "runtime monitoring: child-process execution with resource fences, allocation counters and exit-status/panic classification over structure-aware hostile inputs", "DESIGN.md §6 C09")

NOT_YET = {}

def main():
    props = [json.loads(l) for l in open(os.path.join(V, "properties.jsonl"))]
    checks = []
    na = []
    for p in props:
        pid = p["id"]
        if pid in CHECKS:
            c = CHECKS[pid]
            e = {
                "property_id": pid,
                "quick_cmd": f"./run {pid} quick",
                "evidence_file": f"/verif/evidence/{pid}.json",
                "replay_cmd_template": f"./run {pid} --replay {{path}}",
                "engine": "carlab",
                "level_claimed": {"category": c["category"], "text": c["text"], "design_ref": c["design_ref"]},
                "level_note": c["note"],
                "technique": c["technique"],
            }
            if c["thorough"]:
                e["thorough_cmd"] = f"./run {pid} thorough"
            checks.append(e)
        else:
            na.append({"property_id": pid, "reason": NOT_YET.get(pid, "monitor designed in DESIGN.md but not built yet in this tree; not claimed until its check exists and is silent on the unchanged tree")})
    hooks_commits = []
    try:
        out = subprocess.run(["git", "-C", "/repo", "log", "--format=%h %s"], capture_output=True, text=True).stdout
        for line in out.splitlines():
            h, s = line.split(" ", 1)
            if s.startswith("verif:"):
                hooks_commits.append(h)
    except Exception:
        pass
    m = {
        "version": 1,
        "setup_cmd": "./run build",
        "hooks": {
            "guard": "verif",
            "enable": "go build -tags verif (the ./run script builds harness/cmd/carlab with -tags verif against /repo via replace directives)",
            "baseline_off_cmd": "./baseline_off.sh",
            "source_commits": hooks_commits,
            "add_only": True,
        },
        "engines": [
            {"name": "carlab", "path": "harness", "serves_properties": sorted(CHECKS), "kind_free_text": "Go harness: seeded workload generators, independent reference codec, executable store models, fault/crash-image memfile, event monitors, evidence writer; built against /repo's working tree on every run"},
        ],
        "checks": checks,
        "notes": "All checks are runtime monitors (see DESIGN.md). Known findings and repaired defects: KNOWN_FINDINGS.txt. Mutants used to validate sensitivity: seeded/.",
        "not_applicable": na,
    }
    json.dump(m, open(os.path.join(V, "MANIFEST.json"), "w"), indent=1)
    print("wrote MANIFEST.json:", len(checks), "checks,", len(na), "not claimed")

main()
