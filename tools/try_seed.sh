#!/bin/bash
# tools/try_seed.sh <patch.diff> [checks...]
# Applies a seeded change to a scratch copy of /repo, confirms it compiles and that the
# repository's own suite still passes, then runs the given checks (default: all, quick tier)
# against the copy and prints one line per check: CAUGHT (exit 1 + VIOLATION) / missed / broken.
set -u
PATCH="$1"; shift
V=$(cd "$(dirname "$0")/.." && pwd)
export GOFLAGS=-mod=mod GOPROXY=off GOSUMDB=off GOTOOLCHAIN=local
COPY=$(mktemp -d /tmp/mutrun-XXXXXX)
TAG=$(echo -n "$COPY" | sha1sum | cut -c1-10)
trap 'rm -rf "$COPY" "$V/bin/alt-$TAG"' EXIT
cp -r /repo/. "$COPY"/
( cd "$COPY" && git checkout -q -- . && git apply "$PATCH" ) || { echo "PATCH-DOES-NOT-APPLY"; exit 3; }
for m in . v2 cmd; do ( cd "$COPY/$m" && go build ./... ) || { echo "DOES-NOT-COMPILE in $m"; exit 3; }; done
if [ "${SKIP_BASELINE:-0}" != "1" ]; then
  VERIF_REPO="$COPY" "$V/baseline_off.sh" | head -3
  [ "${PIPESTATUS[0]}" = "0" ] || { echo "BASELINE-FAILS"; exit 3; }
fi
CHECKS="$*"
[ -z "$CHECKS" ] && CHECKS="C01 C02 C03 C04 C05 C06 C07 C08 C09 C10 C11 C12 C13 C14 C15 C16 C17 C18 C19 C20"
TIER="${TIER:-quick}"
for c in $CHECKS; do
  out=$(VERIF_REPO="$COPY" "$V/run" "$c" "$TIER" 2>&1); rc=$?
  keys=$(echo "$out" | grep -c '^VIOLATION')
  first=$(echo "$out" | grep '^VIOLATION' | head -1 | sed 's/.* key=//' | cut -c1-150)
  if [ $rc -eq 1 ] && [ "$keys" -gt 0 ]; then echo "$c CAUGHT keys=$keys :: $first";
  elif [ $rc -eq 0 ]; then echo "$c missed";
  else echo "$c BROKEN rc=$rc :: $(echo "$out" | grep -m1 BROKEN | cut -c1-200)"; fi
done
