// Package refcar is the independent reference codec for CARv1, CARv2 and the
// two sorted index formats. It is the trusted base of the monitors and shares
// no code with go-car, go-cid, go-varint or any CBOR library.
package refcar

import (
	"bytes"
	"crypto/sha1"
	"crypto/sha256"
	"crypto/sha512"
	"encoding/binary"
	"errors"
	"fmt"
	"sort"

	"golang.org/x/crypto/blake2b"
	"golang.org/x/crypto/sha3"
)

// ---------------------------------------------------------------- varint

var ErrShort = errors.New("refcar: short input")

// PutUvarint appends the minimal LEB128 encoding of v.
func PutUvarint(dst []byte, v uint64) []byte {
	for v >= 0x80 {
		dst = append(dst, byte(v)|0x80)
		v >>= 7
	}
	return append(dst, byte(v))
}

func UvarintLen(v uint64) int {
	n := 1
	for v >= 0x80 {
		v >>= 7
		n++
	}
	return n
}

// Uvarint decodes a minimal LEB128 value of at most 9 bytes.
func Uvarint(b []byte) (v uint64, n int, err error) {
	var s uint
	for i := 0; ; i++ {
		if i >= len(b) {
			return 0, 0, ErrShort
		}
		if i == 9 {
			return 0, 0, errors.New("refcar: varint longer than 9 bytes")
		}
		c := b[i]
		if c < 0x80 {
			if c == 0 && i > 0 {
				return 0, 0, errors.New("refcar: varint not minimal")
			}
			return v | uint64(c)<<s, i + 1, nil
		}
		v |= uint64(c&0x7f) << s
		s += 7
	}
}

// ---------------------------------------------------------------- CID

// Cid is a split CID; Raw is the exact byte string.
type Cid struct {
	Raw     []byte
	Version uint64
	Codec   uint64
	MhCode  uint64
	Digest  []byte
}

// Multihash returns the multihash bytes of the CID.
func (c Cid) Multihash() []byte {
	if c.Version == 0 {
		return c.Raw
	}
	out := PutUvarint(nil, c.MhCode)
	out = PutUvarint(out, uint64(len(c.Digest)))
	return append(out, c.Digest...)
}

func (c Cid) IsIdentity() bool { return c.MhCode == 0 }

// MakeCidV1 builds the bytes of a CIDv1.
func MakeCidV1(codec, mhCode uint64, digest []byte) []byte {
	out := PutUvarint(nil, 1)
	out = PutUvarint(out, codec)
	out = PutUvarint(out, mhCode)
	out = PutUvarint(out, uint64(len(digest)))
	return append(out, digest...)
}

// MakeCidV0 builds the 34 bytes of a CIDv0.
func MakeCidV0(digest32 []byte) []byte {
	return append([]byte{0x12, 0x20}, digest32...)
}

// SplitCid parses the CID at the start of b and returns it with its length.
func SplitCid(b []byte) (Cid, int, error) {
	if len(b) >= 2 && b[0] == 0x12 && b[1] == 0x20 {
		if len(b) < 34 {
			return Cid{}, 0, ErrShort
		}
		return Cid{Raw: b[:34], Version: 0, Codec: 0x70, MhCode: 0x12, Digest: b[2:34]}, 34, nil
	}
	p := 0
	rd := func() (uint64, error) {
		v, n, err := Uvarint(b[p:])
		if err != nil {
			return 0, err
		}
		p += n
		return v, nil
	}
	ver, err := rd()
	if err != nil {
		return Cid{}, 0, err
	}
	if ver != 1 {
		return Cid{}, 0, fmt.Errorf("refcar: cid version %d", ver)
	}
	codec, err := rd()
	if err != nil {
		return Cid{}, 0, err
	}
	code, err := rd()
	if err != nil {
		return Cid{}, 0, err
	}
	dl, err := rd()
	if err != nil {
		return Cid{}, 0, err
	}
	if dl > uint64(len(b)-p) {
		return Cid{}, 0, ErrShort
	}
	end := p + int(dl)
	return Cid{Raw: b[:end], Version: 1, Codec: codec, MhCode: code, Digest: b[p:end]}, end, nil
}

// Hash computes the digest for a multihash code with the Go standard library /
// x/crypto. ok=false means the reference does not know the function.
func Hash(code uint64, data []byte) (digest []byte, ok bool) {
	switch code {
	case 0x00:
		return append([]byte{}, data...), true
	case 0x11:
		h := sha1.Sum(data)
		return h[:], true
	case 0x12:
		h := sha256.Sum256(data)
		return h[:], true
	case 0x13:
		h := sha512.Sum512(data)
		return h[:], true
	case 0x16:
		h := sha3.Sum256(data)
		return h[:], true
	case 0xb220:
		h := blake2b.Sum256(data)
		return h[:], true
	case 0x56: // dbl-sha2-256
		h := sha256.Sum256(data)
		h = sha256.Sum256(h[:])
		return h[:], true
	}
	return nil, false
}

// Verifies reports whether data hashes to the CID (truncated digests allowed
// for non-identity functions, as multihash defines). known=false when the hash
// function is outside the reference's table.
func Verifies(c Cid, data []byte) (good bool, known bool) {
	d, ok := Hash(c.MhCode, data)
	if !ok {
		return false, false
	}
	if c.MhCode == 0 {
		return bytes.Equal(d, c.Digest), true
	}
	if len(c.Digest) > len(d) {
		return false, true
	}
	// A truncated digest (multihash allows any length, even 0) matches when it is a prefix.
	return bytes.Equal(d[:len(c.Digest)], c.Digest), true
}

// ---------------------------------------------------------------- CARv1 header (the one CBOR shape)

func cborHead(major byte, v uint64) []byte {
	m := major << 5
	switch {
	case v < 24:
		return []byte{m | byte(v)}
	case v < 1<<8:
		return []byte{m | 24, byte(v)}
	case v < 1<<16:
		return []byte{m | 25, byte(v >> 8), byte(v)}
	case v < 1<<32:
		return []byte{m | 26, byte(v >> 24), byte(v >> 16), byte(v >> 8), byte(v)}
	}
	out := []byte{m | 27, 0, 0, 0, 0, 0, 0, 0, 0}
	binary.BigEndian.PutUint64(out[1:], v)
	return out
}

// EncodeHeaderBody returns the dag-cbor map {"roots":[…],"version":v}. nilRoots
// selects CBOR null for roots (what go-car emits for a nil slice).
func EncodeHeaderBody(roots [][]byte, nilRoots bool, version uint64) []byte {
	var b []byte
	b = append(b, cborHead(5, 2)...)
	b = append(b, cborHead(3, 5)...)
	b = append(b, "roots"...)
	if nilRoots && len(roots) == 0 {
		b = append(b, 0xf6)
	} else {
		b = append(b, cborHead(4, uint64(len(roots)))...)
		for _, r := range roots {
			b = append(b, 0xd8, 0x2a)
			b = append(b, cborHead(2, uint64(len(r)+1))...)
			b = append(b, 0x00)
			b = append(b, r...)
		}
	}
	b = append(b, cborHead(3, 7)...)
	b = append(b, "version"...)
	b = append(b, cborHead(0, version)...)
	return b
}

// EncodeHeader returns varint(len) ‖ body.
func EncodeHeader(roots [][]byte, nilRoots bool) []byte {
	body := EncodeHeaderBody(roots, nilRoots, 1)
	return append(PutUvarint(nil, uint64(len(body))), body...)
}

type cborDec struct {
	b []byte
	p int
}

func (d *cborDec) head() (major byte, v uint64, err error) {
	if d.p >= len(d.b) {
		return 0, 0, ErrShort
	}
	c := d.b[d.p]
	d.p++
	major = c >> 5
	info := c & 0x1f
	switch {
	case info < 24:
		return major, uint64(info), nil
	case info == 24:
		if d.p+1 > len(d.b) {
			return 0, 0, ErrShort
		}
		v = uint64(d.b[d.p])
		d.p++
	case info == 25:
		if d.p+2 > len(d.b) {
			return 0, 0, ErrShort
		}
		v = uint64(binary.BigEndian.Uint16(d.b[d.p:]))
		d.p += 2
	case info == 26:
		if d.p+4 > len(d.b) {
			return 0, 0, ErrShort
		}
		v = uint64(binary.BigEndian.Uint32(d.b[d.p:]))
		d.p += 4
	case info == 27:
		if d.p+8 > len(d.b) {
			return 0, 0, ErrShort
		}
		v = binary.BigEndian.Uint64(d.b[d.p:])
		d.p += 8
	default:
		return 0, 0, fmt.Errorf("refcar: cbor info %d", info)
	}
	return major, v, nil
}

// Header is a decoded CARv1 header (or CARv2 pragma).
type Header struct {
	Roots    [][]byte
	NilRoots bool
	HasRoots bool
	Version  uint64
}

// DecodeHeaderBody decodes the strict shape {roots?: [cid…]|null, version: uint}.
func DecodeHeaderBody(b []byte) (Header, error) {
	d := &cborDec{b: b}
	var h Header
	mj, n, err := d.head()
	if err != nil {
		return h, err
	}
	if mj != 5 {
		return h, errors.New("refcar: header is not a map")
	}
	seenVersion := false
	for i := uint64(0); i < n; i++ {
		mj, l, err := d.head()
		if err != nil {
			return h, err
		}
		if mj != 3 || uint64(len(d.b)-d.p) < l {
			return h, errors.New("refcar: bad map key")
		}
		key := string(d.b[d.p : d.p+int(l)])
		d.p += int(l)
		switch key {
		case "version":
			mj, v, err := d.head()
			if err != nil {
				return h, err
			}
			if mj != 0 {
				return h, errors.New("refcar: version is not a uint")
			}
			h.Version = v
			seenVersion = true
		case "roots":
			h.HasRoots = true
			if d.p < len(d.b) && d.b[d.p] == 0xf6 {
				d.p++
				h.NilRoots = true
				continue
			}
			mj, cnt, err := d.head()
			if err != nil {
				return h, err
			}
			if mj != 4 {
				return h, errors.New("refcar: roots is not a list")
			}
			h.Roots = [][]byte{}
			for j := uint64(0); j < cnt; j++ {
				mj, tag, err := d.head()
				if err != nil {
					return h, err
				}
				if mj != 6 || tag != 42 {
					return h, errors.New("refcar: root is not tag 42")
				}
				mj, bl, err := d.head()
				if err != nil {
					return h, err
				}
				if mj != 2 || bl == 0 || uint64(len(d.b)-d.p) < bl || d.b[d.p] != 0 {
					return h, errors.New("refcar: bad cid bytes")
				}
				raw := d.b[d.p+1 : d.p+int(bl)]
				if _, n, err := SplitCid(raw); err != nil || n != len(raw) {
					return h, errors.New("refcar: root cid does not parse")
				}
				h.Roots = append(h.Roots, raw)
				d.p += int(bl)
			}
		default:
			return h, fmt.Errorf("refcar: unexpected header key %q", key)
		}
	}
	if !seenVersion {
		return h, errors.New("refcar: header without version")
	}
	if d.p != len(b) {
		return h, errors.New("refcar: trailing bytes in header")
	}
	return h, nil
}

// ---------------------------------------------------------------- CARv1 payload

// Section is one decoded section of a payload.
type Section struct {
	Offset  uint64 // payload-relative offset of the length varint
	LenSize int
	Cid     Cid
	Data    []byte
	DataOff uint64 // payload-relative offset of the data
	End     uint64 // payload-relative end of the section
}

// Payload is a decoded CARv1.
type Payload struct {
	Header     Header
	HeaderSize uint64 // length varint + body
	Sections   []Section
	End        uint64 // where decoding stopped (== len unless zero-length terminator)
}

// Block is a logical (cid, data) pair used for encoding.
type Block struct {
	Cid  []byte
	Data []byte
}

// EncodeSection returns varint(len(cid)+len(data)) ‖ cid ‖ data.
func EncodeSection(cid, data []byte) []byte {
	out := PutUvarint(nil, uint64(len(cid)+len(data)))
	out = append(out, cid...)
	return append(out, data...)
}

// EncodeV1 renders roots and blocks as a CARv1.
func EncodeV1(roots [][]byte, nilRoots bool, blocks []Block) []byte {
	out := EncodeHeader(roots, nilRoots)
	for _, b := range blocks {
		out = append(out, EncodeSection(b.Cid, b.Data)...)
	}
	return out
}

// DecodeV1 decodes a complete CARv1 payload. zeroEOF makes a zero-length
// section terminate the payload (null padding).
func DecodeV1(b []byte, zeroEOF bool) (*Payload, error) {
	hl, n, err := Uvarint(b)
	if err != nil {
		return nil, fmt.Errorf("header length: %w", err)
	}
	if hl > uint64(len(b)-n) {
		return nil, fmt.Errorf("header body: %w", ErrShort)
	}
	h, err := DecodeHeaderBody(b[n : n+int(hl)])
	if err != nil {
		return nil, err
	}
	p := &Payload{Header: h, HeaderSize: uint64(n) + hl}
	pos := p.HeaderSize
	for pos < uint64(len(b)) {
		sl, ln, err := Uvarint(b[pos:])
		if err != nil {
			return p, fmt.Errorf("section length at %d: %w", pos, err)
		}
		if sl == 0 {
			if zeroEOF {
				p.End = pos
				return p, nil
			}
			return p, fmt.Errorf("zero-length section at %d", pos)
		}
		body := pos + uint64(ln)
		if sl > uint64(len(b))-body {
			return p, fmt.Errorf("section body at %d: %w", pos, ErrShort)
		}
		c, cn, err := SplitCid(b[body : body+sl])
		if err != nil {
			return p, fmt.Errorf("section cid at %d: %w", pos, err)
		}
		p.Sections = append(p.Sections, Section{
			Offset: pos, LenSize: ln, Cid: c,
			Data:    b[body+uint64(cn) : body+sl],
			DataOff: body + uint64(cn),
			End:     body + sl,
		})
		pos = body + sl
	}
	p.End = pos
	return p, nil
}

// ---------------------------------------------------------------- CARv2

var Pragma = []byte{0x0a, 0xa1, 0x67, 'v', 'e', 'r', 's', 'i', 'o', 'n', 0x02}

const (
	PragmaSize   = 11
	V2HeaderSize = 40
)

type V2Header struct {
	Characteristics [16]byte
	DataOffset      uint64
	DataSize        uint64
	IndexOffset     uint64
}

func (h V2Header) FullyIndexed() bool { return h.Characteristics[0]&0x80 != 0 }

func (h V2Header) Bytes() []byte {
	out := make([]byte, 40)
	copy(out, h.Characteristics[:])
	binary.LittleEndian.PutUint64(out[16:], h.DataOffset)
	binary.LittleEndian.PutUint64(out[24:], h.DataSize)
	binary.LittleEndian.PutUint64(out[32:], h.IndexOffset)
	return out
}

func ParseV2Header(b []byte) (V2Header, error) {
	var h V2Header
	if len(b) < PragmaSize+V2HeaderSize {
		return h, ErrShort
	}
	if !bytes.Equal(b[:PragmaSize], Pragma) {
		return h, errors.New("refcar: not a CARv2 pragma")
	}
	copy(h.Characteristics[:], b[11:27])
	h.DataOffset = binary.LittleEndian.Uint64(b[27:])
	h.DataSize = binary.LittleEndian.Uint64(b[35:])
	h.IndexOffset = binary.LittleEndian.Uint64(b[43:])
	return h, nil
}

// V2Opts controls EncodeV2.
type V2Opts struct {
	DataPadding  uint64
	IndexPadding uint64
	Index        []byte // full index bytes including codec varint; nil = index-less (IndexOffset 0)
	FullyIndexed bool
}

// EncodeV2 wraps a payload into a CARv2 container.
func EncodeV2(payload []byte, o V2Opts) []byte {
	h := V2Header{DataOffset: 51 + o.DataPadding, DataSize: uint64(len(payload))}
	if o.Index != nil {
		h.IndexOffset = h.DataOffset + h.DataSize + o.IndexPadding
	}
	if o.FullyIndexed {
		h.Characteristics[0] |= 0x80
	}
	out := append([]byte{}, Pragma...)
	out = append(out, h.Bytes()...)
	out = append(out, make([]byte, o.DataPadding)...)
	out = append(out, payload...)
	if o.Index != nil {
		out = append(out, make([]byte, o.IndexPadding)...)
		out = append(out, o.Index...)
	}
	return out
}

// Version sniffs the container version from the first header.
func Version(b []byte) (uint64, error) {
	hl, n, err := Uvarint(b)
	if err != nil {
		return 0, err
	}
	if hl > uint64(len(b)-n) {
		return 0, ErrShort
	}
	h, err := DecodeHeaderBody(b[n : n+int(hl)])
	if err != nil {
		return 0, err
	}
	return h.Version, nil
}

// Archive is a decoded file of either version.
type Archive struct {
	Version    uint64
	V2         V2Header
	PayloadOff uint64
	PayloadLen uint64
	Payload    *Payload
	IndexBytes []byte // nil when there is no index
}

// Decode decodes a CARv1 or CARv2 file completely and strictly.
func Decode(b []byte, zeroEOF bool) (*Archive, error) {
	v, err := Version(b)
	if err != nil {
		return nil, err
	}
	switch v {
	case 1:
		p, err := DecodeV1(b, zeroEOF)
		if err != nil {
			return nil, err
		}
		return &Archive{Version: 1, PayloadOff: 0, PayloadLen: uint64(len(b)), Payload: p}, nil
	case 2:
		h, err := ParseV2Header(b)
		if err != nil {
			return nil, err
		}
		if h.DataOffset < 51 || h.DataSize == 0 || h.DataOffset+h.DataSize < h.DataOffset || h.DataOffset+h.DataSize > uint64(len(b)) {
			return nil, fmt.Errorf("refcar: v2 header does not describe a payload inside the file: %+v len=%d", h, len(b))
		}
		p, err := DecodeV1(b[h.DataOffset:h.DataOffset+h.DataSize], zeroEOF)
		if err != nil {
			return nil, err
		}
		a := &Archive{Version: 2, V2: h, PayloadOff: h.DataOffset, PayloadLen: h.DataSize, Payload: p}
		if h.IndexOffset != 0 {
			if h.IndexOffset < h.DataOffset+h.DataSize || h.IndexOffset > uint64(len(b)) {
				return nil, fmt.Errorf("refcar: index offset %d outside [%d,%d]", h.IndexOffset, h.DataOffset+h.DataSize, len(b))
			}
			a.IndexBytes = b[h.IndexOffset:]
		}
		return a, nil
	}
	return nil, fmt.Errorf("refcar: unsupported version %d", v)
}

// ---------------------------------------------------------------- indexes

const (
	CodecIndexSorted   = 0x0400
	CodecMhIndexSorted = 0x0401
)

// IndexRecord is one (multihash code, digest, offset) entry.
type IndexRecord struct {
	Code   uint64 // 0 for IndexSorted (no code stored)
	Digest []byte
	Offset uint64
}

type Bucket struct {
	Code    uint64
	Width   uint32 // digest length + 8
	Entries []IndexRecord
}

// ParsedIndex is the result of strictly parsing index bytes.
type ParsedIndex struct {
	Codec   uint64
	Buckets []Bucket
	Size    int // bytes consumed
}

func (p *ParsedIndex) Records() []IndexRecord {
	var out []IndexRecord
	for _, b := range p.Buckets {
		out = append(out, b.Entries...)
	}
	return out
}

func parseSortedBody(b []byte, p *int, code uint64) ([]Bucket, error) {
	if len(b)-*p < 4 {
		return nil, ErrShort
	}
	n := int32(binary.LittleEndian.Uint32(b[*p:]))
	*p += 4
	if n < 0 {
		return nil, errors.New("refcar: negative bucket count")
	}
	var out []Bucket
	for i := int32(0); i < n; i++ {
		if len(b)-*p < 12 {
			return nil, ErrShort
		}
		w := binary.LittleEndian.Uint32(b[*p:])
		bl := binary.LittleEndian.Uint64(b[*p+4:])
		*p += 12
		if w < 8 {
			return nil, errors.New("refcar: bucket width < 8")
		}
		if bl > uint64(len(b)-*p) {
			return nil, ErrShort
		}
		if bl%uint64(w) != 0 {
			return nil, errors.New("refcar: bucket length not a multiple of width")
		}
		bk := Bucket{Code: code, Width: w}
		for off := uint64(0); off < bl; off += uint64(w) {
			e := b[*p+int(off) : *p+int(off)+int(w)]
			bk.Entries = append(bk.Entries, IndexRecord{Code: code, Digest: e[:w-8], Offset: binary.LittleEndian.Uint64(e[w-8:])})
		}
		*p += int(bl)
		out = append(out, bk)
	}
	return out, nil
}

// ParseIndex strictly parses index bytes (including the codec varint).
func ParseIndex(b []byte) (*ParsedIndex, error) {
	codec, n, err := Uvarint(b)
	if err != nil {
		return nil, err
	}
	p := n
	pi := &ParsedIndex{Codec: codec}
	switch codec {
	case CodecIndexSorted:
		bk, err := parseSortedBody(b, &p, 0)
		if err != nil {
			return nil, err
		}
		pi.Buckets = bk
	case CodecMhIndexSorted:
		if len(b)-p < 4 {
			return nil, ErrShort
		}
		cnt := int32(binary.LittleEndian.Uint32(b[p:]))
		p += 4
		if cnt < 0 {
			return nil, errors.New("refcar: negative code count")
		}
		for i := int32(0); i < cnt; i++ {
			if len(b)-p < 8 {
				return nil, ErrShort
			}
			code := binary.LittleEndian.Uint64(b[p:])
			p += 8
			bk, err := parseSortedBody(b, &p, code)
			if err != nil {
				return nil, err
			}
			pi.Buckets = append(pi.Buckets, bk...)
		}
	default:
		return nil, fmt.Errorf("refcar: unknown index codec %#x", codec)
	}
	pi.Size = p
	return pi, nil
}

// CheckCanonical verifies the ordering rules: codes ascending, widths ascending
// within a code, entries ascending by digest (ties allowed), no duplicate
// (code,width) bucket.
func (p *ParsedIndex) CheckCanonical() error {
	for i, b := range p.Buckets {
		if i > 0 {
			pb := p.Buckets[i-1]
			if pb.Code > b.Code || (pb.Code == b.Code && pb.Width >= b.Width) {
				return fmt.Errorf("bucket %d (code %#x width %d) not after bucket %d (code %#x width %d)", i, b.Code, b.Width, i-1, pb.Code, pb.Width)
			}
		}
		for j := 1; j < len(b.Entries); j++ {
			if bytes.Compare(b.Entries[j-1].Digest, b.Entries[j].Digest) > 0 {
				return fmt.Errorf("bucket %d entry %d out of order", i, j)
			}
		}
	}
	return nil
}

// BuildIndex renders records in the given codec canonically (ties on digest
// ordered by offset).
func BuildIndex(codec uint64, recs []IndexRecord) []byte {
	type bkey struct {
		code  uint64
		width uint32
	}
	m := map[bkey][]IndexRecord{}
	for _, r := range recs {
		k := bkey{width: uint32(len(r.Digest) + 8)}
		if codec == CodecMhIndexSorted {
			k.code = r.Code
		}
		m[k] = append(m[k], r)
	}
	keys := make([]bkey, 0, len(m))
	for k := range m {
		keys = append(keys, k)
	}
	sort.Slice(keys, func(i, j int) bool {
		if keys[i].code != keys[j].code {
			return keys[i].code < keys[j].code
		}
		return keys[i].width < keys[j].width
	})
	out := PutUvarint(nil, codec)
	u32 := func(v uint32) { out = binary.LittleEndian.AppendUint32(out, v) }
	u64 := func(v uint64) { out = binary.LittleEndian.AppendUint64(out, v) }
	writeBucket := func(k bkey) {
		rs := m[k]
		sort.SliceStable(rs, func(i, j int) bool {
			c := bytes.Compare(rs[i].Digest, rs[j].Digest)
			if c != 0 {
				return c < 0
			}
			return rs[i].Offset < rs[j].Offset
		})
		u32(k.width)
		u64(uint64(len(rs)) * uint64(k.width))
		for _, r := range rs {
			out = append(out, r.Digest...)
			u64(r.Offset)
		}
	}
	if codec == CodecIndexSorted {
		u32(uint32(len(keys)))
		for _, k := range keys {
			writeBucket(k)
		}
		return out
	}
	// group by code
	var codes []uint64
	byCode := map[uint64][]bkey{}
	for _, k := range keys {
		if _, ok := byCode[k.code]; !ok {
			codes = append(codes, k.code)
		}
		byCode[k.code] = append(byCode[k.code], k)
	}
	u32(uint32(len(codes)))
	for _, c := range codes {
		u64(c)
		u32(uint32(len(byCode[c])))
		for _, k := range byCode[c] {
			writeBucket(k)
		}
	}
	return out
}

// CanonicalRecords returns the records sorted by (code, width, digest, offset):
// the form in which two indexes holding the same multiset compare equal.
func CanonicalRecords(recs []IndexRecord) []IndexRecord {
	out := append([]IndexRecord{}, recs...)
	sort.SliceStable(out, func(i, j int) bool {
		a, b := out[i], out[j]
		if a.Code != b.Code {
			return a.Code < b.Code
		}
		if len(a.Digest) != len(b.Digest) {
			return len(a.Digest) < len(b.Digest)
		}
		if c := bytes.Compare(a.Digest, b.Digest); c != 0 {
			return c < 0
		}
		return a.Offset < b.Offset
	})
	return out
}

// ExpectedIndexRecords computes the records an index over the payload must
// hold: one per section (identity sections only when storeIdentity).
func ExpectedIndexRecords(p *Payload, codec uint64, storeIdentity bool) []IndexRecord {
	var out []IndexRecord
	for _, s := range p.Sections {
		if s.Cid.IsIdentity() && !storeIdentity {
			continue
		}
		r := IndexRecord{Digest: s.Cid.Digest, Offset: s.Offset}
		if codec == CodecMhIndexSorted {
			r.Code = s.Cid.MhCode
		}
		out = append(out, r)
	}
	return out
}

func RecordsEqual(a, b []IndexRecord) bool {
	a, b = CanonicalRecords(a), CanonicalRecords(b)
	if len(a) != len(b) {
		return false
	}
	for i := range a {
		if a[i].Code != b[i].Code || a[i].Offset != b[i].Offset || !bytes.Equal(a[i].Digest, b[i].Digest) {
			return false
		}
	}
	return true
}
