package lab

import (
	"bytes"
	"sort"

	"carlab/internal/refcar"
)

// Outcome of a Put in the reference model.
type Outcome int

const (
	Stored Outcome = iota
	Skipped
	Rejected        // ErrCidTooLarge, store unchanged
	SkippedOrReject // (no longer produced: an over-long identity CID with identity storing off is Skipped)
)

// Model is the executable reference of a writable CAR store: an append-only
// list of sections plus the documented admission rules.
type Model struct {
	Cfg      Cfg
	Sections []refcar.Block

	// lookup tables over Sections, rebuilt lazily when Sections was changed from outside
	indexed int
	byKey   map[string][]int
}

func sameMultihash(a, b refcar.Cid) bool {
	return bytes.Equal(a.Multihash(), b.Multihash())
}

// keyOf is the identity under which the store de-duplicates and looks up.
func (m *Model) keyOf(c refcar.Cid) string {
	if m.Cfg.WholeCID {
		return string(c.Raw)
	}
	return string(c.Multihash())
}

func (m *Model) sync() {
	if m.byKey != nil && m.indexed == len(m.Sections) {
		return
	}
	if m.byKey == nil || m.indexed > len(m.Sections) {
		m.byKey = map[string][]int{}
		m.indexed = 0
	}
	for i := m.indexed; i < len(m.Sections); i++ {
		sc, _, err := refcar.SplitCid(m.Sections[i].Cid)
		if err != nil {
			panic(err)
		}
		k := m.keyOf(sc)
		m.byKey[k] = append(m.byKey[k], i)
	}
	m.indexed = len(m.Sections)
}

// Decide returns what Put must do with the block, without changing the model.
func (m *Model) Decide(b refcar.Block) Outcome {
	c, _, err := refcar.SplitCid(b.Cid)
	if err != nil {
		panic(err)
	}
	tooLong := uint64(len(b.Cid)) > m.Cfg.EffMaxCid()
	if c.IsIdentity() && !m.Cfg.StoreID {
		// skipped like an IdStore does, however long the CID: MaxIndexCidSize is documented as the
		// limit for INDEXED CIDs, and this one is never indexed (the read side, LoadIndex, agrees)
		return Skipped
	}
	if tooLong {
		return Rejected
	}
	if !m.Cfg.AllowDup {
		m.sync()
		if len(m.byKey[m.keyOf(c)]) > 0 {
			return Skipped
		}
	}
	return Stored
}

// Put applies the block and returns the outcome.
func (m *Model) Put(b refcar.Block) Outcome {
	o := m.Decide(b)
	if o == Stored {
		m.Sections = append(m.Sections, b)
	}
	return o
}

// Lookup returns the admissible data values for key: nil slice = not found.
// identity is true when the answer is implied by the key itself (identity CID
// with identity storing off).
func (m *Model) Lookup(keyRaw []byte) (datas [][]byte, implied bool) {
	key, _, err := refcar.SplitCid(keyRaw)
	if err != nil {
		panic(err)
	}
	if key.IsIdentity() && !m.Cfg.StoreID {
		return [][]byte{key.Digest}, true
	}
	m.sync()
	for _, i := range m.byKey[m.keyOf(key)] {
		datas = append(datas, m.Sections[i].Data)
	}
	return datas, false
}

// Keys returns the sorted multiset of listing keys: whole CIDs or raw-codec
// CIDv1 of the multihash.
func (m *Model) Keys() []string {
	return KeysOf(m.Sections, m.Cfg.WholeCID)
}

// FlatKey converts a CID to the listing key (raw-codec CIDv1 over the multihash) unless whole.
func FlatKey(raw []byte, whole bool) string {
	if whole {
		return string(raw)
	}
	c, _, err := refcar.SplitCid(raw)
	if err != nil {
		panic(err)
	}
	return string(refcar.MakeCidV1(0x55, c.MhCode, c.Digest))
}

func KeysOf(secs []refcar.Block, whole bool) []string {
	out := make([]string, 0, len(secs))
	for _, s := range secs {
		out = append(out, FlatKey(s.Cid, whole))
	}
	sort.Strings(out)
	return out
}

// Dedupe runs a block sequence through a fresh model and returns what is stored.
func Dedupe(cfg Cfg, blocks []refcar.Block) []refcar.Block {
	m := &Model{Cfg: cfg}
	for _, b := range blocks {
		m.Put(b)
	}
	return m.Sections
}

func StringsEqual(a, b []string) bool {
	if len(a) != len(b) {
		return false
	}
	for i := range a {
		if a[i] != b[i] {
			return false
		}
	}
	return true
}

// ContainsData reports whether d is one of the admissible values.
func ContainsData(set [][]byte, d []byte) bool {
	for _, s := range set {
		if bytes.Equal(s, d) {
			return true
		}
	}
	return false
}
