// Package lab bridges the reference types and go-car's API: option
// configurations, CID/block conversion, small I/O helpers and the store model.
package lab

import (
	"bytes"
	"encoding/hex"
	"errors"
	"fmt"
	"io"
	"os"

	blocks "github.com/ipfs/go-block-format"
	"github.com/ipfs/go-cid"
	carv2 "github.com/ipld/go-car/v2"
	"github.com/multiformats/go-multicodec"
	_ "github.com/multiformats/go-multihash/register/blake2"
	_ "github.com/multiformats/go-multihash/register/sha3"

	"carlab/internal/refcar"
)

// Cfg is a JSON-serialisable option configuration.
type Cfg struct {
	V1       bool   `json:"v1,omitempty"`      // WriteAsCarV1
	DataPad  uint64 `json:"dpad,omitempty"`    // UseDataPadding
	IndexPad uint64 `json:"ipad,omitempty"`    // UseIndexPadding
	Sorted   bool   `json:"sorted,omitempty"`  // UseIndexCodec(CarIndexSorted) instead of the default multihash-sorted
	WholeCID bool   `json:"whole,omitempty"`   // UseWholeCIDs
	AllowDup bool   `json:"dup,omitempty"`     // AllowDuplicatePuts
	StoreID  bool   `json:"id,omitempty"`      // StoreIdentityCIDs
	MaxCid   uint64 `json:"maxcid,omitempty"`  // MaxIndexCidSize
	ZeroEOF  bool   `json:"zeroeof,omitempty"` // ZeroLengthSectionAsEOF
	NoIdx    bool   `json:"noidx,omitempty"`   // WithoutIndex (IndexCodec = CarIndexNone)
	MaxSec   uint64 `json:"maxsec,omitempty"`  // MaxAllowedSectionSize (a READ limit: writers and resumption are not bound by it)
}

func (c Cfg) String() string {
	return fmt.Sprintf("v1=%v dpad=%d ipad=%d sorted=%v whole=%v dup=%v id=%v maxcid=%d zeroeof=%v", c.V1, c.DataPad, c.IndexPad, c.Sorted, c.WholeCID, c.AllowDup, c.StoreID, c.MaxCid, c.ZeroEOF)
}

// Short gives a compact label for coverage counters.
func (c Cfg) Short() string {
	s := "v2"
	if c.V1 {
		s = "v1"
	}
	if c.DataPad > 0 {
		s += "+dp"
	}
	if c.IndexPad > 0 {
		s += "+ip"
	}
	if c.Sorted {
		s += "+sorted"
	}
	if c.WholeCID {
		s += "+whole"
	}
	if c.AllowDup {
		s += "+dup"
	}
	if c.StoreID {
		s += "+id"
	}
	if c.MaxCid > 0 {
		s += "+maxcid"
	}
	if c.ZeroEOF {
		s += "+zeof"
	}
	if c.NoIdx {
		s += "+noidx"
	}
	return s
}

// IndexCodec returns the reference codec number selected by the config.
func (c Cfg) IndexCodec() uint64 {
	if c.Sorted {
		return refcar.CodecIndexSorted
	}
	return refcar.CodecMhIndexSorted
}

// Opts converts to go-car options.
func (c Cfg) Opts() []carv2.Option {
	var o []carv2.Option
	if c.V1 {
		o = append(o, carv2.WriteAsCarV1(true))
	}
	if c.DataPad > 0 {
		o = append(o, carv2.UseDataPadding(c.DataPad))
	}
	if c.IndexPad > 0 {
		o = append(o, carv2.UseIndexPadding(c.IndexPad))
	}
	if c.Sorted {
		o = append(o, carv2.UseIndexCodec(multicodec.CarIndexSorted))
	}
	if c.WholeCID {
		o = append(o, carv2.UseWholeCIDs(true))
	}
	if c.AllowDup {
		o = append(o, carv2.AllowDuplicatePuts(true))
	}
	if c.StoreID {
		o = append(o, carv2.StoreIdentityCIDs(true))
	}
	if c.MaxCid > 0 {
		o = append(o, carv2.MaxIndexCidSize(c.MaxCid))
	}
	if c.ZeroEOF {
		o = append(o, carv2.ZeroLengthSectionAsEOF(true))
	}
	if c.MaxSec > 0 {
		o = append(o, carv2.MaxAllowedSectionSize(c.MaxSec))
	}
	if c.NoIdx {
		o = append(o, carv2.WithoutIndex())
	}
	return o
}

// EffMaxCid is the effective MaxIndexCidSize.
func (c Cfg) EffMaxCid() uint64 {
	if c.MaxCid == 0 {
		return carv2.DefaultMaxIndexCidSize
	}
	return c.MaxCid
}

// ToCid converts reference CID bytes to a go-cid value.
func ToCid(raw []byte) cid.Cid {
	c, err := cid.Cast(raw)
	if err != nil {
		panic(fmt.Sprintf("lab: generator produced a CID go-cid rejects: %x: %v", raw, err))
	}
	return c
}

// TryCid is ToCid without the panic.
func TryCid(raw []byte) (cid.Cid, error) { return cid.Cast(raw) }

// ToCids converts roots; a nil slice is returned when nilRoots and empty.
func ToCids(raws [][]byte, nilRoots bool) []cid.Cid {
	if len(raws) == 0 {
		if nilRoots {
			return nil
		}
		return []cid.Cid{}
	}
	out := make([]cid.Cid, len(raws))
	for i, r := range raws {
		out[i] = ToCid(r)
	}
	return out
}

func ToBlock(b refcar.Block) blocks.Block {
	blk, err := blocks.NewBlockWithCid(b.Data, ToCid(b.Cid))
	if err != nil {
		panic(err)
	}
	return blk
}

// CidsEqual compares a go-cid list with reference root bytes.
func CidsEqual(got []cid.Cid, want [][]byte) bool {
	if len(got) != len(want) {
		return false
	}
	for i := range got {
		if !bytes.Equal(got[i].Bytes(), want[i]) {
			return false
		}
	}
	return true
}

func Hex(b []byte) string {
	if len(b) > 48 {
		return hex.EncodeToString(b[:48]) + fmt.Sprintf("…(%d bytes)", len(b))
	}
	return hex.EncodeToString(b)
}

// PlainReader hides every interface but io.Reader.
type PlainReader struct{ R io.Reader }

func (p PlainReader) Read(b []byte) (int, error) { return p.R.Read(b) }

// OneByteReader delivers at most one byte per Read: the most hostile legal reader.
type OneByteReader struct{ R io.Reader }

func (p OneByteReader) Read(b []byte) (int, error) {
	if len(b) == 0 {
		return 0, nil
	}
	return p.R.Read(b[:1])
}

// StutterReader is a legal but awkward io.Reader: every other call returns (0, nil), data comes
// in pieces of at most 3 bytes, and the last piece is returned together with io.EOF.
type StutterReader struct {
	B   []byte
	pos int
	n   int
}

func (p *StutterReader) Read(b []byte) (int, error) {
	p.n++
	if len(b) == 0 {
		return 0, nil
	}
	if p.pos >= len(p.B) {
		return 0, io.EOF
	}
	if p.n%2 == 0 {
		return 0, nil
	}
	k := copy(b[:min(3, len(b))], p.B[p.pos:])
	p.pos += k
	if p.pos >= len(p.B) {
		return k, io.EOF
	}
	return k, nil
}

// EOFReaderAt is a legal io.ReaderAt that reports io.EOF together with a full read that ends
// exactly at the end of the data (the contract allows either err == EOF or err == nil there).
type EOFReaderAt struct{ B []byte }

func (e EOFReaderAt) ReadAt(p []byte, off int64) (int, error) {
	if off < 0 || off >= int64(len(e.B)) {
		return 0, io.EOF
	}
	n := copy(p, e.B[off:])
	if off+int64(n) == int64(len(e.B)) {
		return n, io.EOF
	}
	return n, nil
}

// EOFSeeker is a legal io.ReadSeeker whose Read reports io.EOF together with the last bytes.
type EOFSeeker struct{ R *bytes.Reader }

func (e EOFSeeker) Read(p []byte) (int, error) {
	n, err := e.R.Read(p)
	if err == nil && e.R.Len() == 0 && n > 0 {
		return n, io.EOF
	}
	return n, err
}
func (e EOFSeeker) Seek(off int64, whence int) (int64, error) { return e.R.Seek(off, whence) }

// Src is what the fault wrapper and a bytes.Reader both offer.
type Src interface {
	io.Reader
	io.Seeker
	io.ReaderAt
}

// ErrInjectedIO is the error a FailSrc reports.
var ErrInjectedIO = errors.New("injected: input/output error")

// FailSrc delivers the bytes below offset N and fails with ErrInjectedIO on any access to a byte
// at or beyond N; it never reports io.EOF (N is below the size): a source that breaks mid-way.
type FailSrc struct {
	R  *bytes.Reader
	N  int64
	Hi int64 // when > N: only the window [N, Hi) is broken (ReadAt only), bytes beyond it are readable again
}

func (f *FailSrc) Read(p []byte) (int, error) {
	pos := f.R.Size() - int64(f.R.Len())
	if len(p) == 0 {
		return 0, nil
	}
	if pos >= f.N {
		return 0, ErrInjectedIO
	}
	if pos+int64(len(p)) > f.N {
		p = p[:f.N-pos]
	}
	n, err := f.R.Read(p)
	if err == io.EOF {
		err = ErrInjectedIO
	}
	return n, err
}
func (f *FailSrc) Seek(off int64, whence int) (int64, error) { return f.R.Seek(off, whence) }
func (f *FailSrc) ReadAt(p []byte, off int64) (int, error) {
	if f.Hi > f.N {
		if off+int64(len(p)) <= f.N || off >= f.Hi {
			return f.R.ReadAt(p, off)
		}
		if off >= f.N {
			return 0, ErrInjectedIO
		}
		n, _ := f.R.ReadAt(p[:f.N-off], off)
		return n, ErrInjectedIO
	}
	if off >= f.N {
		return 0, ErrInjectedIO
	}
	if off+int64(len(p)) > f.N {
		n, _ := f.R.ReadAt(p[:f.N-off], off)
		return n, ErrInjectedIO
	}
	return f.R.ReadAt(p, off)
}

// StutterSeeker is a legal io.ReadSeeker without ReadByte whose every other Read returns (0, nil)
// and that delivers at most 7 bytes at a time (a polling or chunked source).
type StutterSeeker struct {
	R *bytes.Reader
	n int
}

func (s *StutterSeeker) Read(p []byte) (int, error) {
	s.n++
	if len(p) == 0 || s.n%2 == 0 {
		return 0, nil
	}
	if len(p) > 7 {
		p = p[:7]
	}
	return s.R.Read(p)
}
func (s *StutterSeeker) Seek(off int64, whence int) (int64, error) { return s.R.Seek(off, whence) }

// CountingReader counts bytes delivered and calls.
type CountingReader struct {
	R     io.Reader
	N     int64
	Calls int64
}

func (c *CountingReader) Read(b []byte) (int, error) {
	n, err := c.R.Read(b)
	c.N += int64(n)
	c.Calls++
	return n, err
}

// TempDir creates a scratch directory; the caller removes it.
func TempDir(prefix string) string {
	d, err := os.MkdirTemp("", "carlab-"+prefix+"-")
	if err != nil {
		panic(err)
	}
	return d
}

// FirstDiff returns the first index where a and b differ (or -1).
func FirstDiff(a, b []byte) int {
	n := len(a)
	if len(b) < n {
		n = len(b)
	}
	for i := 0; i < n; i++ {
		if a[i] != b[i] {
			return i
		}
	}
	if len(a) != len(b) {
		return n
	}
	return -1
}

// PlainWriter hides every interface but io.Writer.
type PlainWriter struct{ W io.Writer }

func (p PlainWriter) Write(b []byte) (int, error) { return p.W.Write(b) }
