// Package gen holds the seeded generators shared by the checks.
package gen

import (
	"encoding/binary"
	"math/rand"

	"carlab/internal/refcar"
)

// Rand returns a PRNG for a sub-seed.
func Rand(seed int64) *rand.Rand { return rand.New(rand.NewSource(seed)) }

// Hash families the reference can verify and go-multihash (with the registered
// extras) can compute.
var (
	CoreHashes  = []uint64{0x12, 0x13, 0x11, 0x56}                           // sha2-256, sha2-512, sha1, dbl-sha2-256 (core registry)
	ExtraHashes = []uint64{0xb220, 0x16}                                     // blake2b-256, sha3-256 (registered by the harness)
	Codecs      = []uint64{0x55, 0x70, 0x71, 0x0129, 0x00, 0x0200, 0x300001} // raw, dag-pb, dag-cbor, dag-json, 0, 2-byte, 4-byte varint codec
)

func fullLen(code uint64) int {
	switch code {
	case 0x11:
		return 20
	case 0x13:
		return 64
	}
	return 32
}

// Bytes returns n pseudo-random bytes.
func Bytes(r *rand.Rand, n int) []byte {
	b := make([]byte, n)
	r.Read(b)
	return b
}

// BlockOpts steers HonestBlock.
type BlockOpts struct {
	CoreOnly    bool // only hash functions of the core registry (for the CLI)
	NoIdentity  bool
	NoV0        bool
	NoTruncated bool
	Size        int // -1 = pick
	MaxSize     int
}

// PickSize draws a data size: mostly small, sometimes boundary-crossing.
func PickSize(r *rand.Rand, max int) int {
	if max <= 0 {
		max = 300
	}
	switch r.Intn(10) {
	case 0:
		return 0
	case 1:
		return 1
	case 2, 3:
		return 80 + r.Intn(20) // around the 127/128 total with a 36-byte cid
	default:
		return r.Intn(max)
	}
}

// HonestBlock returns a block whose CID really is the hash of its data.
func HonestBlock(r *rand.Rand, o BlockOpts) refcar.Block {
	size := o.Size
	if size < 0 {
		size = PickSize(r, o.MaxSize)
	}
	data := Bytes(r, size)
	return HonestBlockFor(r, o, data)
}

// HonestBlockFor builds an honest CID for the given data.
func HonestBlockFor(r *rand.Rand, o BlockOpts, data []byte) refcar.Block {
	k := r.Intn(20)
	switch {
	case k == 0 && !o.NoIdentity && len(data) <= 100:
		return refcar.Block{Cid: refcar.MakeCidV1(Codecs[r.Intn(3)], 0, data), Data: data}
	case k <= 2 && !o.NoV0:
		d, _ := refcar.Hash(0x12, data)
		return refcar.Block{Cid: refcar.MakeCidV0(d), Data: data}
	}
	hs := CoreHashes
	if !o.CoreOnly && r.Intn(3) == 0 {
		hs = ExtraHashes
	}
	code := hs[r.Intn(len(hs))]
	if r.Intn(2) == 0 {
		code = 0x12
	}
	d, _ := refcar.Hash(code, data)
	if !o.NoTruncated && r.Intn(12) == 0 {
		d = d[:[]int{20, 4, 16}[r.Intn(3)]]
	}
	codec := Codecs[r.Intn(len(Codecs))]
	if r.Intn(2) == 0 {
		codec = 0x55
	}
	return refcar.Block{Cid: refcar.MakeCidV1(codec, code, d), Data: data}
}

// BoundaryBlock returns an honest sha2-256 raw block whose section body
// (cid+data) has exactly total bytes.
func BoundaryBlock(r *rand.Rand, total int) refcar.Block {
	const cidLen = 36
	if total < cidLen {
		total = cidLen
	}
	data := Bytes(r, total-cidLen)
	d, _ := refcar.Hash(0x12, data)
	return refcar.Block{Cid: refcar.MakeCidV1(0x55, 0x12, d), Data: data}
}

// SyntheticCid returns CID bytes with an arbitrary digest (never hashed).
func SyntheticCid(r *rand.Rand) []byte {
	codes := []uint64{0x12, 0x13, 0x11, 0x00, 0xb220, 0x1e, 0x1b, 0x3e7}
	code := codes[r.Intn(len(codes))]
	widths := []int{0, 1, 4, 20, 32, 32, 32, 64, 80}
	w := widths[r.Intn(len(widths))]
	return refcar.MakeCidV1(Codecs[r.Intn(len(Codecs))], code, Bytes(r, w))
}

// Content is the logical content of an archive.
type Content struct {
	Roots    [][]byte
	NilRoots bool
	Blocks   []refcar.Block
}

type ContentOpts struct {
	Block           BlockOpts
	MinBlocks       int
	MaxBlocks       int
	MaxRoots        int
	MinRoots        int
	Dups            bool // include duplicate blocks, same-multihash-other-codec twins and identity twins
	Synthetic       bool // CIDs need not be honest (index/store code that never hashes)
	Boundaries      bool // sometimes include varint-boundary sized sections
	BigBoundary     bool // allow the 2 MiB boundary
	RootsFromBlocks bool
	TwinRoots       bool // some roots are codec twins of blocks (same multihash, another CID)
}

// MakeContent draws a content.
func MakeContent(r *rand.Rand, o ContentOpts) Content {
	var c Content
	n := o.MinBlocks
	if o.MaxBlocks > o.MinBlocks {
		n += r.Intn(o.MaxBlocks - o.MinBlocks + 1)
	}
	for i := 0; i < n; i++ {
		var b refcar.Block
		switch {
		case o.Synthetic && r.Intn(3) == 0:
			b = refcar.Block{Cid: SyntheticCid(r), Data: Bytes(r, PickSize(r, o.Block.MaxSize))}
			if sc, _, err := refcar.SplitCid(b.Cid); err == nil && sc.IsIdentity() {
				b.Data = sc.Digest // an identity CID *is* its data; anything else would not be a well-formed archive
			}
		case o.Boundaries && r.Intn(8) == 0:
			tot := []int{127, 128, 16383, 16384, 129, 16385}[r.Intn(6)]
			if r.Intn(2) == 0 {
				// sizes around powers of two: where fixed-size scratch buffers end (cid+data, and cid+data+prefix)
				k := []int{8, 9, 9, 10, 11, 12, 12, 13, 15, 16}[r.Intn(10)]
				tot = 1<<k + []int{-3, -2, -1, 0, 1}[r.Intn(5)]
			}
			if o.BigBoundary && r.Intn(6) == 0 {
				tot = []int{2097151, 2097152}[r.Intn(2)]
			}
			b = BoundaryBlock(r, tot)
		default:
			bo := o.Block
			bo.Size = -1
			b = HonestBlock(r, bo)
		}
		c.Blocks = append(c.Blocks, b)
		if o.Dups && len(c.Blocks) > 0 && r.Intn(5) == 0 {
			src := c.Blocks[r.Intn(len(c.Blocks))]
			sc, _, err := refcar.SplitCid(src.Cid)
			if err == nil {
				switch r.Intn(5) {
				case 4: // near-collision: same code and width, one late digest byte differs (synthetic only)
					if o.Synthetic && len(sc.Digest) > 1 && sc.MhCode != 0 {
						nd := append([]byte{}, sc.Digest...)
						nd[len(nd)-1-r.Intn(len(nd)/2)] ^= byte(1 + r.Intn(255))
						c.Blocks = append(c.Blocks, refcar.Block{Cid: MakeCidLike(sc, nd), Data: Bytes(r, 7)})
					}
				case 0: // exact duplicate
					c.Blocks = append(c.Blocks, src)
				case 1: // same multihash under another codec
					if sc.Version == 1 {
						nc := Codecs[r.Intn(len(Codecs))]
						c.Blocks = append(c.Blocks, refcar.Block{Cid: refcar.MakeCidV1(nc, sc.MhCode, sc.Digest), Data: src.Data})
					} else {
						c.Blocks = append(c.Blocks, refcar.Block{Cid: refcar.MakeCidV1(0x55, 0x12, sc.Digest), Data: src.Data})
					}
				case 2: // identity twin: identity CID whose digest is another block's digest (equal digest, other hash code)
					if !o.Block.NoIdentity && len(sc.Digest) > 0 {
						c.Blocks = append(c.Blocks, refcar.Block{Cid: refcar.MakeCidV1(0x55, 0, sc.Digest), Data: append([]byte{}, sc.Digest...)})
					}
				case 3: // same digest, other hash code (synthetic only)
					if o.Synthetic {
						c.Blocks = append(c.Blocks, refcar.Block{Cid: refcar.MakeCidV1(0x55, 0x1e, sc.Digest), Data: Bytes(r, 5)})
					}
				}
			}
		}
	}
	nr := o.MinRoots
	if o.MaxRoots > o.MinRoots {
		nr += r.Intn(o.MaxRoots - o.MinRoots + 1)
	}
	if r.Intn(40) == 0 && o.MaxRoots >= 40 {
		nr = 40 + r.Intn(500) // push the header across the 127/128 and 16383/16384 boundaries
	}
	for i := 0; i < nr; i++ {
		if len(c.Blocks) > 0 && (o.RootsFromBlocks || r.Intn(2) == 0) {
			root := c.Blocks[r.Intn(len(c.Blocks))].Cid
			if o.TwinRoots && r.Intn(3) == 0 {
				// a root that is NOT a block's CID but shares its multihash (other codec / CID version)
				if sc, _, err := refcar.SplitCid(root); err == nil {
					codec := uint64(0x71)
					if sc.Codec == 0x71 {
						codec = 0x55
					}
					root = refcar.MakeCidV1(codec, sc.MhCode, sc.Digest)
				}
			}
			c.Roots = append(c.Roots, root)
		} else {
			bo := o.Block
			bo.Size = 8
			bo.NoIdentity = true
			c.Roots = append(c.Roots, HonestBlock(r, bo).Cid)
		}
	}
	if nr == 0 {
		c.Roots = [][]byte{}
		c.NilRoots = r.Intn(2) == 0
	}
	return c
}

// LongIdentityBlock is an honest identity block whose CID is longer than the default
// MaxIndexCidSize (2 KiB): legal in a payload, only index generation refuses it.
func LongIdentityBlock(r *rand.Rand) refcar.Block {
	d := Bytes(r, 2049+r.Intn(3000))
	return refcar.Block{Cid: refcar.MakeCidV1(0x55, 0x00, d), Data: append([]byte{}, d...)}
}

// U64 little-endian helper for descriptors.
func U64(v uint64) []byte { return binary.LittleEndian.AppendUint64(nil, v) }

// RandT is the PRNG type used by the generators.
type RandT = rand.Rand

// MakeCidLike builds a CID with the version/codec/hash code of c and another digest.
func MakeCidLike(c refcar.Cid, digest []byte) []byte {
	if c.Version == 0 {
		return refcar.MakeCidV1(0x70, 0x12, digest)
	}
	return refcar.MakeCidV1(c.Codec, c.MhCode, digest)
}
