// Package mon is the small monitoring framework shared by all checks: it
// enumerates case descriptors, runs them on a worker pool, collects violations,
// coverage counters and samples, matches violations against KNOWN_FINDINGS.txt,
// writes replay files and the evidence file, and maps everything to the exit
// status required by the interface.
package mon

import (
	"crypto/sha1"
	"encoding/hex"
	"encoding/json"
	"fmt"
	"os"
	"path/filepath"
	"regexp"
	"runtime"
	"runtime/debug"
	"sort"
	"strconv"
	"strings"
	"sync"
	"time"
)

// Violation is one refutation of the property observed on one case.
type Violation struct {
	Key    string `json:"key"` // finding key: api/phase/symptom — never the property id alone
	Msg    string `json:"msg"`
	Detail any    `json:"detail,omitempty"`
}

// T collects what one case observed. It is only used by the goroutine running the case.
type T struct {
	Tier         string
	Seed         int64
	violations   []Violation
	cover        map[string]int
	nontrivial   bool
	distinct     string
	sample       any
	inconclusive []string
	events       int
}

func (t *T) Violatef(key, format string, a ...any) {
	t.violations = append(t.violations, Violation{Key: key, Msg: fmt.Sprintf(format, a...)})
}
func (t *T) ViolateD(key string, detail any, format string, a ...any) {
	t.violations = append(t.violations, Violation{Key: key, Msg: fmt.Sprintf(format, a...), Detail: detail})
}
func (t *T) Failed() bool      { return len(t.violations) > 0 }
func (t *T) Cover(name string) { t.CoverN(name, 1) }
func (t *T) CoverN(name string, n int) {
	if t.cover == nil {
		t.cover = map[string]int{}
	}
	t.cover[name] += n
}
func (t *T) Nontrivial()         { t.nontrivial = true }
func (t *T) Distinct(key string) { t.distinct = key }
func (t *T) Sample(v any)        { t.sample = v }
func (t *T) Events(n int)        { t.events += n }
func (t *T) Inconclusive(format string, a ...any) {
	t.inconclusive = append(t.inconclusive, fmt.Sprintf(format, a...))
}

// G is handed to a check's generator.
type G struct {
	Seed int64
	Tier string // "quick" | "thorough"
	emit func(any)
}

func (g *G) Emit(desc any)  { g.emit(desc) }
func (g *G) Thorough() bool { return g.Tier == "thorough" }
func (g *G) Pick(q, th int) int {
	if g.Thorough() {
		return th
	}
	return q
}

// Check describes one property's monitor.
type Check struct {
	ID          string
	Level       string // manifest category
	Rule        string
	Assumptions []string
	Gen         func(g *G)
	Run         func(t *T, desc json.RawMessage)
	MinCover    map[string]int // observed-nothing guard: counters that must be reached in every run
	Workers     int
	CaseTimeout time.Duration // wall-clock watchdog per case: firing is *inconclusive*, never a verdict
	// Post may add violations / coverage computed over the whole run (e.g. race logs).
	Post func(t *T)
	// Extra is merged into coverage (static descriptive values).
	Extra map[string]any
	// Setup runs once before the cases (may build scratch state); Teardown after.
	Setup    func(tier string, seed int64) error
	Teardown func()
}

type known struct {
	prop, key, text string
	hit             bool
}

// Dir returns the verification root (directory holding MANIFEST.json).
func Dir() string {
	if d := os.Getenv("VERIF_DIR"); d != "" {
		return d
	}
	return "/verif"
}

// OutDir is where evidence and replay files go (the verification root, unless a run against an
// alternative source tree redirects its output so that the registered evidence is left alone).
func OutDir() string {
	if d := os.Getenv("VERIF_OUT"); d != "" {
		return d
	}
	return Dir()
}

func loadKnown(prop string) []*known {
	var out []*known
	b, err := os.ReadFile(filepath.Join(Dir(), "KNOWN_FINDINGS.txt"))
	if err != nil {
		return nil
	}
	for _, line := range strings.Split(string(b), "\n") {
		line = strings.TrimSpace(line)
		if !strings.HasPrefix(line, "known:") {
			continue
		}
		rest := strings.TrimSpace(strings.TrimPrefix(line, "known:"))
		// known: property=<id> key=<finding key, may contain spaces> :: <what fails>
		if !strings.HasPrefix(rest, "property=") {
			continue
		}
		sp := strings.IndexByte(rest, ' ')
		if sp < 0 {
			continue
		}
		p := strings.TrimPrefix(rest[:sp], "property=")
		rest = strings.TrimSpace(rest[sp:])
		if p != prop || !strings.HasPrefix(rest, "key=") {
			continue
		}
		rest = strings.TrimPrefix(rest, "key=")
		k, text := rest, ""
		if i := strings.Index(rest, " :: "); i >= 0 {
			k, text = strings.TrimSpace(rest[:i]), strings.TrimSpace(rest[i+4:])
		}
		out = append(out, &known{prop: p, key: k, text: text})
	}
	return out
}

var frameRe = regexp.MustCompile(`(?m)^github\.com/ipld/go-car.*$`)

// PanicKey derives a finding key from a panic stack: the innermost go-car frame
// (function name only: no arguments, no line numbers).
func PanicKey(stack []byte) string {
	for _, line := range frameRe.FindAll(stack, -1) {
		fn := string(line)
		if i := strings.LastIndex(fn, "("); i > 0 {
			fn = fn[:i]
		}
		return "panic/" + strings.TrimPrefix(fn, "github.com/ipld/go-car")
	}
	return "panic/outside-go-car"
}

type caseOut struct {
	idx  int
	desc json.RawMessage
	t    *T
}

// Main runs the check according to the command line: <tier> or --replay <path>.
// It never returns.
func Main(c *Check, args []string) {
	start := time.Now()
	tier := os.Getenv("VERIF_TIER")
	replay := ""
	for i := 0; i < len(args); i++ {
		switch args[i] {
		case "quick", "thorough":
			tier = args[i]
		case "--replay":
			if i+1 < len(args) {
				replay = args[i+1]
				i++
			}
		}
	}
	if tier == "" {
		tier = "quick"
	}
	seed := int64(20261002)
	if s := os.Getenv("VERIF_SEED"); s != "" {
		if v, err := strconv.ParseInt(s, 10, 64); err == nil {
			seed = v
		}
	}

	if replay != "" {
		os.Exit(runReplay(c, replay))
	}

	if c.Setup != nil {
		if err := c.Setup(tier, seed); err != nil {
			fmt.Printf("BROKEN-CHECK property=%s setup: %v\n", c.ID, err)
			os.Exit(2)
		}
	}

	// generate
	var descs []json.RawMessage
	g := &G{Seed: seed, Tier: tier}
	g.emit = func(d any) {
		b, err := json.Marshal(d)
		if err != nil {
			panic(err)
		}
		descs = append(descs, b)
	}
	c.Gen(g)

	workers := c.Workers
	if workers <= 0 {
		workers = runtime.NumCPU()
	}
	if w := os.Getenv("VERIF_WORKERS"); w != "" {
		if v, err := strconv.Atoi(w); err == nil && v > 0 {
			workers = v
		}
	}
	timeout := c.CaseTimeout
	if timeout == 0 {
		timeout = 5 * time.Minute
	}

	in := make(chan int)
	out := make(chan caseOut, 64)
	var wg sync.WaitGroup
	for w := 0; w < workers; w++ {
		wg.Add(1)
		go func() {
			defer wg.Done()
			for i := range in {
				t := runOne(c, descs[i], tier, seed, timeout)
				out <- caseOut{idx: i, desc: descs[i], t: t}
			}
		}()
	}
	go func() {
		for i := range descs {
			in <- i
		}
		close(in)
		wg.Wait()
		close(out)
	}()

	results := make([]*T, len(descs))
	for o := range out {
		results[o.idx] = o.t
	}
	if c.Teardown != nil {
		c.Teardown()
	}

	// aggregate (in case order, so output is deterministic)
	cover := map[string]int{}
	distinct := map[string]bool{}
	var samples []any
	var inconclusive []string
	events := 0
	type vrec struct {
		v    Violation
		desc json.RawMessage
	}
	var viols []vrec
	for i, t := range results {
		if t == nil {
			continue
		}
		for k, n := range t.cover {
			cover[k] += n
		}
		events += t.events
		if t.nontrivial {
			k := t.distinct
			if k == "" {
				h := sha1.Sum(descs[i])
				k = hex.EncodeToString(h[:8])
			}
			distinct[k] = true
		}
		if t.sample != nil && len(samples) < 6 {
			samples = append(samples, t.sample)
		}
		for _, s := range t.inconclusive {
			if len(inconclusive) < 50 {
				inconclusive = append(inconclusive, s)
			}
			cover["inconclusive"]++
		}
		for _, v := range t.violations {
			viols = append(viols, vrec{v, descs[i]})
		}
	}
	if c.Post != nil {
		pt := &T{Tier: tier, Seed: seed}
		c.Post(pt)
		for k, n := range pt.cover {
			cover[k] += n
		}
		for _, s := range pt.inconclusive {
			inconclusive = append(inconclusive, s)
			cover["inconclusive"]++
		}
		for _, v := range pt.violations {
			viols = append(viols, vrec{v, json.RawMessage(`{"post":true}`)})
		}
		if pt.sample != nil {
			samples = append(samples, pt.sample)
		}
	}

	// classify violations
	kn := loadKnown(c.ID)
	unknownByKey := map[string][]vrec{}
	var unknownOrder []string
	knownCount := map[string]int{}
	for _, vr := range viols {
		matched := false
		for _, k := range kn {
			if k.key == vr.v.Key {
				k.hit = true
				knownCount[k.key]++
				matched = true
				break
			}
		}
		if !matched {
			if _, ok := unknownByKey[vr.v.Key]; !ok {
				unknownOrder = append(unknownOrder, vr.v.Key)
			}
			unknownByKey[vr.v.Key] = append(unknownByKey[vr.v.Key], vr)
		}
	}
	var knownHit, knownMissed []string
	for _, k := range kn {
		if k.hit {
			fmt.Printf("KNOWN-FINDING: property=%s %s [key=%s, %d cases]\n", c.ID, k.text, k.key, knownCount[k.key])
			knownHit = append(knownHit, k.key)
		} else {
			knownMissed = append(knownMissed, k.key)
		}
	}
	exit := 0
	nviol := 0
	repDir := filepath.Join(OutDir(), "replays", c.ID)
	for _, key := range unknownOrder {
		vrs := unknownByKey[key]
		nviol += len(vrs)
		vr := vrs[0]
		_ = os.MkdirAll(repDir, 0o755)
		h := sha1.Sum(append([]byte(key), vr.desc...))
		p := filepath.Join(repDir, hex.EncodeToString(h[:6])+".json")
		rep := map[string]any{
			"property": c.ID, "seed": seed, "tier": tier, "desc": vr.desc,
			"key": key, "msg": vr.v.Msg, "detail": vr.v.Detail, "cases_with_this_key": len(vrs),
		}
		b, _ := json.MarshalIndent(rep, "", " ")
		_ = os.WriteFile(p, b, 0o644)
		fmt.Printf("VIOLATION property=%s replay=%s key=%s :: %s\n", c.ID, p, key, trunc(vr.v.Msg, 400))
		exit = 1
	}

	// observed-nothing guard
	broken := []string{}
	if len(descs) == 0 {
		broken = append(broken, "no cases generated")
	}
	for k, min := range c.MinCover {
		if cover[k] < min {
			broken = append(broken, fmt.Sprintf("coverage counter %q = %d < required %d", k, cover[k], min))
		}
	}
	sort.Strings(broken)

	// evidence
	if len(samples) == 0 && len(descs) > 0 {
		var s any
		_ = json.Unmarshal(descs[0], &s)
		samples = append(samples, s)
	}
	cov := map[string]any{
		"evaluations":                   len(descs),
		"distinct_nontrivial":           len(distinct),
		"rule":                          c.Rule,
		"samples":                       samples,
		"events_observed":               events,
		"counters":                      cover,
		"known_findings_reproduced":     knownHit,
		"known_findings_not_reproduced": knownMissed,
		"inconclusive":                  inconclusive,
		"workers":                       workers,
	}
	for k, v := range c.Extra {
		cov[k] = v
	}
	ev := map[string]any{
		"property_id": c.ID,
		"tier":        tier,
		"seed":        seed,
		"level":       c.Level,
		"coverage":    cov,
		"assumptions": c.Assumptions,
		"wall_s":      time.Since(start).Seconds(),
		"violations":  nviol,
	}
	_ = os.MkdirAll(filepath.Join(OutDir(), "evidence"), 0o755)
	b, _ := json.MarshalIndent(ev, "", " ")
	if err := os.WriteFile(filepath.Join(OutDir(), "evidence", c.ID+".json"), b, 0o644); err != nil {
		fmt.Printf("BROKEN-CHECK property=%s cannot write evidence: %v\n", c.ID, err)
		os.Exit(2)
	}

	fmt.Printf("%s %s seed=%d: %d cases, %d distinct non-trivial, %d events, %d violations (%d unknown keys), %d known keys hit, %d inconclusive, %.1fs\n",
		c.ID, tier, seed, len(descs), len(distinct), events, len(viols), len(unknownOrder), len(knownHit), cover["inconclusive"], time.Since(start).Seconds())
	keys := make([]string, 0, len(cover))
	for k := range cover {
		keys = append(keys, k)
	}
	sort.Strings(keys)
	var sb strings.Builder
	for _, k := range keys {
		fmt.Fprintf(&sb, " %s=%d", k, cover[k])
	}
	fmt.Printf("coverage:%s\n", trunc(sb.String(), 6000))
	if len(broken) > 0 && exit == 0 {
		for _, s := range broken {
			fmt.Printf("BROKEN-CHECK property=%s %s\n", c.ID, s)
		}
		os.Exit(2)
	}
	os.Exit(exit)
}

func trunc(s string, n int) string {
	if len(s) > n {
		return s[:n] + "…"
	}
	return s
}

func runOne(c *Check, desc json.RawMessage, tier string, seed int64, timeout time.Duration) *T {
	t := &T{Tier: tier, Seed: seed}
	done := make(chan struct{})
	go func() {
		defer close(done)
		defer func() {
			if r := recover(); r != nil {
				st := debug.Stack()
				t.ViolateD(PanicKey(st), string(st), "panic: %v", r)
			}
		}()
		c.Run(t, desc)
	}()
	select {
	case <-done:
		return t
	case <-time.After(timeout):
		// wall clock never decides: inconclusive, the goroutine is abandoned.
		t2 := &T{Tier: tier, Seed: seed}
		t2.Inconclusive("watchdog %v fired on case %s", timeout, trunc(string(desc), 200))
		return t2
	}
}

func runReplay(c *Check, path string) int {
	b, err := os.ReadFile(path)
	if err != nil {
		fmt.Printf("cannot read replay: %v\n", err)
		return 2
	}
	var rep struct {
		Seed int64           `json:"seed"`
		Tier string          `json:"tier"`
		Desc json.RawMessage `json:"desc"`
	}
	if err := json.Unmarshal(b, &rep); err != nil {
		fmt.Printf("cannot parse replay: %v\n", err)
		return 2
	}
	if c.Setup != nil {
		if err := c.Setup(rep.Tier, rep.Seed); err != nil {
			fmt.Printf("setup: %v\n", err)
			return 2
		}
	}
	t := runOne(c, rep.Desc, rep.Tier, rep.Seed, 10*time.Minute)
	if c.Teardown != nil {
		c.Teardown()
	}
	kn := loadKnown(c.ID)
	exit := 0
	for _, v := range t.violations {
		isKnown := false
		for _, k := range kn {
			if k.key == v.Key {
				isKnown = true
			}
		}
		if isKnown {
			fmt.Printf("KNOWN-FINDING: property=%s key=%s :: %s\n", c.ID, v.Key, v.Msg)
		} else {
			fmt.Printf("VIOLATION property=%s replay=%s key=%s :: %s\n", c.ID, path, v.Key, v.Msg)
			exit = 1
		}
		if v.Detail != nil {
			d, _ := json.MarshalIndent(v.Detail, "", " ")
			fmt.Println(trunc(string(d), 8000))
		}
	}
	if len(t.violations) == 0 {
		fmt.Printf("replay of %s: no violation\n", path)
	}
	return exit
}

// Trunc shortens s to n bytes.
func Trunc(s string, n int) string { return trunc(s, n) }
