package iofault

import (
	"io"
	"os"
	"sync"

	carv2 "github.com/ipld/go-car/v2"
)

// FileTap receives the `verif` hook events of one *os.File (blockstore.ReadWrite
// writes through a concrete file, so the memfile cannot be used there). It
// produces the same event log as MemFile and can inject the same faults.
type FileTap struct {
	mu      sync.Mutex
	events  []Event
	writes  int
	faults  map[int]int
	Faulted int
	// Yield, when set, is called (without the lock) before every hooked write.
	Yield func(ord int)
}

var taps sync.Map // *os.File -> *FileTap

func init() {
	carv2.VerifSetWriteHook(func(w io.WriterAt, off int64, b []byte) (int, error, bool) {
		v, ok := taps.Load(any(w))
		if !ok {
			return 0, nil, false
		}
		return v.(*FileTap).onWrite(w, off, b)
	})
	carv2.VerifSetTraceHook(func(w any, kind string, off int64, b []byte) {
		v, ok := taps.Load(w)
		if !ok {
			return
		}
		v.(*FileTap).onTrace(kind, off, b)
	})
}

// Tap attaches a tap to f; Untap removes it.
func Tap(f *os.File) *FileTap {
	t := &FileTap{}
	taps.Store(any(f), t)
	return t
}
func Untap(f *os.File) { taps.Delete(any(f)) }

func (t *FileTap) SetFaults(fs []Fault) {
	t.mu.Lock()
	defer t.mu.Unlock()
	t.faults = map[int]int{}
	for _, f := range fs {
		t.faults[f.At] = f.Keep
	}
}

func (t *FileTap) onWrite(w io.WriterAt, off int64, b []byte) (int, error, bool) {
	if y := t.Yield; y != nil {
		t.mu.Lock()
		ord := t.writes
		t.mu.Unlock()
		y(ord)
	}
	t.mu.Lock()
	defer t.mu.Unlock()
	ord := t.writes
	t.writes++
	if keep, ok := t.faults[ord]; ok {
		if keep > len(b) {
			keep = len(b)
		}
		if keep > 0 {
			if _, err := w.WriteAt(b[:keep], off); err != nil {
				return 0, err, true
			}
			t.events = append(t.events, Event{Seq: len(t.events), Kind: KWriteAt, Off: off, Data: append([]byte{}, b[:keep]...)})
		}
		t.Faulted++
		return keep, ErrInjected, true
	}
	t.events = append(t.events, Event{Seq: len(t.events), Kind: KWriteAt, Off: off, Data: append([]byte{}, b...)})
	return 0, nil, false
}

func (t *FileTap) onTrace(kind string, off int64, b []byte) {
	t.mu.Lock()
	defer t.mu.Unlock()
	switch kind {
	case "writeat":
		t.events = append(t.events, Event{Seq: len(t.events), Kind: KWriteAt, Off: off, Data: append([]byte{}, b...)})
	case "truncate":
		t.events = append(t.events, Event{Seq: len(t.events), Kind: KTruncate, Size: off})
	}
}

func (t *FileTap) Mark(s string) {
	t.mu.Lock()
	defer t.mu.Unlock()
	t.events = append(t.events, Event{Seq: len(t.events), Kind: KMark, Mark: s})
}

func (t *FileTap) Events() []Event {
	t.mu.Lock()
	defer t.mu.Unlock()
	return append([]Event{}, t.events...)
}

func (t *FileTap) Writes() int {
	t.mu.Lock()
	defer t.mu.Unlock()
	return t.writes
}
