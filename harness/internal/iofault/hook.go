package iofault

import (
	"io"
	"os"
	"sync"

	carv2 "github.com/ipld/go-car/v2"
)

// FileTap receives the `verif` hook events of one *os.File (blockstore.ReadWrite
// writes through a concrete file, so the memfile cannot be used there). It
// produces the same event log as MemFile and can inject the same faults.
type FileTap struct {
	mu      sync.Mutex
	events  []Event
	writes  int
	faults  map[int]int
	Faulted int
	// Yield, when set, is called (without the lock) before every hooked write.
	Yield func(ord int)
}

var taps sync.Map     // *os.File -> *FileTap
var pathTaps sync.Map // file name -> *FileTap, for files the library opens itself

func lookupTap(w any) (*FileTap, bool) {
	if v, ok := taps.Load(w); ok {
		return v.(*FileTap), true
	}
	if f, ok := w.(*os.File); ok {
		if v, ok := pathTaps.Load(f.Name()); ok {
			return v.(*FileTap), true
		}
	}
	return nil, false
}

func init() {
	carv2.VerifSetWriteHook(func(w io.WriterAt, off int64, b []byte) (int, error, bool) {
		tp, ok := lookupTap(any(w))
		if !ok {
			return 0, nil, false
		}
		return tp.onWrite(w, off, b)
	})
	carv2.VerifSetTraceHook(func(w any, kind string, off int64, b []byte) {
		tp, ok := lookupTap(w)
		if !ok {
			return
		}
		tp.onTrace(kind, off, b)
	})
}

// Tap attaches a tap to f; Untap removes it.
func Tap(f *os.File) *FileTap {
	t := &FileTap{}
	taps.Store(any(f), t)
	return t
}
func Untap(f *os.File) { taps.Delete(any(f)) }

// TapPath attaches a tap to whatever *os.File the library opens under that name.
func TapPath(name string) *FileTap {
	t := &FileTap{}
	pathTaps.Store(name, t)
	return t
}
func UntapPath(name string) { pathTaps.Delete(name) }

func (t *FileTap) SetFaults(fs []Fault) {
	t.mu.Lock()
	defer t.mu.Unlock()
	t.faults = map[int]int{}
	for _, f := range fs {
		t.faults[f.At] = f.Keep
	}
}

func (t *FileTap) onWrite(w io.WriterAt, off int64, b []byte) (int, error, bool) {
	if y := t.Yield; y != nil {
		t.mu.Lock()
		ord := t.writes
		t.mu.Unlock()
		y(ord)
	}
	t.mu.Lock()
	defer t.mu.Unlock()
	ord := t.writes
	t.writes++
	if keep, ok := t.faults[ord]; ok {
		if keep > len(b) {
			keep = len(b)
		}
		if keep > 0 {
			if _, err := w.WriteAt(b[:keep], off); err != nil {
				return 0, err, true
			}
			t.events = append(t.events, Event{Seq: len(t.events), Kind: KWriteAt, Off: off, Data: append([]byte{}, b[:keep]...)})
		}
		t.Faulted++
		return keep, ErrInjected, true
	}
	t.events = append(t.events, Event{Seq: len(t.events), Kind: KWriteAt, Off: off, Data: append([]byte{}, b...)})
	return 0, nil, false
}

func (t *FileTap) onTrace(kind string, off int64, b []byte) {
	t.mu.Lock()
	defer t.mu.Unlock()
	switch kind {
	case "writeat":
		t.events = append(t.events, Event{Seq: len(t.events), Kind: KWriteAt, Off: off, Data: append([]byte{}, b...)})
	case "truncate":
		t.events = append(t.events, Event{Seq: len(t.events), Kind: KTruncate, Size: off})
	}
}

func (t *FileTap) Mark(s string) {
	t.mu.Lock()
	defer t.mu.Unlock()
	t.events = append(t.events, Event{Seq: len(t.events), Kind: KMark, Mark: s})
}

func (t *FileTap) Events() []Event {
	t.mu.Lock()
	defer t.mu.Unlock()
	return append([]Event{}, t.events...)
}

func (t *FileTap) Writes() int {
	t.mu.Lock()
	defer t.mu.Unlock()
	return t.writes
}
