// Package iofault provides an in-memory file that records every mutation as an
// event, can inject write faults according to a plan, and can be materialised
// at any prefix of its event log (with the last write torn at any byte).
package iofault

import (
	"errors"
	"io"
	"sync"
)

type Kind int

const (
	KWriteAt  Kind = iota // positional write
	KWrite                // sequential write (io.Writer)
	KTruncate             // truncate to Size
	KMark                 // marker inserted by the harness (ack of an API call)
)

// Event is one mutation (or marker) in issue order.
type Event struct {
	Seq  int
	Kind Kind
	Off  int64
	Data []byte // copy of the bytes written
	Size int64  // for truncate
	Mark string // for markers
}

// ErrInjected is returned by a faulted write.
var ErrInjected = errors.New("iofault: injected write error")

// Fault says: the write with ordinal At (counting write calls only, from 0)
// accepts Keep bytes and then fails.
type Fault struct {
	At   int
	Keep int
}

// MemFile implements io.ReaderAt, io.WriterAt, io.Writer and Truncate.
type MemFile struct {
	mu      sync.Mutex
	data    []byte
	cursor  int64
	events  []Event
	writes  int
	faults  map[int]int
	Faulted int // number of faults that fired
	// Hook, when set, is called (without the lock) before every write with its ordinal.
	Hook  func(ord int)
	NoLog bool
	// EagerEOF makes ReadAt report io.EOF together with a full read that ends exactly at the end
	// of the file, which the io.ReaderAt contract allows.
	EagerEOF bool
	// TruncateFailsAfterFault: a Truncate that follows an injected write fault fails too (the same outage);
	// the count says how many Truncate calls fail per fired fault.
	TruncateFailsAfterFault int
	truncPending            int
	TruncFaulted            int // number of Truncate calls that were failed
}

func New(initial []byte) *MemFile {
	return &MemFile{data: append([]byte{}, initial...)}
}

// SetFaults installs a fault plan (write ordinals are counted from now on if reset is true).
func (m *MemFile) SetFaults(fs []Fault) {
	m.mu.Lock()
	defer m.mu.Unlock()
	m.faults = map[int]int{}
	for _, f := range fs {
		m.faults[f.At] = f.Keep
	}
}

func (m *MemFile) Bytes() []byte {
	m.mu.Lock()
	defer m.mu.Unlock()
	return append([]byte{}, m.data...)
}

func (m *MemFile) Len() int {
	m.mu.Lock()
	defer m.mu.Unlock()
	return len(m.data)
}

func (m *MemFile) Writes() int {
	m.mu.Lock()
	defer m.mu.Unlock()
	return m.writes
}

func (m *MemFile) Events() []Event {
	m.mu.Lock()
	defer m.mu.Unlock()
	return append([]Event{}, m.events...)
}

// Mark inserts a marker event.
func (m *MemFile) Mark(s string) {
	m.mu.Lock()
	defer m.mu.Unlock()
	m.events = append(m.events, Event{Seq: len(m.events), Kind: KMark, Mark: s})
}

func (m *MemFile) ReadAt(p []byte, off int64) (int, error) {
	m.mu.Lock()
	defer m.mu.Unlock()
	if off < 0 {
		return 0, errors.New("iofault: negative offset")
	}
	if off >= int64(len(m.data)) {
		return 0, io.EOF
	}
	n := copy(p, m.data[off:])
	if n < len(p) || (m.EagerEOF && n > 0 && off+int64(n) == int64(len(m.data))) {
		return n, io.EOF
	}
	return n, nil
}

func applyWrite(data []byte, off int64, p []byte) []byte {
	end := off + int64(len(p))
	if end > int64(len(data)) {
		if end > int64(cap(data)) {
			nd := make([]byte, end, end*2+64)
			copy(nd, data)
			data = nd
		} else {
			old := len(data)
			data = data[:end]
			for i := old; int64(i) < off; i++ {
				data[i] = 0
			}
		}
	}
	copy(data[off:], p)
	return data
}

func (m *MemFile) write(kind Kind, p []byte, off int64) (int, error) {
	if h := m.Hook; h != nil {
		m.mu.Lock()
		ord := m.writes
		m.mu.Unlock()
		h(ord)
	}
	m.mu.Lock()
	defer m.mu.Unlock()
	ord := m.writes
	m.writes++
	if kind == KWrite {
		off = m.cursor
	}
	n := len(p)
	var err error
	if keep, ok := m.faults[ord]; ok {
		if keep > n {
			keep = n
		}
		n = keep
		err = ErrInjected
		m.Faulted++
		m.truncPending = m.TruncateFailsAfterFault
	}
	if n > 0 || err == nil {
		m.data = applyWrite(m.data, off, p[:n])
		if !m.NoLog {
			m.events = append(m.events, Event{Seq: len(m.events), Kind: kind, Off: off, Data: append([]byte{}, p[:n]...)})
		}
	}
	if kind == KWrite {
		m.cursor += int64(n)
	}
	return n, err
}

func (m *MemFile) WriteAt(p []byte, off int64) (int, error) {
	if off < 0 {
		return 0, errors.New("memfile: writeat: negative offset") // as *os.File does
	}
	return m.write(KWriteAt, p, off)
}
func (m *MemFile) Write(p []byte) (int, error) { return m.write(KWrite, p, 0) }

func (m *MemFile) Truncate(size int64) error {
	m.mu.Lock()
	defer m.mu.Unlock()
	if m.truncPending > 0 {
		m.truncPending--
		m.TruncFaulted++
		return ErrInjected
	}
	m.data = applyTruncate(m.data, size)
	if !m.NoLog {
		m.events = append(m.events, Event{Seq: len(m.events), Kind: KTruncate, Size: size})
	}
	return nil
}

func applyTruncate(data []byte, size int64) []byte {
	if size <= int64(len(data)) {
		return data[:size]
	}
	nd := make([]byte, size)
	copy(nd, data)
	return nd
}

// Image replays events[:n] onto initial and, if tear >= 0, additionally the
// first tear bytes of events[n] (which must be a write).
func Image(initial []byte, events []Event, n int, tear int) []byte {
	data := append([]byte{}, initial...)
	apply := func(e Event, limit int) {
		switch e.Kind {
		case KWriteAt, KWrite:
			d := e.Data
			if limit >= 0 && limit < len(d) {
				d = d[:limit]
			}
			if len(d) > 0 {
				data = applyWrite(data, e.Off, d)
			}
		case KTruncate:
			data = applyTruncate(data, e.Size)
		}
	}
	for i := 0; i < n && i < len(events); i++ {
		apply(events[i], -1)
	}
	if tear >= 0 && n < len(events) {
		apply(events[n], tear)
	}
	return data
}

// PlainWriter hides WriterAt so that only io.Writer is visible.
type PlainWriter struct{ M *MemFile }

func (p PlainWriter) Write(b []byte) (int, error) { return p.M.Write(b) }
