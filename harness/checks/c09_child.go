package checks

// C09 child process: `carlab child c09 <batch.json> <inputs.bin> <results.jsonl> <from>`.
// It runs the calls of a batch sequentially, each under recover() on a fresh goroutine,
// and appends one JSON line before ("start") and after ("done") every call, so that the
// parent can name the culprit when the process is killed by a runtime fatal or a fence.

import (
	"bytes"
	"context"
	"encoding/hex"
	"encoding/json"
	"errors"
	"fmt"
	"io"
	"os"
	"path/filepath"
	"runtime"
	"runtime/debug"
	"strconv"
	"strings"
	"syscall"
	"time"

	blocks "github.com/ipfs/go-block-format"
	"github.com/ipfs/go-cid"
	format "github.com/ipfs/go-ipld-format"
	carv1 "github.com/ipld/go-car"
	rootutil "github.com/ipld/go-car/util"
	carv2 "github.com/ipld/go-car/v2"
	"github.com/ipld/go-car/v2/blockstore"
	"github.com/ipld/go-car/v2/index"
	"github.com/ipld/go-car/v2/storage"
	"github.com/multiformats/go-multicodec"
	"github.com/multiformats/go-multihash"

	"carlab/internal/gen"
	"carlab/internal/refcar"
)

// ------------------------------------------------------------------ batch and result files

type c09FileInput struct {
	Off  int64    `json:"off"`
	Len  int64    `json:"len"`
	Keys []string `json:"keys,omitempty"` // hex CIDs
	Opts c09Opts  `json:"opts"`
}

type c09BatchFile struct {
	Inputs []c09FileInput `json:"inputs"`
	Calls  []c09Call      `json:"calls"`
}

type c09Res struct {
	T          string  `json:"t"` // start | done | canary | fail
	I          int     `json:"i"`
	CPU        float64 `json:"cpu,omitempty"` // process CPU seconds when the call started
	Out        string  `json:"out,omitempty"` // ok | err | panic
	Err        string  `json:"err,omitempty"`
	Alloc      uint64  `json:"alloc,omitempty"`
	Reads      int64   `json:"reads,omitempty"`
	Budget     bool    `json:"budget,omitempty"`     // the source's call budget was exceeded
	NoProgress bool    `json:"noprogress,omitempty"` // the iteration cap of a Next/Skip loop was reached
	Panic      string  `json:"panic,omitempty"`
	Stack      string  `json:"stack,omitempty"`
	Site       string  `json:"site,omitempty"` // dominant allocation site when the bound is exceeded
	Msg        string  `json:"msg,omitempty"`
}

// c09Limits returns the header and section limits in force for an entry point.
func c09Limits(root bool, o c09Opts) (hdr, sec uint64) {
	if root {
		m := o.RootMax
		if m == 0 {
			m = c09DefaultRoot
		}
		return m, m
	}
	hdr, sec = o.Hdr, o.Sec
	if hdr == 0 && !o.HdrZero {
		hdr = c09DefaultHdr
	}
	if sec == 0 && !o.SecZero {
		sec = c09DefaultSec
	}
	return
}

// c09Bound is the allocation bound of the property for one call.
func c09Bound(root bool, o c09Opts, inputLen int) uint64 {
	h, s := c09Limits(root, o)
	return h + s + 64*uint64(inputLen) + 256<<10
}

// ------------------------------------------------------------------ call context and sources

var (
	errC09Budget     = errors.New("c09: read-call budget of the source exceeded")
	errC09NoProgress = errors.New("c09: iteration cap reached")
)

type c09Ctx struct {
	in         []byte
	o          c09Opts
	opts       []carv2.Option
	keys       []cid.Cid
	roots      []cid.Cid // replacement roots for ReplaceRootsInFile
	dir        string
	path       string // the input as a file (only for entry points that need one)
	calls      int64
	budget     int64
	exceeded   bool
	noProgress bool
	cap        int
	closers    []io.Closer
}

func (c *c09Ctx) tick() error {
	c.calls++
	if c.calls > c.budget {
		c.exceeded = true
		return errC09Budget
	}
	return nil
}

// c09RS offers what *bytes.Reader offers to the library: Read, ReadAt, Seek, ReadByte.
type c09RS struct {
	c *c09Ctx
	r *bytes.Reader
}

func (s *c09RS) Read(p []byte) (int, error) {
	if err := s.c.tick(); err != nil {
		return 0, err
	}
	return s.r.Read(p)
}
func (s *c09RS) ReadAt(p []byte, off int64) (int, error) {
	if err := s.c.tick(); err != nil {
		return 0, err
	}
	return s.r.ReadAt(p, off)
}
func (s *c09RS) Seek(off int64, whence int) (int64, error) {
	if err := s.c.tick(); err != nil {
		return 0, err
	}
	return s.r.Seek(off, whence)
}
func (s *c09RS) ReadByte() (byte, error) {
	if err := s.c.tick(); err != nil {
		return 0, err
	}
	return s.r.ReadByte()
}

// c09Plain is only an io.Reader.
type c09Plain struct {
	c *c09Ctx
	r *bytes.Reader
}

func (s *c09Plain) Read(p []byte) (int, error) {
	if err := s.c.tick(); err != nil {
		return 0, err
	}
	return s.r.Read(p)
}

// c09RA is only an io.ReaderAt.
type c09RA struct {
	c *c09Ctx
	r *bytes.Reader
}

func (s *c09RA) ReadAt(p []byte, off int64) (int, error) {
	if err := s.c.tick(); err != nil {
		return 0, err
	}
	return s.r.ReadAt(p, off)
}

func (c *c09Ctx) seekable() *c09RS { return &c09RS{c, bytes.NewReader(c.in)} }
func (c *c09Ctx) plain() *c09Plain { return &c09Plain{c, bytes.NewReader(c.in)} }
func (c *c09Ctx) readerAt() *c09RA { return &c09RA{c, bytes.NewReader(c.in)} }

func (c *c09Ctx) backing(kind string) io.ReaderAt {
	if kind == "ReaderAt" {
		return c.readerAt()
	}
	return c.seekable()
}

func (c *c09Ctx) source(kind string) (io.Reader, error) {
	switch kind {
	case "bytes.Reader":
		return c.seekable(), nil
	case "plain":
		return c.plain(), nil
	case "os.File":
		f, err := os.Open(c.path)
		if err != nil {
			panic(err)
		}
		c.closers = append(c.closers, f)
		return f, nil
	case "Reader.DataReader":
		rd, err := carv2.NewReader(c.readerAt(), c.opts...)
		if err != nil {
			return nil, err
		}
		return rd.DataReader()
	}
	panic("c09: unknown source kind " + kind)
}

// ------------------------------------------------------------------ entry points

type c09EP struct {
	name     string
	fn       func(c *c09Ctx) error
	file     bool   // needs the input as a file
	root     bool   // root module: util.MaxAllowedSectionSize is the limit for header and sections
	hdrV1    bool   // buffers the header of a CARv1 input
	okV1     bool   // returns nil on a valid CARv1
	hdrV2    bool   // buffers the inner header of a CARv2 input
	okV2     bool   // returns nil on a valid CARv2 (with index)
	sections bool   // goes on to the sections
	secBuf   string // "stream": buffers every section in turn; "lookup": buffers the sections it is asked for; "": never buffers one
}

const c09MixPattern = "NSSNSNNS"

func c09BlockReader(mode, src string, extra ...carv2.Option) func(*c09Ctx) error {
	return func(c *c09Ctx) error {
		r, err := c.source(src)
		if err != nil {
			return err
		}
		br, err := carv2.NewBlockReader(r, append(append([]carv2.Option{}, c.opts...), extra...)...)
		if err != nil {
			return err
		}
		for i := 0; ; i++ {
			if i > c.cap {
				c.noProgress = true
				return errC09NoProgress
			}
			if mode == "SkipNext" || (mode == "Mixed" && c09MixPattern[i%len(c09MixPattern)] == 'S') {
				_, err = br.SkipNext()
			} else {
				_, err = br.Next()
			}
			if err == io.EOF || err != nil {
				// callers loop until io.EOF: the calls after an error (or after the end) are part of
				// the entry point too — whatever they return, they return
				for k := 0; k < 2; k++ {
					if k == 0 && mode != "Next" {
						_, _ = br.SkipNext()
					} else {
						_, _ = br.Next()
					}
				}
				if err == io.EOF {
					return nil
				}
				return err
			}
		}
	}
}

func c09Reader(op string) func(*c09Ctx) error {
	return func(c *c09Ctx) error {
		rd, err := carv2.NewReader(c.readerAt(), c.opts...)
		if err != nil {
			return err
		}
		defer rd.Close()
		switch op {
		case "Roots":
			_, err = rd.Roots()
		case "DataReader":
			var dr carv2.SectionReader
			if dr, err = rd.DataReader(); err == nil {
				_, err = io.Copy(io.Discard, dr)
			}
		case "IndexReader":
			var ir io.Reader
			if ir, err = rd.IndexReader(); err == nil && ir != nil {
				_, err = io.Copy(io.Discard, ir)
			}
		case "Inspect(true)":
			_, err = rd.Inspect(true)
		case "Inspect(false)":
			_, err = rd.Inspect(false)
		}
		return err
	}
}

func c09Src(c *c09Ctx, src string) io.Reader {
	if src == "plain" {
		return c.plain()
	}
	return c.seekable()
}

func c09LoadIndex(kind, src string) func(*c09Ctx) error {
	return func(c *c09Ctx) error {
		var idx index.Index
		switch kind {
		case "sorted":
			idx, _ = index.New(multicodec.CarIndexSorted)
		case "mhsorted":
			idx, _ = index.New(multicodec.CarMultihashIndexSorted)
		case "insertion":
			idx = index.NewInsertionIndex()
		}
		if err := carv2.LoadIndex(idx, c09Src(c, src), c.opts...); err != nil {
			return err
		}
		return c09UseIndex(c, idx)
	}
}

// c09UseIndex queries, iterates and marshals an index.
func c09UseIndex(c *c09Ctx, idx index.Index) error {
	for _, k := range c.keys {
		n := 0
		err := idx.GetAll(k, func(uint64) bool { n++; return n < 1000 })
		if err != nil && !errors.Is(err, index.ErrNotFound) {
			return err
		}
	}
	if it, ok := idx.(index.IterableIndex); ok {
		if err := it.ForEach(func(multihash.Multihash, uint64) error { return nil }); err != nil {
			return err
		}
	}
	_, err := index.WriteTo(idx, io.Discard)
	return err
}

func c09ReadFrom(src string) func(*c09Ctx) error {
	return func(c *c09Ctx) error {
		idx, err := index.ReadFrom(c09Src(c, src))
		if err != nil {
			return err
		}
		return c09UseIndex(c, idx)
	}
}

func c09ReadOnly(op, back string) func(*c09Ctx) error {
	return func(c *c09Ctx) error {
		bs, err := blockstore.NewReadOnly(c.backing(back), nil, c.opts...)
		if err != nil {
			return err
		}
		defer bs.Close()
		ctx := context.Background()
		var first error
		note := func(err error) {
			if err != nil && first == nil && !format.IsNotFound(err) {
				first = err
			}
		}
		switch op {
		case "Has":
			for _, k := range c.keys {
				_, err := bs.Has(ctx, k)
				note(err)
			}
		case "Get":
			for _, k := range c.keys {
				_, err := bs.Get(ctx, k)
				note(err)
			}
		case "GetSize":
			for _, k := range c.keys {
				_, err := bs.GetSize(ctx, k)
				note(err)
			}
		case "Roots":
			_, err := bs.Roots()
			note(err)
		case "AllKeysChan":
			cctx, cancel := context.WithCancel(ctx)
			defer cancel()
			cctx = blockstore.WithAsyncErrorHandler(cctx, func(e error) { note(e) })
			ch, err := bs.AllKeysChan(cctx)
			if err != nil {
				return err
			}
			n := 0
			for range ch {
				n++
				if n > c.cap {
					c.noProgress = true
					cancel() // the producer holds the store's lock until it returns
				}
			}
			if c.noProgress {
				return errC09NoProgress
			}
			_, err = bs.Roots()
			note(err)
		}
		return first
	}
}

func c09Storage(op, back string) func(*c09Ctx) error {
	return func(c *c09Ctx) error {
		rc, err := storage.OpenReadable(c.backing(back), c.opts...)
		if err != nil {
			return err
		}
		ctx := context.Background()
		var first error
		note := func(err error) {
			if err != nil && first == nil && !storage.IsNotFound(err) {
				first = err
			}
		}
		_ = rc.Roots()
		for _, k := range c.keys {
			switch op {
			case "Has":
				_, err := rc.Has(ctx, k.KeyString())
				note(err)
			case "Get":
				_, err := rc.Get(ctx, k.KeyString())
				note(err)
			case "GetStream":
				s, err := rc.GetStream(ctx, k.KeyString())
				note(err)
				if err == nil {
					_, err = io.Copy(io.Discard, s)
					note(err)
					s.Close()
				}
			}
		}
		return first
	}
}

type c09Store struct{ n int }

func (s *c09Store) Put(context.Context, blocks.Block) error { s.n++; return nil }

type c09BatchStore struct{ c09Store }

func (s *c09BatchStore) PutMany(_ context.Context, bs []blocks.Block) error {
	s.n += len(bs)
	return nil
}

// c09EPs is the table of entry points.
var c09EPs = c09MakeEPs()

func c09MakeEPs() []c09EP {
	var eps []c09EP
	for _, mode := range []string{"Next", "SkipNext", "Mixed"} {
		for _, src := range []string{"bytes.Reader", "plain", "os.File", "Reader.DataReader"} {
			buf := "stream"
			if mode == "SkipNext" {
				buf = ""
			}
			eps = append(eps, c09EP{name: "v2.BlockReader." + mode + "(" + src + ")", fn: c09BlockReader(mode, src), file: src == "os.File",
				hdrV1: true, okV1: true, hdrV2: true, okV2: true, sections: true, secBuf: buf})
		}
	}
	// "trusted" only waives the hash check: every limit stays in force
	for _, mode := range []string{"Next", "Mixed"} {
		eps = append(eps, c09EP{name: "v2.BlockReader." + mode + "(bytes.Reader, WithTrustedCAR)", fn: c09BlockReader(mode, "bytes.Reader", carv2.WithTrustedCAR(true)),
			hdrV1: true, okV1: true, hdrV2: true, okV2: true, sections: true, secBuf: "stream"})
	}
	eps = append(eps,
		c09EP{name: "v2.NewReader+Roots", fn: c09Reader("Roots"), hdrV1: true, okV1: true, hdrV2: true, okV2: true},
		c09EP{name: "v2.NewReader+DataReader", fn: c09Reader("DataReader"), hdrV1: true, okV1: true, okV2: true},
		c09EP{name: "v2.NewReader+IndexReader", fn: c09Reader("IndexReader"), hdrV1: true, okV1: true, okV2: true},
		c09EP{name: "v2.NewReader+Inspect(true)", fn: c09Reader("Inspect(true)"), hdrV1: true, okV1: true, hdrV2: true, okV2: true, sections: true},
		c09EP{name: "v2.NewReader+Inspect(false)", fn: c09Reader("Inspect(false)"), hdrV1: true, okV1: true, hdrV2: true, okV2: true, sections: true},
		c09EP{name: "v2.ReadVersion", fn: func(c *c09Ctx) error { _, err := carv2.ReadVersion(c.plain(), c.opts...); return err }, hdrV1: true, okV1: true, okV2: true},
	)
	for _, src := range []string{"bytes.Reader", "plain"} {
		src := src
		eps = append(eps, c09EP{name: "v2.GenerateIndex(" + src + ")", fn: func(c *c09Ctx) error {
			idx, err := carv2.GenerateIndex(c09Src(c, src), c.opts...)
			if err != nil {
				return err
			}
			return c09UseIndex(c, idx)
		}, hdrV1: true, okV1: true, hdrV2: true, okV2: true, sections: true})
		for _, kind := range []string{"sorted", "mhsorted", "insertion"} {
			eps = append(eps, c09EP{name: "v2.LoadIndex[" + kind + "](" + src + ")", fn: c09LoadIndex(kind, src),
				hdrV1: true, okV1: true, hdrV2: true, okV2: true, sections: true})
		}
		eps = append(eps, c09EP{name: "index.ReadFrom(" + src + ")", fn: c09ReadFrom(src)})
	}
	eps = append(eps, c09EP{name: "v2.ReadOrGenerateIndex", fn: func(c *c09Ctx) error {
		idx, err := carv2.ReadOrGenerateIndex(c.seekable(), c.opts...)
		if err != nil {
			return err
		}
		return c09UseIndex(c, idx)
	}, hdrV1: true, okV1: true, okV2: true, sections: true}) // a CARv2 with an index is not scanned
	for _, back := range []string{"bytes.Reader", "ReaderAt"} {
		for _, op := range []string{"Has", "Get", "GetSize", "AllKeysChan", "Roots"} {
			buf := ""
			if op == "Get" {
				buf = "lookup"
			}
			// with an index in the file the inner header is read only by AllKeysChan/Roots
			eps = append(eps, c09EP{name: "blockstore.NewReadOnly(" + back + ")+" + op, fn: c09ReadOnly(op, back),
				hdrV1: true, okV1: true, hdrV2: op == "AllKeysChan" || op == "Roots", okV2: true, sections: op != "Roots", secBuf: buf})
		}
		for _, op := range []string{"Has", "Get", "GetStream"} {
			buf := ""
			if op == "Get" {
				buf = "lookup"
			}
			eps = append(eps, c09EP{name: "storage.OpenReadable(" + back + ")+" + op, fn: c09Storage(op, back),
				hdrV1: true, okV1: true, hdrV2: true, okV2: true, sections: true, secBuf: buf})
		}
	}
	eps = append(eps,
		c09EP{name: "v2.WrapV1", fn: func(c *c09Ctx) error { return carv2.WrapV1(c.seekable(), io.Discard, c.opts...) },
			hdrV1: true, okV1: true, hdrV2: true, okV2: true, sections: true},
		c09EP{name: "v2.ExtractV1File", file: true, fn: func(c *c09Ctx) error {
			return carv2.ExtractV1File(c.path, filepath.Join(c.dir, "extracted.car"), c.opts...)
		}, hdrV1: true, okV2: true},
		c09EP{name: "v2.ReplaceRootsInFile", file: true, fn: func(c *c09Ctx) error {
			return carv2.ReplaceRootsInFile(c.path, c.roots, c.opts...)
		}, hdrV1: true, okV1: true, hdrV2: true, okV2: true},
		c09EP{name: "root.NewCarReader+Next", root: true, fn: func(c *c09Ctx) error {
			cr, err := carv1.NewCarReader(c.plain())
			if err != nil {
				return err
			}
			for i := 0; ; i++ {
				if i > c.cap {
					c.noProgress = true
					return errC09NoProgress
				}
				if _, err := cr.Next(); err != nil {
					// callers loop until io.EOF: two more calls after an error / after the end
					_, _ = cr.Next()
					_, _ = cr.Next()
					if err == io.EOF {
						return nil
					}
					return err
				}
			}
		}, hdrV1: true, okV1: true, sections: true, secBuf: "stream"},
		c09EP{name: "root.LoadCar", root: true, fn: func(c *c09Ctx) error {
			_, err := carv1.LoadCar(context.Background(), &c09Store{}, c.plain())
			return err
		}, hdrV1: true, okV1: true, sections: true, secBuf: "stream"},
		c09EP{name: "root.LoadCar(batch)", root: true, fn: func(c *c09Ctx) error {
			_, err := carv1.LoadCar(context.Background(), &c09BatchStore{}, c.plain())
			return err
		}, hdrV1: true, okV1: true, sections: true, secBuf: "stream"},
	)
	return eps
}

func c09EPByName(name string) *c09EP {
	for i := range c09EPs {
		if c09EPs[i].name == name {
			return &c09EPs[i]
		}
	}
	return nil
}

// ------------------------------------------------------------------ one measured call

func c09Options(o c09Opts) []carv2.Option {
	var out []carv2.Option
	if o.Hdr > 0 || o.HdrZero {
		out = append(out, carv2.MaxAllowedHeaderSize(o.Hdr))
	}
	if o.Sec > 0 || o.SecZero {
		out = append(out, carv2.MaxAllowedSectionSize(o.Sec))
	}
	if o.ZeroEOF {
		out = append(out, carv2.ZeroLengthSectionAsEOF(true))
	}
	return out
}

// c09ReplacementRoots picks roots whose header has the size of the input's own header
// (what ReplaceRootsInFile demands), as far as the reference can read the input.
func c09ReplacementRoots(in []byte) []cid.Cid {
	var raws [][]byte
	if a, err := refcar.Decode(in, true); err == nil && a.Payload != nil {
		raws = a.Payload.Header.Roots
	} else if p, err := refcar.DecodeV1(in, true); p != nil && err != nil {
		raws = p.Header.Roots // a readable header in front of broken sections
	}
	var out []cid.Cid
	for i := len(raws) - 1; i >= 0; i-- { // same CIDs, reversed: same size
		if c, err := cid.Cast(raws[i]); err == nil {
			out = append(out, c)
		}
	}
	if len(out) == 0 {
		c, _ := cid.Cast(c09AbsentCid())
		out = []cid.Cid{c}
	}
	return out
}

type c09Prepared struct {
	ep    *c09EP
	in    []byte
	o     c09Opts
	keys  []cid.Cid
	roots []cid.Cid
	dir   string
}

// c09RunCall executes one call; everything the call needs is prepared outside the measured window.
func c09RunCall(p *c09Prepared) c09Res {
	c := &c09Ctx{in: p.in, o: p.o, opts: c09Options(p.o), keys: p.keys, roots: p.roots, dir: p.dir,
		budget: 1000 * (int64(len(p.in)) + 64), cap: len(p.in) + 16}
	if p.ep.file {
		c.path = filepath.Join(p.dir, "input.car")
		if err := os.WriteFile(c.path, p.in, 0o644); err != nil {
			panic(err)
		}
		_ = os.Remove(filepath.Join(p.dir, "extracted.car"))
	}
	if p.ep.root {
		old := rootutil.MaxAllowedSectionSize
		if p.o.RootMax > 0 {
			rootutil.MaxAllowedSectionSize = uint(p.o.RootMax)
		}
		defer func() { rootutil.MaxAllowedSectionSize = old }()
	}
	var res c09Res
	done := make(chan struct{})
	go func() {
		defer close(done)
		var m1, m2 runtime.MemStats
		measured := false
		defer func() {
			if r := recover(); r != nil {
				if !measured {
					runtime.ReadMemStats(&m2)
				}
				res.Out = "panic"
				res.Panic = c09Trunc(fmt.Sprint(r), 300)
				res.Stack = string(debug.Stack())
				res.Alloc = m2.TotalAlloc - m1.TotalAlloc
			}
		}()
		runtime.ReadMemStats(&m1)
		err := p.ep.fn(c)
		runtime.ReadMemStats(&m2)
		measured = true
		res.Alloc = m2.TotalAlloc - m1.TotalAlloc
		if err != nil {
			res.Out = "err"
			res.Err = c09Trunc(err.Error(), 300)
		} else {
			res.Out = "ok"
		}
	}()
	c09Await(done)
	for _, cl := range c.closers {
		cl.Close()
	}
	res.Reads = c.calls
	res.Budget = c.exceeded
	res.NoProgress = c.noProgress
	return res
}

// c09Await waits for the call. While waiting it looks at the goroutines every 500 ms: when every
// goroutine with frames of go-car or of this harness is blocked on a channel or a mutex (no I/O, no
// timer, nothing runnable) and that picture has not changed for 10 s, nothing in the process can ever
// wake them — the call does not terminate. The child then reports it the way the runtime reports its
// own "all goroutines are asleep" and exits; the parent attributes it to the call logged as started.
func c09Await(done chan struct{}) {
	tick := time.NewTicker(500 * time.Millisecond)
	defer tick.Stop()
	var last uint64
	stable := 0
	for {
		select {
		case <-done:
			return
		case <-tick.C:
			sig, blocked, n := c09BlockedState()
			if blocked && sig == last {
				stable++
			} else {
				stable = 0
			}
			last = sig
			if blocked && stable >= 20 {
				fmt.Fprintf(os.Stderr, "fatal error: hang: every goroutine of the call is blocked on a channel or mutex and nothing can wake it\n\n%s\n", c09StackBuf[:n])
				os.Exit(2)
			}
		}
	}
}

// the picture is taken and read without allocating: the allocation counter of the call under
// measurement is process-wide
var (
	c09StackBuf = make([]byte, 1<<20)
	c09Sep      = []byte("\n\n")
	c09PkgCar   = []byte("github.com/ipld/go-car")
	c09PkgLab   = []byte("carlab/checks.")
)

func c09IsBlockingState(st []byte) bool {
	switch string(st) {
	case "chan receive", "chan send", "select", "select (no cases)", "chan receive (nil chan)", "chan send (nil chan)",
		"sync.Mutex.Lock", "sync.RWMutex.RLock", "sync.RWMutex.Lock", "sync.Cond.Wait", "sync.WaitGroup.Wait", "semacquire":
		return true
	}
	return false
}

func c09BlockedState() (sig uint64, allBlocked bool, n int) {
	n = runtime.Stack(c09StackBuf, true)
	rest := c09StackBuf[:n]
	sig = 14695981039346656037
	mix := func(b []byte) {
		for _, x := range b {
			sig = (sig ^ uint64(x)) * 1099511628211
		}
	}
	count := 0
	for i := 0; len(rest) > 0; i++ {
		var blk []byte
		if k := bytes.Index(rest, c09Sep); k >= 0 {
			blk, rest = rest[:k], rest[k+2:]
		} else {
			blk, rest = rest, nil
		}
		if i == 0 {
			continue // the goroutine taking this picture
		}
		if !bytes.Contains(blk, c09PkgCar) && !bytes.Contains(blk, c09PkgLab) {
			continue
		}
		// "goroutine 12 [chan receive, 2 minutes]:"
		lb := bytes.IndexByte(blk, '[')
		nl := bytes.IndexByte(blk, '\n')
		if lb < 0 || nl < lb {
			return 0, false, n
		}
		st := blk[lb+1 : nl]
		if e := bytes.IndexAny(st, ",]"); e >= 0 {
			st = st[:e]
		}
		if !c09IsBlockingState(st) {
			return 0, false, n
		}
		count++
		mix(blk[:lb])
		mix(st)
		mix(blk[nl:])
	}
	return sig, count > 0, n
}

func c09Trunc(s string, n int) string {
	if len(s) > n {
		return s[:n] + "…"
	}
	return s
}

// ------------------------------------------------------------------ allocation site (only when the bound is exceeded)

func c09HeapProfile() map[[32]uintptr]int64 {
	runtime.GC()
	runtime.GC()
	n, _ := runtime.MemProfile(nil, true)
	for {
		recs := make([]runtime.MemProfileRecord, n+64)
		var ok bool
		n, ok = runtime.MemProfile(recs, true)
		if ok {
			out := make(map[[32]uintptr]int64, n)
			for _, r := range recs[:n] {
				out[r.Stack0] += r.AllocBytes
			}
			return out
		}
	}
}

// c09AllocSite re-runs the call with every allocation sampled and names the innermost
// go-car function of the stack that allocated most.
func c09AllocSite(p *c09Prepared) string {
	old := runtime.MemProfileRate
	runtime.MemProfileRate = 1
	defer func() { runtime.MemProfileRate = old }()
	before := c09HeapProfile()
	c09RunCall(p)
	after := c09HeapProfile()
	var best [32]uintptr
	var bestN int64
	for k, v := range after {
		if d := v - before[k]; d > bestN {
			best, bestN = k, d
		}
	}
	if bestN == 0 {
		return ""
	}
	n := 0
	for n < len(best) && best[n] != 0 {
		n++
	}
	frames := runtime.CallersFrames(best[:n])
	first := ""
	for {
		f, more := frames.Next()
		if strings.HasPrefix(f.Function, "github.com/ipld/go-car") {
			return strings.TrimPrefix(f.Function, "github.com/ipld/")
		}
		if first == "" && f.Function != "" && !strings.HasPrefix(f.Function, "runtime.") {
			first = f.Function
		}
		if !more {
			break
		}
	}
	return "outside-go-car:" + first
}

// ------------------------------------------------------------------ canary

// c09Canary parses a fixed valid archive with the library and compares with the reference.
func c09Canary() string {
	r := gen.Rand(9)
	var blks []refcar.Block
	for i := 0; i < 4; i++ {
		blks = append(blks, gen.BoundaryBlock(r, 36+10*i))
	}
	v1 := refcar.EncodeV1([][]byte{blks[0].Cid}, false, blks)
	p, err := refcar.DecodeV1(v1, false)
	if err != nil {
		return "reference decode: " + err.Error()
	}
	idx := refcar.BuildIndex(refcar.CodecMhIndexSorted, refcar.ExpectedIndexRecords(p, refcar.CodecMhIndexSorted, false))
	v2 := refcar.EncodeV2(v1, refcar.V2Opts{Index: idx})
	for _, file := range [][]byte{v1, v2} {
		br, err := carv2.NewBlockReader(bytes.NewReader(file), carv2.MaxAllowedHeaderSize(c09SmallHdr), carv2.MaxAllowedSectionSize(c09SmallSec))
		if err != nil {
			return "NewBlockReader on the canary archive: " + err.Error()
		}
		if len(br.Roots) != 1 || !bytes.Equal(br.Roots[0].Bytes(), blks[0].Cid) {
			return "canary roots differ"
		}
		for i := 0; ; i++ {
			b, err := br.Next()
			if err == io.EOF {
				if i != len(blks) {
					return fmt.Sprintf("canary archive yields %d blocks, want %d", i, len(blks))
				}
				break
			}
			if err != nil {
				return "Next on the canary archive: " + err.Error()
			}
			if i >= len(blks) || !bytes.Equal(b.Cid().Bytes(), blks[i].Cid) || !bytes.Equal(b.RawData(), blks[i].Data) {
				return fmt.Sprintf("canary block %d differs", i)
			}
		}
	}
	got, err := index.ReadFrom(bytes.NewReader(idx))
	if err != nil {
		return "index.ReadFrom on the canary index: " + err.Error()
	}
	var buf bytes.Buffer
	if _, err := index.WriteTo(got, &buf); err != nil || !bytes.Equal(buf.Bytes(), idx) {
		return "canary index does not round-trip"
	}
	// the measuring apparatus itself: a known allocation must be seen, a panic must be caught
	ep := &c09EP{name: "canary", fn: func(c *c09Ctx) error {
		c09Sink = make([]byte, 3<<20)
		_, _ = c.seekable().Read(make([]byte, 1))
		return nil
	}}
	res := c09RunCall(&c09Prepared{ep: ep, in: []byte{1, 2, 3}})
	if res.Out != "ok" || res.Alloc < 3<<20 || res.Alloc > 4<<20 || res.Reads != 1 {
		return fmt.Sprintf("measurement canary: out=%s alloc=%d reads=%d", res.Out, res.Alloc, res.Reads)
	}
	ep = &c09EP{name: "canary", fn: func(c *c09Ctx) error { panic("canary panic") }}
	if res := c09RunCall(&c09Prepared{ep: ep}); res.Out != "panic" {
		return "panic canary not caught"
	}
	return ""
}

var c09Sink []byte

// ------------------------------------------------------------------ child main

func c09CPUSeconds() float64 {
	var ru syscall.Rusage
	if err := syscall.Getrusage(syscall.RUSAGE_SELF, &ru); err != nil {
		return 0
	}
	tv := func(t syscall.Timeval) float64 { return float64(t.Sec) + float64(t.Usec)/1e6 }
	return tv(ru.Utime) + tv(ru.Stime)
}

func c09Child(args []string) int {
	if len(args) < 4 {
		fmt.Println("usage: carlab child c09 <batch.json> <inputs.bin> <results.jsonl> <from>")
		return 2
	}
	raw, err := os.ReadFile(args[0])
	if err != nil {
		fmt.Println(err)
		return 2
	}
	var bf c09BatchFile
	if err := json.Unmarshal(raw, &bf); err != nil {
		fmt.Println(err)
		return 2
	}
	blob, err := os.ReadFile(args[1])
	if err != nil {
		fmt.Println(err)
		return 2
	}
	from, _ := strconv.Atoi(args[3])
	out, err := os.OpenFile(args[2], os.O_CREATE|os.O_WRONLY|os.O_APPEND, 0o644)
	if err != nil {
		fmt.Println(err)
		return 2
	}
	defer out.Close()
	emit := func(r c09Res) {
		b, _ := json.Marshal(r)
		out.Write(append(b, '\n'))
	}
	dir, err := os.MkdirTemp(filepath.Dir(args[2]), "child-")
	if err != nil {
		fmt.Println(err)
		return 2
	}
	defer os.RemoveAll(dir)

	canary := func(at string) bool {
		if msg := c09Canary(); msg != "" {
			emit(c09Res{T: "canary", I: from, Out: "fail", Msg: at + ": " + msg})
			return false
		}
		emit(c09Res{T: "canary", I: from, Out: "ok", Msg: at})
		return true
	}
	// the fences are part of the apparatus: a child without them proves nothing about fatals
	for _, res := range []int{syscall.RLIMIT_AS, syscall.RLIMIT_CPU} {
		var rl syscall.Rlimit
		if err := syscall.Getrlimit(res, &rl); err != nil || rl.Max > 1<<40 {
			emit(c09Res{T: "canary", I: from, Out: "fail", Msg: fmt.Sprintf("resource fence %d is not in place (hard limit %d, %v)", res, rl.Max, err)})
			return 3
		}
	}
	if !canary("start") {
		return 3
	}

	type prepInput struct {
		keys  []cid.Cid
		roots []cid.Cid
		done  bool
	}
	preps := make([]prepInput, len(bf.Inputs))
	for i := from; i < len(bf.Calls); i++ {
		call := bf.Calls[i]
		ep := c09EPByName(call.EP)
		if ep == nil || call.In < 0 || call.In >= len(bf.Inputs) {
			emit(c09Res{T: "fail", I: i, Msg: "unknown entry point or input in the batch file: " + call.EP})
			return 2
		}
		fi := bf.Inputs[call.In]
		in := blob[fi.Off : fi.Off+fi.Len : fi.Off+fi.Len]
		pi := &preps[call.In]
		if !pi.done {
			for _, k := range fi.Keys {
				if b, err := hex.DecodeString(k); err == nil {
					if c, err := cid.Cast(b); err == nil {
						pi.keys = append(pi.keys, c)
					}
				}
			}
			pi.done = true
		}
		if ep.name == "v2.ReplaceRootsInFile" && pi.roots == nil {
			pi.roots = c09ReplacementRoots(in)
		}
		p := &c09Prepared{ep: ep, in: in, o: fi.Opts, keys: pi.keys, roots: pi.roots, dir: dir}
		emit(c09Res{T: "start", I: i, CPU: c09CPUSeconds()})
		res := c09RunCall(p)
		if res.Out != "panic" && res.Alloc > c09Bound(ep.root, fi.Opts, len(in)) {
			res.Site = c09AllocSite(p)
		}
		res.T, res.I = "done", i
		emit(res)
	}
	if !canary("end") {
		return 3
	}
	return 0
}

func init() { childKinds["c09"] = c09Child }
