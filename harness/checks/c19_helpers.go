package checks

// Helpers of C19 that are independent of go-car / go-cid: CID text forms, a
// minimal DAG-CBOR encoder for generated DAGs, a minimal dag-pb link scanner,
// and the child-process runner for the `car` binary.

import (
	"bytes"
	"context"
	"encoding/base32"
	"encoding/binary"
	"errors"
	"math/big"
	"os"
	"os/exec"
	"path/filepath"
	"strings"
	"time"

	"carlab/internal/mon"
	"carlab/internal/refcar"
)

// ---------------------------------------------------------------- CID text

var c19b32 = base32.NewEncoding("abcdefghijklmnopqrstuvwxyz234567").WithPadding(base32.NoPadding)

const c19b58alpha = "123456789ABCDEFGHJKLMNPQRSTUVWXYZabcdefghijkmnopqrstuvwxyz"

func c19Base58(b []byte) string {
	x := new(big.Int).SetBytes(b)
	base := big.NewInt(58)
	mod := new(big.Int)
	var out []byte
	for x.Sign() > 0 {
		x.DivMod(x, base, mod)
		out = append(out, c19b58alpha[mod.Int64()])
	}
	for _, c := range b {
		if c != 0 {
			break
		}
		out = append(out, c19b58alpha[0])
	}
	for i, j := 0, len(out)-1; i < j; i, j = i+1, j-1 {
		out[i], out[j] = out[j], out[i]
	}
	return string(out)
}

// c19CidString renders CID bytes the way the multiformats text form is
// defined: CIDv0 = base58btc of the multihash, CIDv1 = 'b' + lower-case base32.
func c19CidString(raw []byte) string {
	if len(raw) == 34 && raw[0] == 0x12 && raw[1] == 0x20 {
		return c19Base58(raw)
	}
	return "b" + c19b32.EncodeToString(raw)
}

// ---------------------------------------------------------------- DAG-CBOR (generated nodes only)

func c19CborHead(major byte, v uint64) []byte {
	m := major << 5
	switch {
	case v < 24:
		return []byte{m | byte(v)}
	case v < 1<<8:
		return []byte{m | 24, byte(v)}
	case v < 1<<16:
		return []byte{m | 25, byte(v >> 8), byte(v)}
	case v < 1<<32:
		return []byte{m | 26, byte(v >> 24), byte(v >> 16), byte(v >> 8), byte(v)}
	}
	out := []byte{m | 27, 0, 0, 0, 0, 0, 0, 0, 0}
	binary.BigEndian.PutUint64(out[1:], v)
	return out
}

// c19DagCborNode encodes {"d": <bytes>, "l": [<link>…]} canonically.
func c19DagCborNode(data []byte, links [][]byte) []byte {
	var b []byte
	b = append(b, c19CborHead(5, 2)...)
	b = append(b, c19CborHead(3, 1)...)
	b = append(b, 'd')
	b = append(b, c19CborHead(2, uint64(len(data)))...)
	b = append(b, data...)
	b = append(b, c19CborHead(3, 1)...)
	b = append(b, 'l')
	b = append(b, c19CborHead(4, uint64(len(links)))...)
	for _, l := range links {
		b = append(b, 0xd8, 0x2a)
		b = append(b, c19CborHead(2, uint64(len(l)+1))...)
		b = append(b, 0x00)
		b = append(b, l...)
	}
	return b
}

// ---------------------------------------------------------------- dag-pb links (protobuf wire format)

func c19PbFields(b []byte, f func(num uint64, wt uint64, val []byte) error) error {
	for len(b) > 0 {
		k, n, err := refcar.Uvarint(b)
		if err != nil {
			return err
		}
		b = b[n:]
		num, wt := k>>3, k&7
		switch wt {
		case 0:
			_, n, err := refcar.Uvarint(b)
			if err != nil {
				// protobuf varints may be 10 bytes; the generator never produces those here
				return err
			}
			b = b[n:]
		case 2:
			l, n, err := refcar.Uvarint(b)
			if err != nil {
				return err
			}
			b = b[n:]
			if l > uint64(len(b)) {
				return errors.New("pb: short")
			}
			if err := f(num, wt, b[:l]); err != nil {
				return err
			}
			b = b[l:]
		case 1:
			if len(b) < 8 {
				return errors.New("pb: short")
			}
			b = b[8:]
		case 5:
			if len(b) < 4 {
				return errors.New("pb: short")
			}
			b = b[4:]
		default:
			return errors.New("pb: wire type")
		}
	}
	return nil
}

// c19PbLinks returns the Hash fields of the Links (field 2) of a PBNode, in order.
func c19PbLinks(b []byte) ([][]byte, error) {
	var out [][]byte
	err := c19PbFields(b, func(num, _ uint64, val []byte) error {
		if num != 2 {
			return nil
		}
		return c19PbFields(val, func(num, _ uint64, v []byte) error {
			if num == 1 {
				out = append(out, v)
			}
			return nil
		})
	})
	return out, err
}

// c19PbNoData reports whether b scans as a protobuf message without a Data field (field 1).
func c19PbNoData(b []byte) bool {
	has := false
	err := c19PbFields(b, func(num, _ uint64, _ []byte) error {
		if num == 1 {
			has = true
		}
		return nil
	})
	return err == nil && !has
}

// c19Links returns the links of a block according to its codec (dag-pb, raw =
// none). ok=false: codec not understood (links of generated dag-cbor nodes are
// known to the generator by construction).
func c19Links(c refcar.Cid, data []byte) (links [][]byte, ok bool) {
	switch c.Codec {
	case 0x55:
		return nil, true
	case 0x70:
		l, err := c19PbLinks(data)
		return l, err == nil
	}
	return nil, false
}

// ---------------------------------------------------------------- child processes

type c19Res struct {
	Argv     []string
	Stdout   []byte
	Stderr   []byte
	Exit     int
	TimedOut bool
	StartErr error
}

func (r c19Res) ok() bool { return !r.TimedOut && r.StartErr == nil && r.Exit == 0 }

func (r c19Res) errText() string {
	s := strings.TrimSpace(string(r.Stderr))
	if len(s) > 600 {
		s = s[:600] + "…"
	}
	return s
}

func c19Bin() string {
	d := os.Getenv("VERIF_BIN")
	if d == "" {
		d = filepath.Join(mon.Dir(), "bin")
	}
	return filepath.Join(d, "car")
}

const c19Timeout = 60 * time.Second

// c19Exec runs the car binary in dir. A watchdog firing is reported as inconclusive by the caller.
func c19Exec(t *mon.T, dir string, stdin []byte, args ...string) c19Res {
	ctx, cancel := context.WithTimeout(context.Background(), c19Timeout)
	defer cancel()
	cmd := exec.CommandContext(ctx, c19Bin(), args...)
	cmd.Dir = dir
	if stdin != nil {
		cmd.Stdin = bytes.NewReader(stdin)
	}
	var so, se bytes.Buffer
	cmd.Stdout = &so
	cmd.Stderr = &se
	err := cmd.Run()
	t.Events(1)
	res := c19Res{Argv: append([]string{"car"}, args...), Stdout: so.Bytes(), Stderr: se.Bytes()}
	if ctx.Err() == context.DeadlineExceeded {
		res.TimedOut = true
		t.Inconclusive("car %s: no answer within %v", strings.Join(args, " "), c19Timeout)
		return res
	}
	if err != nil {
		var ee *exec.ExitError
		if errors.As(err, &ee) {
			res.Exit = ee.ExitCode()
		} else {
			res.StartErr = err
			t.Inconclusive("car %s: cannot start: %v", strings.Join(args, " "), err)
		}
	}
	return res
}

func c19Lines(b []byte) []string {
	s := strings.TrimRight(string(b), "\n")
	if s == "" {
		return nil
	}
	return strings.Split(s, "\n")
}
