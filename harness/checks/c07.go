package checks

import (
	"bytes"
	"encoding/json"
	"errors"
	"fmt"
	"io"
	"os"
	"path/filepath"
	"strings"

	format "github.com/ipfs/go-ipld-format"
	carv2 "github.com/ipld/go-car/v2"
	"github.com/ipld/go-car/v2/blockstore"
	"github.com/ipld/go-car/v2/index"
	"github.com/ipld/go-car/v2/storage"
	"github.com/multiformats/go-multicodec"

	"carlab/internal/gen"
	"carlab/internal/lab"
	"carlab/internal/mon"
	"carlab/internal/refcar"
)

type c07Desc struct {
	Seed      int64  `json:"seed"`
	Container string `json:"container"` // v1 | v1-nullpad | v2-mh | v2-sorted-pad | v2-indexless
	Whole     bool   `json:"whole,omitempty"`
	StoreID   bool   `json:"id,omitempty"`
	Supplied  string `json:"supplied,omitempty"` // "" | lib-sorted | lib-mh | ref-sorted | ref-mh
	Huge      bool   `json:"huge,omitempty"`     // one section of more than 8 MiB
	Big       int    `json:"big,omitempty"`      // > 0: that many tiny sections (an index generated at open holds tens of thousands of records)
}

func runC07(t *mon.T, raw json.RawMessage) {
	var d c07Desc
	if err := json.Unmarshal(raw, &d); err != nil {
		panic(err)
	}
	r := gen.Rand(d.Seed)
	content := gen.MakeContent(r, gen.ContentOpts{MinBlocks: 0, MaxBlocks: 10, MaxRoots: 3, Dups: true, Synthetic: true, Boundaries: true, Block: gen.BlockOpts{MaxSize: 200}})
	if d.Big > 0 {
		content.Blocks = content.Blocks[:0]
		for i := 0; i < d.Big; i++ {
			dg := gen.Bytes(r, []int{32, 32, 20, 64}[i%4])
			content.Blocks = append(content.Blocks, refcar.Block{Cid: refcar.MakeCidV1(0x55, []uint64{0x12, 0x13}[i%2], dg), Data: []byte{byte(i), byte(i >> 8)}})
		}
		t.Cover("input:tens-of-thousands-of-sections")
	}
	if d.Big == 0 && r.Intn(3) == 0 {
		// dag-pb blocks under a CIDv0 and under a CIDv1 (their other-version twins are queried below)
		content.Blocks = append(content.Blocks, refcar.Block{Cid: refcar.MakeCidV0(gen.Bytes(r, 32)), Data: []byte("under a CIDv0")},
			refcar.Block{Cid: refcar.MakeCidV1(0x70, 0x12, gen.Bytes(r, 32)), Data: []byte("dag-pb under a CIDv1")})
	}
	if d.Huge {
		// one section over the default MaxAllowedSectionSize of the BUFFERING readers: lookups by size,
		// listings and index generation do not buffer it
		huge := refcar.Block{Cid: refcar.MakeCidV1(0x55, 0x12, gen.Bytes(r, 32)), Data: make([]byte, 8<<20+r.Intn(100))}
		i := r.Intn(len(content.Blocks) + 1)
		content.Blocks = append(append(append([]refcar.Block{}, content.Blocks[:i]...), huge), content.Blocks[i:]...)
		t.Cover("input:a-section-over-8MiB")
	}
	// same key, different bytes (only possible with synthetic CIDs; the stores never hash)
	if len(content.Blocks) > 0 && r.Intn(3) == 0 {
		b := content.Blocks[r.Intn(len(content.Blocks))]
		content.Blocks = append(content.Blocks, refcar.Block{Cid: b.Cid, Data: append([]byte("other bytes "), b.Data...)})
	}
	// the archive may have been WRITTEN with identity storing (fully-indexed bit set, identity records
	// in the embedded index) although it is read without the option: how identity keys are answered
	// depends on the reading options only
	fullIdx := d.StoreID || (d.Seed>>3)%4 == 0
	if d.StoreID && d.Supplied != "" && (d.Seed>>5)%2 == 0 {
		// the archive was written WITHOUT identity storing (its embedded index has no identity records);
		// the caller reads it with the option on and supplies a complete index: the supplied index is the
		// one to be used
		fullIdx = false
		t.Cover("supplied-complete-index-over-an-incomplete-embedded-one")
	}
	if !d.StoreID && fullIdx {
		t.Cover("archive-fully-indexed-read-without-the-option")
	}
	if !fullIdx && !d.StoreID && r.Intn(5) == 0 {
		// an identity CID longer than MaxIndexCidSize: never indexed without the option, so no limit applies
		i := r.Intn(len(content.Blocks) + 1)
		content.Blocks = append(content.Blocks[:i], append([]refcar.Block{gen.LongIdentityBlock(r)}, content.Blocks[i:]...)...)
		t.Cover("input:identity-cid-longer-than-max-index-cid-size")
	}
	payload := refcar.EncodeV1(content.Roots, content.NilRoots, content.Blocks)
	ref, _ := refcar.DecodeV1(payload, false)
	cfg := lab.Cfg{WholeCID: d.Whole, StoreID: d.StoreID}
	file := payload
	switch d.Container {
	case "v1-nullpad":
		cfg.ZeroEOF = true
		file = append(append([]byte{}, payload...), make([]byte, 1+r.Intn(64))...)
	case "v2-mh":
		file = refcar.EncodeV2(payload, refcar.V2Opts{FullyIndexed: fullIdx, Index: refcar.BuildIndex(refcar.CodecMhIndexSorted, refcar.ExpectedIndexRecords(ref, refcar.CodecMhIndexSorted, fullIdx))})
	case "v2-sorted-pad":
		file = refcar.EncodeV2(payload, refcar.V2Opts{FullyIndexed: fullIdx, DataPadding: uint64(1 + r.Intn(500)), IndexPadding: uint64(r.Intn(64)),
			Index: refcar.BuildIndex(refcar.CodecIndexSorted, refcar.ExpectedIndexRecords(ref, refcar.CodecIndexSorted, fullIdx))})
	case "v2-indexless":
		file = refcar.EncodeV2(payload, refcar.V2Opts{DataPadding: uint64(r.Intn(4))})
	}
	opts := cfg.Opts()
	t.Cover("container:" + d.Container)
	t.Cover("cfg:" + cfg.Short())
	t.Nontrivial()

	// the scan is the model
	m := &lab.Model{Cfg: cfg}
	for _, s := range ref.Sections {
		m.Sections = append(m.Sections, refcar.Block{Cid: s.Cid.Raw, Data: s.Data})
	}
	var scanKeys []string
	for _, s := range ref.Sections {
		scanKeys = append(scanKeys, lab.FlatKey(s.Cid.Raw, cfg.WholeCID))
	}

	// queries
	var queries [][]byte
	qsecs := ref.Sections
	if len(qsecs) > 400 {
		// a sample: the first and last sections, and those around multiples of 2^14 (batch sizes)
		qsecs = append(append([]refcar.Section{}, ref.Sections[:60]...), ref.Sections[len(ref.Sections)-60:]...)
		for k := 1 << 14; k+30 < len(ref.Sections); k += 1 << 14 {
			qsecs = append(qsecs, ref.Sections[k-30:k+30]...)
		}
		for k := 0; k < 100; k++ {
			qsecs = append(qsecs, ref.Sections[r.Intn(len(ref.Sections))])
		}
	}
	for _, s := range qsecs {
		queries = append(queries, s.Cid.Raw)
		if s.Cid.Version == 1 {
			queries = append(queries, refcar.MakeCidV1(s.Cid.Codec^0x1, s.Cid.MhCode, s.Cid.Digest)) // same multihash, other codec
		}
		// the other-version twin: same codec (dag-pb), same multihash, another CID
		if s.Cid.Version == 0 {
			queries = append(queries, refcar.MakeCidV1(0x70, 0x12, s.Cid.Digest))
			t.Cover("query:cidv1-twin-of-a-stored-cidv0")
		} else if s.Cid.Codec == 0x70 && s.Cid.MhCode == 0x12 && len(s.Cid.Digest) == 32 {
			queries = append(queries, refcar.MakeCidV0(s.Cid.Digest))
			t.Cover("query:cidv0-twin-of-a-stored-cidv1")
		}
		if len(s.Cid.Digest) > 0 {
			nd := append([]byte{}, s.Cid.Digest...)
			nd[len(nd)/2] ^= 4
			queries = append(queries, refcar.MakeCidV1(0x55, s.Cid.MhCode, nd))             // same width, absent
			queries = append(queries, refcar.MakeCidV1(0x55, 0x00, s.Cid.Digest))           // identity twin of the digest
			queries = append(queries, refcar.MakeCidV1(0x55, s.Cid.MhCode, nd[:len(nd)-1])) // other width
		}
	}
	queries = append(queries, refcar.MakeCidV1(0x55, 0x12, gen.Bytes(r, 32)), refcar.MakeCidV1(0x55, 0x00, []byte("absent identity")), refcar.MakeCidV1(0x55, 0x00, nil))

	// supplied index
	var supplied index.Index
	if d.Supplied != "" {
		var err error
		switch d.Supplied {
		case "lib-sorted", "lib-mh":
			c := multicodec.CarIndexSorted
			if d.Supplied == "lib-mh" {
				c = multicodec.CarMultihashIndexSorted
			}
			supplied, err = carv2.GenerateIndex(bytes.NewReader(file), append(opts, carv2.UseIndexCodec(c))...)
		case "ref-sorted", "ref-mh":
			rc := uint64(refcar.CodecIndexSorted)
			if d.Supplied == "ref-mh" {
				rc = refcar.CodecMhIndexSorted
			}
			supplied, err = index.ReadFrom(bytes.NewReader(refcar.BuildIndex(rc, refcar.ExpectedIndexRecords(ref, rc, d.StoreID))))
		}
		if err != nil {
			t.Violatef("supplied-index/"+d.Supplied+"/error", "cannot build the supplied index: %v", err)
			return
		}
		t.Cover("supplied:" + d.Supplied)
	}

	dir := lab.TempDir("c07")
	defer os.RemoveAll(dir)

	type answers struct {
		has  map[string]string
		get  map[string]string
		size map[string]string
	}
	isNotFound := func(err error) bool {
		return format.IsNotFound(err) || errors.Is(err, index.ErrNotFound) || errors.As(err, &storage.ErrNotFound{})
	}

	// Get buffers the section it returns (or compares): for the one section over MaxAllowedSectionSize the
	// too-large error is the documented answer of a buffering read (C09), for a key with that multihash
	overLimit := func(q []byte, err error) bool {
		if !d.Huge || err == nil || !strings.Contains(err.Error(), "beyond allowable maximum") {
			return false
		}
		qc, _, _ := refcar.SplitCid(q)
		for _, s := range ref.Sections {
			if len(s.Data) > 8<<20 && bytes.Equal(s.Cid.Digest, qc.Digest) {
				t.Cover("huge-section:get-refused-as-too-large")
				return true
			}
		}
		return false
	}
	// ---- blockstore.ReadOnly
	checkRO := func(name string, ro *blockstore.ReadOnly) map[string]string {
		out := map[string]string{}
		rs, err := ro.Roots()
		if err != nil || !lab.CidsEqual(rs, ref.Header.Roots) {
			t.Violatef(name+"/Roots/differs", "%s: Roots() = %v, %v; header has %d roots", name, rs, err, len(ref.Header.Roots))
		}
		ch, err := ro.AllKeysChan(bg)
		if err != nil {
			t.Violatef(name+"/AllKeysChan/error", "%s: %v", name, err)
		} else {
			var keys []string
			for c := range ch {
				keys = append(keys, string(c.Bytes()))
			}
			if !lab.StringsEqual(keys, scanKeys) {
				t.ViolateD(name+"/AllKeysChan/sequence-differs", map[string]any{"got": len(keys), "want": len(scanKeys)}, "%s: key listing is not the scan's CID sequence", name)
			}
			t.Events(1)
		}
		// two listings open at once with Roots() called between their keys: each listing is its own
		// front-to-back pass over the payload, whatever else reads through the same store meanwhile
		if ch1, err := ro.AllKeysChan(bg); err == nil {
			var k1, k2 []string
			if c, ok := <-ch1; ok {
				k1 = append(k1, string(c.Bytes()))
			} else {
				ch1 = nil
			}
			if rs, err := ro.Roots(); err != nil || !lab.CidsEqual(rs, ref.Header.Roots) {
				t.Violatef(name+"/Roots/differs-while-listing", "%s: Roots() during a listing = %v, %v; header has %d roots", name, rs, err, len(ref.Header.Roots))
			}
			ch2, err2 := ro.AllKeysChan(bg)
			if err2 != nil {
				t.Violatef(name+"/AllKeysChan/error", "%s: second listing while one is open: %v", name, err2)
				ch2 = nil
			}
			for step := 0; ch1 != nil || ch2 != nil; step++ {
				if ch1 != nil {
					if c, ok := <-ch1; ok {
						k1 = append(k1, string(c.Bytes()))
					} else {
						ch1 = nil
					}
				}
				if ch2 != nil && step%3 != 1 {
					if c, ok := <-ch2; ok {
						k2 = append(k2, string(c.Bytes()))
					} else {
						ch2 = nil
					}
				}
				if step%4 == 2 {
					ro.Roots()
				}
			}
			if !lab.StringsEqual(k1, scanKeys) || (err2 == nil && !lab.StringsEqual(k2, scanKeys)) {
				t.ViolateD(name+"/AllKeysChan/overlapped-listings-differ", map[string]any{"first": len(k1), "second": len(k2), "want": len(scanKeys)}, "%s: of two listings open at once (Roots() called between keys) one is not the scan's CID sequence", name)
			}
			if len(scanKeys) > 7 {
				t.Cover("overlapped-listings-longer-than-the-channel-buffer")
			}
			t.Events(2)
		}
		for _, q := range queries {
			k, err := lab.TryCid(q)
			if err != nil {
				continue
			}
			adm, implied := m.Lookup(q)
			qc, _, _ := refcar.SplitCid(q)
			present := len(adm) > 0
			has, herr := ro.Has(bg, k)
			t.Events(3)
			if herr != nil || has != present {
				t.ViolateD(name+"/Has/differs-from-scan", map[string]any{"cid": lab.Hex(q), "identity": qc.IsIdentity()}, "%s: Has(%x) = %v, %v; the scan says present=%v", name, q, has, herr, present)
			}
			b, gerr := ro.Get(bg, k)
			switch {
			case overLimit(q, gerr):
			case present && (gerr != nil || !lab.ContainsData(adm, b.RawData())):
				t.Violatef(name+"/Get/differs-from-scan", "%s: Get(%x) = %v; the scan holds %d section(s) with that key", name, q, gerr, len(adm))
			case !present && !isNotFound(gerr):
				t.Violatef(name+"/Get/absent-key-not-notfound", "%s: Get(%x) of an absent key returned err=%v", name, q, gerr)
			}
			n, serr := ro.GetSize(bg, k)
			switch {
			case present:
				ok := false
				for _, a := range adm {
					if len(a) == n {
						ok = true
					}
				}
				if serr != nil || !ok {
					t.Violatef(name+"/GetSize/differs-from-scan", "%s: GetSize(%x) = %d, %v", name, q, n, serr)
				}
			case qc.IsIdentity() && !implied:
				// identity storing on, key absent: the size of an identity block is implied by its CID;
				// a size answer and a not-found answer are both consistent with the statement.
				if serr != nil && !isNotFound(serr) {
					t.Violatef(name+"/GetSize/absent-identity-error", "%s: GetSize(%x) = %v", name, q, serr)
				} else if serr == nil && n != len(qc.Digest) {
					t.Violatef(name+"/GetSize/identity-wrong-size", "%s: GetSize(%x) = %d", name, q, n)
				}
				t.Cover("getsize-absent-identity-with-storeid")
			default:
				if !isNotFound(serr) {
					t.Violatef(name+"/GetSize/absent-key-not-notfound", "%s: GetSize(%x) of an absent key returned %d, %v", name, q, n, serr)
				}
			}
			out[string(q)] = fmt.Sprintf("%v", has)
		}
		return out
	}
	var roAns, srAns map[string]string
	{
		var backing io.ReaderAt = bytes.NewReader(file)
		if d.Seed%3 == 0 {
			backing = lab.EOFReaderAt{B: file} // full read at the very end comes with io.EOF
			t.Cover("backing:eof-with-last-read")
		} else if d.Seed%3 == 2 {
			// the payload reader of a v2.Reader over the same bytes (itself a reader derived from a reader,
			// already read through once by whoever opened it): offsets in an index are payload offsets
			if rd, rerr := carv2.NewReader(bytes.NewReader(file), opts...); rerr == nil {
				if dr, derr := rd.DataReader(); derr == nil {
					_, _ = io.Copy(io.Discard, dr)
					backing = dr
					t.Cover("backing:Reader.DataReader")
				}
			}
		}
		if d.Seed%5 == 4 {
			// an io.ReaderAt that also has a seek position, which is not at the start (the caller sniffed
			// the version, or read the whole file, before handing it over): ReadAt neither depends on that
			// position nor moves it
			br := bytes.NewReader(file)
			_, _ = br.Seek([]int64{11, 1, int64(len(file)), int64(len(file) / 2)}[(d.Seed>>4)%4], io.SeekStart)
			backing = br
			t.Cover("backing:seekable-with-its-cursor-elsewhere")
		}
		ro, err := blockstore.NewReadOnly(backing, supplied, opts...)
		if err != nil {
			t.Violatef("blockstore.NewReadOnly/valid-archive/error", "NewReadOnly(%s, supplied=%q): %v", d.Container, d.Supplied, err)
		} else {
			roAns = checkRO("blockstore.ReadOnly", ro)
			t.Cover("api:blockstore.NewReadOnly")
		}
		if d.Supplied == "" {
			fp := filepath.Join(dir, "ro.car")
			mustWrite(fp, file)
			ro2, err := blockstore.OpenReadOnly(fp, opts...)
			if err != nil {
				t.Violatef("blockstore.OpenReadOnly/valid-archive/error", "OpenReadOnly(%s): %v", d.Container, err)
			} else {
				checkRO("blockstore.OpenReadOnly", ro2)
				ro2.Close()
				t.Cover("api:blockstore.OpenReadOnly")
			}
		}
	}
	// ---- a backing whose bytes of ONE section cannot be read (I/O error), opened through an index
	// that needs no scan: a lookup of a key only that section carries must fail with an error —
	// neither "absent" nor bytes
	if (d.Supplied != "" || d.Container == "v2-mh" || d.Container == "v2-sorted-pad") && len(ref.Sections) > 0 {
		if a, derr := refcar.Decode(file, false); derr == nil {
			si := int(uint64(d.Seed>>8) % uint64(len(ref.Sections)))
			sec := ref.Sections[si]
			carriers := 0
			for _, o := range ref.Sections {
				if lab.FlatKey(o.Cid.Raw, false) == lab.FlatKey(sec.Cid.Raw, false) {
					carriers++
				}
			}
			if _, implied := m.Lookup(sec.Cid.Raw); !implied && carriers == 1 {
				lo := int64(a.PayloadOff + sec.Offset)
				hi := int64(a.PayloadOff + sec.End)
				if hi == lo+int64(sec.LenSize)+int64(len(sec.Cid.Raw)) {
					hi++ // empty data: break one byte more so that the window is never empty past the CID
				}
				ro, err := blockstore.NewReadOnly(&lab.FailSrc{R: bytes.NewReader(file), N: lo, Hi: hi}, supplied, opts...)
				if err == nil {
					k, _ := lab.TryCid(sec.Cid.Raw)
					has, herr := ro.Has(bg, k)
					b, gerr := ro.Get(bg, k)
					n, serr := ro.GetSize(bg, k)
					t.Events(3)
					det := map[string]any{"cid": lab.Hex(sec.Cid.Raw), "unreadable": []int64{lo, hi}}
					if herr == nil && !has {
						t.ViolateD("blockstore.ReadOnly/unreadable-section/Has-reports-absent", det, "Has(%x) = false, nil although the section carrying it exists and merely cannot be read", sec.Cid.Raw)
					}
					if gerr == nil && !bytes.Equal(b.RawData(), sec.Data) {
						t.ViolateD("blockstore.ReadOnly/unreadable-section/Get-returns-wrong-bytes", det, "Get(%x) returned %d bytes that are not the section's", sec.Cid.Raw, len(b.RawData()))
					} else if isNotFound(gerr) {
						t.ViolateD("blockstore.ReadOnly/unreadable-section/Get-reports-absent", det, "Get(%x) = not found although the section exists and merely cannot be read", sec.Cid.Raw)
					}
					if serr == nil && n != len(sec.Data) {
						t.ViolateD("blockstore.ReadOnly/unreadable-section/GetSize-wrong", det, "GetSize(%x) = %d, the section holds %d bytes", sec.Cid.Raw, n, len(sec.Data))
					} else if isNotFound(serr) {
						t.ViolateD("blockstore.ReadOnly/unreadable-section/GetSize-reports-absent", det, "GetSize(%x) = not found although the section exists", sec.Cid.Raw)
					}
					if gerr != nil {
						t.Cover("unreadable-section:get-failed-with-error")
					}
					t.Cover("unreadable-section-probes")
				}
			}
		}
	}
	// ---- storage.OpenReadable (cannot take a supplied index)
	if d.Supplied == "" {
		name := "storage.OpenReadable"
		var backing io.ReaderAt = bytes.NewReader(file)
		if d.Seed%3 == 1 {
			backing = lab.EOFReaderAt{B: file}
		} else if d.Seed%3 == 0 {
			if rd, rerr := carv2.NewReader(bytes.NewReader(file), opts...); rerr == nil {
				if dr, derr := rd.DataReader(); derr == nil {
					backing = dr
					t.Cover("backing:Reader.DataReader")
				}
			}
		}
		if d.Seed%5 == 3 {
			br := bytes.NewReader(file)
			_, _ = br.Seek([]int64{11, 1, int64(len(file)), int64(len(file) / 2)}[(d.Seed>>4)%4], io.SeekStart)
			backing = br
			t.Cover("backing:seekable-with-its-cursor-elsewhere")
		}
		sr, err := storage.OpenReadable(backing, opts...)
		if err != nil {
			t.Violatef(name+"/valid-archive/error", "OpenReadable(%s): %v", d.Container, err)
		} else {
			t.Cover("api:storage.OpenReadable")
			srAns = map[string]string{}
			if !lab.CidsEqual(sr.Roots(), ref.Header.Roots) {
				t.Violatef(name+"/Roots/differs", "%s: Roots() differ", name)
			}
			for _, q := range queries {
				if _, err := lab.TryCid(q); err != nil {
					continue
				}
				adm, _ := m.Lookup(q)
				present := len(adm) > 0
				has, herr := sr.Has(bg, string(q))
				t.Events(3)
				if herr != nil || has != present {
					t.Violatef(name+"/Has/differs-from-scan", "%s: Has(%x) = %v, %v; the scan says present=%v", name, q, has, herr, present)
				}
				b, gerr := sr.Get(bg, string(q))
				switch {
				case overLimit(q, gerr):
				case present && (gerr != nil || !lab.ContainsData(adm, b)):
					t.Violatef(name+"/Get/differs-from-scan", "%s: Get(%x) = %v; the scan holds %d section(s) with that key", name, q, gerr, len(adm))
				case !present && !isNotFound(gerr):
					t.Violatef(name+"/Get/absent-key-not-notfound", "%s: Get(%x) of an absent key returned err=%v", name, q, gerr)
				}
				st, serr := sr.GetStream(bg, string(q))
				switch {
				case present:
					if serr != nil {
						t.Violatef(name+"/GetStream/differs-from-scan", "%s: GetStream(%x) = %v", name, q, serr)
					} else {
						b2, _ := io.ReadAll(st)
						st.Close()
						if !lab.ContainsData(adm, b2) {
							t.Violatef(name+"/GetStream/differs-from-scan", "%s: GetStream(%x) returned bytes no section with that key holds", name, q)
						}
					}
				case !isNotFound(serr):
					t.Violatef(name+"/GetStream/absent-key-not-notfound", "%s: GetStream(%x) of an absent key returned err=%v", name, q, serr)
				}
				srAns[string(q)] = fmt.Sprintf("%v", has)
			}
		}
	}
	if roAns != nil && srAns != nil {
		for k, v := range roAns {
			if srAns[k] != v {
				t.Violatef("cross-api/Has/disagree", "blockstore.ReadOnly and storage.OpenReadable disagree on Has(%x): %s vs %s", k, v, srAns[k])
			}
		}
	}
	t.Sample(map[string]any{"container": d.Container, "cfg": cfg.String(), "supplied": d.Supplied, "sections": len(ref.Sections), "queries": len(queries)})
}

func genC07(g *mon.G) {
	r := gen.Rand(g.Seed)
	conts := []string{"v1", "v1-nullpad", "v2-mh", "v2-sorted-pad", "v2-indexless"}
	sup := []string{"", "", "", "lib-sorted", "lib-mh", "ref-sorted", "ref-mh"}
	for i := 0; i < g.Pick(1500, 30000); i++ {
		g.Emit(c07Desc{Seed: r.Int63(), Container: conts[i%len(conts)], Whole: r.Intn(3) == 0, StoreID: r.Intn(2) == 0, Supplied: sup[r.Intn(len(sup))]})
	}
	for i := 0; i < g.Pick(2, 8); i++ {
		g.Emit(c07Desc{Seed: r.Int63(), Container: []string{"v1", "v2-mh", "v2-indexless", "v2-sorted-pad"}[i%4], Whole: i%2 == 1, Huge: true})
	}
	for i := 0; i < g.Pick(3, 15); i++ {
		g.Emit(c07Desc{Seed: r.Int63(), Container: []string{"v1", "v2-indexless", "v2-mh"}[i%3], Whole: i%2 == 1, StoreID: i%4 == 2, Supplied: []string{"", "", "", "lib-sorted", "lib-mh"}[i%5],
			Big: []int{16500, 33000, 50000}[i%3] + r.Intn(3000)})
	}
}

func init() {
	Register(&mon.Check{
		ID:          "C07",
		Level:       "exploration",
		Rule:        "cases = seeded archives (synthetic + honest CIDs; duplicates, same multihash under other codecs, same key with different bytes, identity twins) in 5 container forms x {UseWholeCIDs, StoreIdentityCIDs} x {embedded/generated index, supplied index built by the library or by the reference in either codec}; every present CID and 4-5 absent neighbours each are queried through blockstore.NewReadOnly, OpenReadOnly and storage.OpenReadable and compared with a reference scan; AllKeysChan must equal the scan's CID sequence in order, also for two listings open at once with Roots() called between their keys",
		Assumptions: []string{"reference scan (refcar) is the model", "GetSize of an absent identity CID with StoreIdentityCIDs on: a size or a not-found answer are both accepted (the block is implied by its CID)"},
		Gen:         genC07,
		Run:         runC07,
		MinCover: map[string]int{"unreadable-section-probes": 100, "input:a-section-over-8MiB": 2, "query:cidv1-twin-of-a-stored-cidv0": 50, "query:cidv0-twin-of-a-stored-cidv1": 50, "backing:seekable-with-its-cursor-elsewhere": 100, "backing:Reader.DataReader": 100, "input:tens-of-thousands-of-sections": 3, "archive-fully-indexed-read-without-the-option": 50, "input:identity-cid-longer-than-max-index-cid-size": 50, "container:v1": 20, "container:v1-nullpad": 20, "container:v2-mh": 20, "container:v2-sorted-pad": 20, "container:v2-indexless": 20,
			"supplied:lib-sorted": 5, "supplied:ref-mh": 5, "api:blockstore.OpenReadOnly": 50, "api:storage.OpenReadable": 50},
	})
}
