package checks

import (
	"bytes"
	"encoding/json"
	"fmt"
	"os"
	"path/filepath"
	"sort"
	"strings"

	blocks "github.com/ipfs/go-block-format"
	"github.com/ipfs/go-cid"
	"github.com/ipld/go-car/v2/blockstore"
	"github.com/ipld/go-car/v2/storage"

	"carlab/internal/gen"
	"carlab/internal/iofault"
	"carlab/internal/lab"
	"carlab/internal/mon"
	"carlab/internal/refcar"
)

type c06Desc struct {
	Seed     int64   `json:"seed"`
	API      string  `json:"api"` // blockstore | storage
	Cfg      lab.Cfg `json:"cfg"`
	FirstGen string  `json:"firstgen,omitempty"` // "" fresh | "discarded" | "finalized": the session under test starts by resuming such a file
	AllBytes bool    `json:"allbytes,omitempty"`
	Gen1Puts int     `json:"gen1puts,omitempty"`  // blocks of the first generation (default 2)
	Puts     int     `json:"puts,omitempty"`      // blocks of the session under test (default 1-5)
	Strace   bool    `json:"strace,omitempty"`    // hook-independence cross-check instead of crash enumeration
	Sha256   bool    `json:"sha256,omitempty"`    // only raw sha2-256 blocks (the common case: one hash code, one digest width in the index)
	FailFin  int     `json:"failfin,omitempty"`   // >0 (storage API, CARv2): a Finalize in mid-session fails at its FailFin-th write (1 = the header, 2.. = index), the caller carries on with more puts and finalizes again
	OnlyEv   int     `json:"only_ev,omitempty"`   // replay: event index + 1
	OnlyTear int     `json:"only_tear,omitempty"` // replay: tear + 1
}

// c06Store is an opened resumable store of either API.
type c06Store struct {
	api  string
	bs   *blockstore.ReadWrite
	sc   *storage.StorageCar
	f    *os.File
	tap  *iofault.FileTap
	mf   *iofault.MemFile
	path string
}

func c06Open(api, path string, initial []byte, fresh bool, roots []cid.Cid, cfg lab.Cfg, trace bool) (*c06Store, error) {
	s := &c06Store{api: api, path: path}
	var err error
	if api == "blockstore" {
		mustWrite(path, initial)
		s.f, err = os.OpenFile(path, os.O_RDWR, 0o666)
		if err != nil {
			panic(err)
		}
		if trace {
			s.tap = iofault.Tap(s.f)
		}
		s.bs, err = blockstore.OpenReadWriteFile(s.f, roots, cfg.Opts()...)
		if err != nil {
			s.close()
		}
		return s, err
	}
	s.mf = iofault.New(initial)
	s.mf.NoLog = !trace
	s.mf.EagerEOF = len(initial)%2 == 1 || (len(initial) == 0 && cfg.DataPad%2 == 1)
	if fresh {
		s.sc, err = storage.NewReadableWritable(s.mf, roots, cfg.Opts()...)
	} else {
		s.sc, err = storage.OpenReadableWritable(s.mf, roots, cfg.Opts()...)
	}
	return s, err
}
func (s *c06Store) mark(m string) {
	if s.tap != nil {
		s.tap.Mark(m)
	} else if s.mf != nil {
		s.mf.Mark(m)
	}
}
func (s *c06Store) put(b refcar.Block) error {
	if s.bs != nil {
		return s.bs.Put(bg, lab.ToBlock(b))
	}
	return s.sc.Put(bg, string(b.Cid), b.Data)
}
func (s *c06Store) has(b refcar.Block) (bool, error) {
	if s.bs != nil {
		return s.bs.Has(bg, lab.ToCid(b.Cid))
	}
	return s.sc.Has(bg, string(b.Cid))
}
func (s *c06Store) get(b refcar.Block) ([]byte, error) {
	if s.bs != nil {
		blk, err := s.bs.Get(bg, lab.ToCid(b.Cid))
		if err != nil {
			return nil, err
		}
		return blk.RawData(), nil
	}
	return s.sc.Get(bg, string(b.Cid))
}
func (s *c06Store) finalize() error {
	if s.bs != nil {
		return s.bs.Finalize()
	}
	return s.sc.Finalize()
}
func (s *c06Store) discard() {
	if s.bs != nil {
		s.bs.Discard()
	}
}
func (s *c06Store) bytes() []byte {
	if s.mf != nil {
		return s.mf.Bytes()
	}
	return mustRead(s.path)
}
func (s *c06Store) events() []iofault.Event {
	if s.tap != nil {
		return s.tap.Events()
	}
	return s.mf.Events()
}
func (s *c06Store) close() {
	if s.f != nil {
		iofault.Untap(s.f)
		s.f.Close()
		s.f = nil
	}
}

type c06Loc struct{ off, end uint64 }

func blockKey(b refcar.Block) string { return string(b.Cid) + "|" + string(b.Data) }

// c06Plan derives the blocks of a case from its descriptor: first generation, the session under
// test, and the two continuation blocks. Honest, pairwise distinct blocks (so that "intact bytes"
// is decidable by re-hashing and acknowledgements are unambiguous).
func c06Plan(d c06Desc) (gen1, sess, cont []refcar.Block, large bool) {
	r := gen.Rand(d.Seed)
	mk := func(n int) []refcar.Block {
		var out []refcar.Block
		seen := map[string]bool{}
		for len(out) < n {
			b := gen.HonestBlock(r, gen.BlockOpts{Size: -1, MaxSize: 260, NoIdentity: !d.Cfg.StoreID})
			if d.Sha256 {
				data := gen.Bytes(r, 1+r.Intn(40))
				dg, _ := refcar.Hash(0x12, data)
				b = refcar.Block{Cid: refcar.MakeCidV1(0x55, 0x12, dg), Data: data}
			}
			c, _, _ := refcar.SplitCid(b.Cid)
			k := string(c.Multihash())
			if seen[k] {
				continue
			}
			seen[k] = true
			out = append(out, b)
		}
		return out
	}
	n1, ns := 2, 1+r.Intn(4)
	if d.Gen1Puts > 0 {
		n1 = d.Gen1Puts
	}
	if d.Puts > 0 {
		ns = d.Puts
	}
	all := mk(n1 + ns + 2) // first generation + session + continuation (2)
	gen1, sess, cont = all[:n1], all[n1:len(all)-2], all[len(all)-2:]
	if r.Intn(5) == 0 {
		sess = append(append([]refcar.Block{}, sess...), gen.BoundaryBlock(r, 700+r.Intn(2000)))
	} else if d.Seed%4 == 1 && d.Puts == 0 {
		// one section of several KiB (a writer may treat large sections differently from small ones)
		sess = append(append([]refcar.Block{}, sess...), gen.BoundaryBlock(r, 4200+r.Intn(3000)))
	}
	if d.Cfg.WholeCID && d.Puts == 0 {
		// whole-CID stores keep blocks that share a multihash apart: the same bytes under another codec
		// are a block of their own, acknowledged like any other
		twin := func(b refcar.Block) refcar.Block {
			c, _, _ := refcar.SplitCid(b.Cid)
			codec := uint64(0x71)
			if c.Codec == 0x71 {
				codec = 0x55
			}
			return refcar.Block{Cid: refcar.MakeCidV1(codec, c.MhCode, c.Digest), Data: b.Data}
		}
		sess = append(append([]refcar.Block{}, sess...), twin(sess[0]), twin(gen1[0]))
	}
	return gen1, sess, cont, n1+ns >= 25
}

// c06SecondCrash: the image was cut inside a write of the session's OPEN (resuming a finalized file
// rewrites its header); the next session resumes that image, puts two more blocks, and is cut in turn
// inside the header writes of its Finalize. Whatever the first crash left in the header must not make
// the third session believe the second one's torn header: blocks acknowledged in either session stay.
func c06SecondCrash(t *mon.T, d c06Desc, viol func(string, string, ...any), img []byte, path string, roots []cid.Cid, cfg lab.Cfg, acked, cont []refcar.Block) {
	s2, err := c06Open(d.API, path, img, false, roots, cfg, true)
	if err != nil {
		return // the image is refused: judged by the caller
	}
	for _, b := range cont {
		if err := s2.put(b); err != nil {
			s2.close()
			return
		}
	}
	s2.mark("call:finalize")
	_ = s2.finalize()
	evs := s2.events()
	s2.close()
	at := -1
	for i, e := range evs {
		if e.Kind == iofault.KMark && e.Mark == "call:finalize" {
			at = i
		}
	}
	if at < 0 {
		return
	}
	must := append(append([]refcar.Block{}, acked...), cont...)
	n := 0
	for i := at + 1; i < len(evs) && n < 2; i++ { // the two header writes of Finalize (characteristics, then the three fields)
		if evs[i].Kind != iofault.KWriteAt && evs[i].Kind != iofault.KWrite {
			continue
		}
		n++
		for tear2 := 1; tear2 < len(evs[i].Data); tear2++ {
			img2 := iofault.Image(img, evs, i, tear2)
			s3, err := c06Open(d.API, path, img2, false, roots, cfg, false)
			t.Events(1)
			t.Cover("second-level-crash-images")
			if err != nil {
				continue // a refusal destroys nothing it has not read (the first-level judgement covers refusals)
			}
			for _, b := range must {
				has, herr := s3.has(b)
				got, gerr := s3.get(b)
				if herr != nil || !has || gerr != nil || !bytes.Equal(got, b.Data) {
					viol("second-crash/acked-block-lost", "after a crash inside the reopening of a finalized file, and a second crash %d bytes into a header write of the next Finalize, the resumed store misses a block acknowledged before (Has=%v,%v Get err=%v)", tear2, has, herr, gerr)
					s3.close()
					return
				}
			}
			s3.close()
		}
	}
}

func runC06(t *mon.T, raw json.RawMessage) {
	var d c06Desc
	if err := json.Unmarshal(raw, &d); err != nil {
		panic(err)
	}
	if d.Strace {
		runC06Strace(t, d)
		return
	}
	cfg := d.Cfg
	gen1, sess, cont, large := c06Plan(d)
	if large {
		t.Cover("large-sessions(index > 1 KiB)")
	}
	all := append(append(append([]refcar.Block{}, gen1...), sess...), cont...)
	rootsRaw := [][]byte{all[0].Cid}
	roots := lab.ToCids(rootsRaw, false)
	dir := lab.TempDir("c06")
	defer os.RemoveAll(dir)
	path := filepath.Join(dir, "s.car")
	key := func(k string) string { return d.API + "/" + k }
	t.Cover("api:" + d.API)
	t.Cover("cfg:" + cfg.Short())
	t.Cover("firstgen:" + d.FirstGen)

	// ---- first generation (untraced): produces the file the session under test resumes from
	var initial []byte
	var initialBlocks []refcar.Block
	if d.FirstGen != "" {
		s, err := c06Open(d.API, path, nil, true, roots, cfg, false)
		if err != nil {
			t.Violatef(key("firstgen/open/error"), "%v", err)
			return
		}
		for _, b := range gen1 {
			if err := s.put(b); err != nil {
				t.Violatef(key("firstgen/put/error"), "%v", err)
				return
			}
		}
		if d.FirstGen == "finalized" {
			if err := s.finalize(); err != nil {
				t.Violatef(key("firstgen/finalize/error"), "%v", err)
				return
			}
		} else {
			s.discard()
		}
		initial = s.bytes()
		s.close()
		initialBlocks = gen1
	}

	// ---- the traced session: open, puts, finalize
	s, err := c06Open(d.API, path, initial, d.FirstGen == "", roots, cfg, true)
	if err != nil {
		t.Violatef(key("session/open/error"), "open failed on a healthy file: %v", err)
		return
	}
	s.mark("ack:open")
	failAfter := -1 // index of the last put before the Finalize that is made to fail
	if d.FailFin > 0 && s.mf != nil && !cfg.V1 && len(sess) >= 2 {
		failAfter = len(sess) - 2
	}
	for i, b := range sess {
		s.mark(fmt.Sprintf("call:put:%d", i))
		err := s.put(b)
		if err != nil && failAfter >= 0 && i > failAfter {
			// after a failed Finalize the store may refuse further puts: such a block is invoked, never acknowledged
			t.Cover("failed-finalize:later-put-refused")
			continue
		}
		if err != nil {
			t.Violatef(key("session/put/error"), "%v", err)
			s.close()
			return
		}
		s.mark(fmt.Sprintf("ack:put:%d", i))
		if i == failAfter {
			// a Finalize whose FailFin-th write fails (disk full while the index is written, say);
			// the application logs the error and carries on with the same store
			s.mf.SetFaults([]iofault.Fault{{At: s.mf.Writes() + d.FailFin - 1, Keep: int(d.Seed>>7) % 9}})
			s.mark("call:finalize(failing)")
			if ferr := s.finalize(); ferr == nil {
				t.Cover("failed-finalize:fault-not-reached")
			} else {
				t.Cover("failed-finalize:finalize-failed")
			}
			s.mf.SetFaults(nil)
		}
	}
	s.mark("call:finalize")
	ferr := s.finalize()
	if cfg.NoIdx {
		t.Cover("sessions-opened-without-index")
	}
	finRefused := false
	if ferr != nil && cfg.NoIdx {
		// the library refuses to finalize a session opened WithoutIndex: the session then ends with that
		// refusal, and every image on the way there is judged like any other; should a Finalize of such
		// a session ever succeed, its writes are part of the trace and judged too
		finRefused = true
		t.Cover("finalize-refused:without-index")
	} else if ferr != nil && failAfter < 0 {
		t.Violatef(key("session/finalize/error"), "%v", ferr)
		s.close()
		return
	}
	if ferr == nil {
		s.mark("ack:finalize")
	}
	events := s.events()
	final := s.bytes()
	s.close()
	// trace completeness: replaying the whole trace over the initial file must give the final file
	if img := iofault.Image(initial, events, len(events), -1); !bytes.Equal(img, final) {
		t.Violatef("harness/trace-incomplete", "replaying the recorded trace does not reproduce the final file (first difference at %d): the trace misses a mutation", lab.FirstDiff(img, final))
		return
	}
	t.Nontrivial()
	// where every block of the uninterrupted run sits in the file
	layout := final
	if failAfter >= 0 {
		// the faulted session's own file need not be a CAR: a fault-free twin tells where each block sits
		tw, terr := c06Open(d.API, path, initial, d.FirstGen == "", roots, cfg, false)
		if terr != nil {
			panic(terr)
		}
		for _, b := range sess {
			if err := tw.put(b); err != nil {
				panic(err)
			}
		}
		if err := tw.finalize(); err != nil {
			panic(err)
		}
		layout = tw.bytes()
		tw.close()
	}
	fa, err := refcar.Decode(layout, false)
	if err != nil && finRefused && len(layout) >= int(51+cfg.DataPad) {
		// never finalized: pragma, blank header, payload
		off := 51 + cfg.DataPad
		var pl *refcar.Payload
		if pl, err = refcar.DecodeV1(layout[off:], false); err == nil {
			fa = &refcar.Archive{Version: 2, PayloadOff: off, PayloadLen: uint64(len(layout)) - off, Payload: pl}
			fa.V2.DataOffset, fa.V2.DataSize = off, uint64(len(layout))-off
		}
	}
	if err != nil {
		t.Violatef(key("session/final/undecodable"), "uninterrupted session gives an undecodable file: %v", err)
		return
	}
	where := map[string]c06Loc{}
	for _, sec := range fa.Payload.Sections {
		where[blockKey(refcar.Block{Cid: sec.Cid.Raw, Data: sec.Data})] = c06Loc{fa.PayloadOff + sec.Offset, fa.PayloadOff + sec.End}
	}
	indexOff := uint64(1 << 62)
	if fa.Version == 2 {
		indexOff = fa.V2.DataOffset + fa.V2.DataSize // index padding and index live beyond
	}

	// ---- enumerate crash images
	phaseOf := func(ei int) string {
		// which call does event ei belong to, and which write of it
		call := "open"
		nth := 0
		for j := 0; j < ei; j++ {
			if events[j].Kind == iofault.KMark {
				if strings.HasPrefix(events[j].Mark, "call:") {
					call = strings.TrimPrefix(events[j].Mark, "call:")
					nth = 0
				}
				continue
			}
			nth++
		}
		e := events[ei]
		switch {
		case e.Kind == iofault.KTruncate:
			return "resume.truncate"
		case strings.HasPrefix(call, "put"):
			return "put.section." + []string{"length", "cid", "data", "extra"}[min(nth, 3)]
		case strings.HasPrefix(call, "finalize"):
			if call != "finalize" {
				t.Cover("cut:inside-or-after-a-failed-finalize")
			}
			if uint64(e.Off) >= indexOff {
				return "finalize.index"
			}
			if e.Off == 11 {
				return "finalize.header.characteristics"
			}
			return "finalize.header.fields"
		default:
			if d.FirstGen != "" {
				if e.Off == 11 {
					return "resume.unfinalize-header.characteristics"
				}
				return "resume.unfinalize-header.fields"
			}
			if e.Off == 0 && !cfg.V1 {
				return "open.pragma"
			}
			return "open.payload-header"
		}
	}
	images := 0
	for ei := 0; ei <= len(events); ei++ {
		if ei < len(events) && events[ei].Kind == iofault.KMark {
			continue
		}
		if d.OnlyEv > 0 && ei != d.OnlyEv-1 {
			continue
		}
		tears := []int{0}
		phase := "complete"
		if ei < len(events) {
			phase = phaseOf(ei)
			if events[ei].Kind != iofault.KTruncate {
				l := len(events[ei].Data)
				if d.AllBytes && l <= 600 {
					for k := 1; k < l; k++ {
						tears = append(tears, k)
					}
				} else {
					for _, k := range []int{1, l / 2, l - 1} {
						if k > 0 && k < l && k != tears[len(tears)-1] {
							tears = append(tears, k)
						}
					}
				}
			}
		}
		// acknowledged / invoked sets at this point
		acked := append([]refcar.Block{}, initialBlocks...)
		invoked := append([]refcar.Block{}, initialBlocks...)
		for j := 0; j < ei && j < len(events); j++ {
			if events[j].Kind != iofault.KMark {
				continue
			}
			var k int
			if n, _ := fmt.Sscanf(events[j].Mark, "ack:put:%d", &k); n == 1 {
				acked = append(acked, sess[k])
			}
			if n, _ := fmt.Sscanf(events[j].Mark, "call:put:%d", &k); n == 1 {
				invoked = append(invoked, sess[k])
			}
		}
		for _, tear := range tears {
			if d.OnlyTear > 0 && tear != d.OnlyTear-1 {
				continue
			}
			ph := phase
			if tear > 0 {
				ph += ":torn"
			}
			img := iofault.Image(initial, events, ei, tear)
			if ei == len(events) {
				img = final
			}
			images++
			t.Cover("cut:" + ph)
			c06Judge(t, d, key, ph, ei, tear, img, path, roots, rootsRaw, cfg, acked, invoked, cont, where)
		}
	}
	t.CoverN("crash-images", images)
	t.Sample(map[string]any{"api": d.API, "cfg": cfg.String(), "firstgen": d.FirstGen, "session_puts": len(sess), "trace_events": len(events), "crash_images": images})
}

func min(a, b int) int {
	if a < b {
		return a
	}
	return b
}

// c06Judge reopens one crash image and applies the oracle.
func c06Judge(t *mon.T, d c06Desc, key func(string) string, phase string, ei, tear int, img []byte, path string, roots []cid.Cid, rootsRaw [][]byte, cfg lab.Cfg,
	acked, invoked, cont []refcar.Block, where map[string]c06Loc) {
	detail := map[string]any{"event": ei, "tear": tear, "phase": phase, "cfg": cfg.String(), "firstgen": d.FirstGen, "image_len": len(img), "acked": len(acked), "invoked": len(invoked)}
	viol := func(sym, format string, a ...any) {
		t.ViolateD(key("cut="+phase+"/"+sym), detail, "[crash in %s, event %d, tear %d] "+format, append([]any{phase, ei, tear}, a...)...)
	}
	if d.API == "storage" && !cfg.V1 && !cfg.NoIdx && strings.HasPrefix(phase, "resume.unfinalize-header") && tear > 0 {
		c06SecondCrash(t, d, viol, img, path, roots, cfg, acked, cont)
	}
	s, err := c06Open(d.API, path, img, false, roots, cfg, false)
	t.Events(1)
	if err != nil {
		t.Cover("reopen:rejected")
		// the failed reopen must not have destroyed acknowledged blocks
		after := img
		if d.API == "blockstore" {
			after = mustRead(path)
		} else if s != nil && s.mf != nil {
			after = s.mf.Bytes()
		}
		for _, b := range acked {
			l, ok := where[blockKey(b)]
			if !ok {
				continue
			}
			want := refcar.EncodeSection(b.Cid, b.Data)
			if uint64(len(after)) < l.end || !bytes.Equal(after[l.off:l.end], want) {
				viol("reopen-rejected/acked-block-destroyed", "reopen failed (%v) and an acknowledged block is no longer intact on disk", err)
				return
			}
		}
		return
	}
	defer s.close()
	t.Cover("reopen:accepted")
	okSet := map[string]bool{}
	for _, b := range invoked {
		okSet[blockKey(b)] = true
	}
	for _, b := range acked {
		has, herr := s.has(b)
		got, gerr := s.get(b)
		t.Events(2)
		if herr != nil || !has {
			viol("resumed/acked-block-missing", "resumed store does not have an acknowledged block: Has = %v, %v", has, herr)
			return
		}
		if gerr != nil || !bytes.Equal(got, b.Data) {
			viol("resumed/acked-block-unreadable", "resumed store returns wrong bytes for an acknowledged block: %d bytes, %v", len(got), gerr)
			return
		}
	}
	if s.bs != nil {
		ch, err := s.bs.AllKeysChan(bg)
		if err == nil {
			inv := lab.KeysOf(invoked, cfg.WholeCID)
			for c := range ch {
				k := string(c.Bytes())
				i := sort.SearchStrings(inv, k)
				if i >= len(inv) || inv[i] != k {
					viol("resumed/lists-block-never-put", "resumed store lists a key that was never put: %s", c)
				}
			}
		}
	}
	// a block that was in flight may be present, but then it must be intact
	for _, b := range invoked {
		if has, _ := s.has(b); has {
			got, gerr := s.get(b)
			if gerr != nil || !bytes.Equal(got, b.Data) {
				viol("resumed/in-flight-block-corrupt", "resumed store reports a block whose Put never returned as present, but cannot return its bytes intact (%d bytes, %v)", len(got), gerr)
				return
			}
		}
	}
	// continue: two more puts and Finalize
	if s.bs != nil && (ei+tear)%2 == 0 {
		// the documented way to carry on after an interruption: the application re-issues everything it
		// had asked for, as ONE batch — blocks already in the file are skipped, the rest is written
		var batch []blocks.Block
		for _, b := range append(append([]refcar.Block{}, invoked...), cont...) {
			batch = append(batch, lab.ToBlock(b))
		}
		if err := s.bs.PutMany(bg, batch); err != nil {
			viol("continued/putmany-error", "PutMany (everything re-issued as one batch) on the resumed store failed: %v", err)
			return
		}
		t.Cover("continued:everything-re-issued-as-one-batch")
	} else {
		for _, b := range cont {
			if err := s.put(b); err != nil {
				viol("continued/put-error", "Put on the resumed store failed: %v", err)
				return
			}
		}
	}
	if err := s.finalize(); err != nil {
		if cfg.NoIdx {
			t.Cover("continued:finalize-refused:without-index")
			return
		}
		viol("continued/finalize-error", "Finalize of the resumed store failed: %v", err)
		return
	}
	file := s.bytes()
	a, err := refcar.Decode(file, false)
	if err != nil {
		viol("continued/final-archive-not-well-formed", "the archive finalized after resuming does not decode: %v", err)
		return
	}
	have := map[string]bool{}
	for _, sec := range a.Payload.Sections {
		b := refcar.Block{Cid: sec.Cid.Raw, Data: sec.Data}
		have[blockKey(b)] = true
		if good, known := refcar.Verifies(sec.Cid, sec.Data); known && !good {
			viol("continued/final-archive-block-does-not-hash", "the finalized archive holds a block whose bytes do not hash to its CID")
			return
		}
		if !okSet[blockKey(b)] && blockKey(b) != blockKey(cont[0]) && blockKey(b) != blockKey(cont[1]) {
			viol("continued/final-archive-unknown-block", "the finalized archive holds a block that was never put: %x (%d bytes)", sec.Cid.Raw, len(sec.Data))
			return
		}
	}
	for _, b := range append(append([]refcar.Block{}, acked...), cont...) {
		if !have[blockKey(b)] {
			viol("continued/final-archive-misses-acked-block", "the finalized archive misses an acknowledged block")
			return
		}
	}
	if !lab.CidsEqual(lab.ToCids(a.Payload.Header.Roots, false), rootsRaw) {
		viol("continued/final-archive-roots", "roots differ")
	}
	if a.Version == 2 && cfg.NoIdx {
		if a.V2.IndexOffset != 0 || a.V2.DataOffset != 51+cfg.DataPad {
			viol("continued/final-archive-header", "header fields of an index-less archive inconsistent: %+v", a.V2)
		}
	} else if a.Version == 2 {
		pi, err := refcar.ParseIndex(a.IndexBytes)
		if err != nil || pi.Size != len(a.IndexBytes) {
			viol("continued/final-archive-index", "index does not parse strictly: %v", err)
		} else if !refcar.RecordsEqual(pi.Records(), refcar.ExpectedIndexRecords(a.Payload, pi.Codec, true)) {
			viol("continued/final-archive-index", "index does not resolve exactly the stored sections")
		}
		if a.V2.DataOffset != 51+cfg.DataPad || a.V2.IndexOffset != a.V2.DataOffset+a.V2.DataSize+cfg.IndexPad {
			viol("continued/final-archive-header", "header fields inconsistent: %+v", a.V2)
		}
	}
	t.Cover("continued-and-finalized")
}

func genC06(g *mon.G) {
	r := gen.Rand(g.Seed)
	cfgs := []lab.Cfg{{}, {DataPad: 9}, {IndexPad: 16}, {Sorted: true, StoreID: true}, {V1: true}, {V1: true, StoreID: true}, {DataPad: 3, IndexPad: 5, ZeroEOF: true}, {WholeCID: true}, {V1: true, DataPad: 1024}}
	gens := []string{"", "", "discarded", "finalized"}
	n := g.Pick(192, 1920)
	for i := 0; i < n; i++ {
		g.Emit(c06Desc{Seed: r.Int63(), API: []string{"blockstore", "storage"}[i%2], Cfg: cfgs[(i/2)%len(cfgs)], FirstGen: gens[(i/16)%len(gens)], AllBytes: g.Thorough() || i%8 == 0})
	}
	// sessions opened WithoutIndex: the library refuses to finalize them (then the session ends with the
	// refusal); if a Finalize of such a session succeeds, its writes are crash points like any other
	for i := 0; i < g.Pick(16, 96); i++ {
		g.Emit(c06Desc{Seed: r.Int63(), API: []string{"blockstore", "storage"}[i%2], Cfg: []lab.Cfg{{NoIdx: true}, {NoIdx: true, DataPad: 9}, {NoIdx: true, DataPad: 300}}[(i/2)%3],
			FirstGen: []string{"", "discarded"}[(i/6)%2], AllBytes: g.Thorough() || i%4 == 0})
	}
	// hook-independence: the hook trace vs the system calls strace sees on an untapped child
	for i := 0; i < g.Pick(12, 80); i++ {
		g.Emit(c06Desc{Seed: r.Int63(), API: "blockstore", Cfg: cfgs[i%len(cfgs)], FirstGen: gens[i%len(gens)], Strace: true})
	}
	// a Finalize in mid-session fails at one of its writes (header, index), the caller carries on
	for i := 0; i < g.Pick(18, 180); i++ {
		cfg := []lab.Cfg{{}, {DataPad: 9}, {IndexPad: 16}, {Sorted: true, StoreID: true}, {WholeCID: true}, {DataPad: 3, IndexPad: 5, ZeroEOF: true}}[i%6]
		g.Emit(c06Desc{Seed: r.Int63(), API: "storage", Cfg: cfg, Puts: 3 + r.Intn(3), FailFin: 1 + i%3, AllBytes: g.Thorough()})
	}
	// large sessions: the index of 25+ blocks exceeds 1 KiB, so its bytes can pass for a data section
	// (0x81 0x08 = a 1025-byte length prefix, followed by what parses as an empty identity CID)
	for i := 0; i < g.Pick(12, 96); i++ {
		api := []string{"blockstore", "storage"}[i%2]
		cfg := []lab.Cfg{{ZeroEOF: true}, {}, {ZeroEOF: true, DataPad: 4}}[(i/2)%3]
		switch (i / 6) % 2 {
		case 0:
			g.Emit(c06Desc{Seed: r.Int63(), API: api, Cfg: cfg, Puts: 26 + r.Intn(14), Sha256: true, AllBytes: g.Thorough()})
		case 1:
			g.Emit(c06Desc{Seed: r.Int63(), API: api, Cfg: cfg, FirstGen: "finalized", Gen1Puts: 26 + r.Intn(14), Puts: 1 + r.Intn(2), Sha256: true, AllBytes: true})
		}
	}
}

func init() {
	Register(&mon.Check{
		ID:          "C06",
		Level:       "fault_enumeration",
		Rule:        "cases = seeded writing sessions (open, 1-5 puts of honest distinct blocks, Finalize) x 8 option configurations x {blockstore.OpenReadWriteFile traced through the verif hooks, storage on a tracing memfile} x {fresh file, resuming a discarded file, resuming a finalized file}, plus large sessions (26-40 sha2-256 blocks, index > 1 KiB, with and without ZeroLengthSectionAsEOF, fresh or resuming a finalized file); the ordered mutation trace with call/ack markers is cut at EVERY event boundary and, within every write, at torn lengths {1, mid, len-1} (quick; every byte for 1 in 8 cases) or every byte (thorough, writes ≤ 600 B); each crash image is reopened with the same roots/options and judged: on error every acknowledged section must still be intact in the file left behind; on success every acknowledged block must be present with exact bytes, nothing that was never put may be listed, in-flight blocks if present must be intact, and after two more puts and Finalize the archive must decode strictly, verify, hold all acknowledged + new blocks and nothing unknown, with exact index and header. counters.crash-images counts images",
		Assumptions: []string{"crash model = prefix of the issued writes with the last write torn (no reordering), as the property states", "trace completeness is checked per session: replaying the trace must reproduce the final file", "hook independence: for 12 (quick) / 80 (thorough) blockstore sessions the hook trace is compared call by call with the pwrite64/ftruncate system calls strace records for the same session in an untapped child process (inconclusive if strace cannot attach)"},
		Gen:         genC06,
		Run:         runC06,
		MinCover: map[string]int{"crash-images": 3000, "sessions-opened-without-index": 10, "failed-finalize:finalize-failed": 10, "cut:inside-or-after-a-failed-finalize": 20, "reopen:accepted": 500, "reopen:rejected": 100, "continued-and-finalized": 500,
			"cut:put.section.data:torn": 50, "cut:put.section.cid:torn": 50, "cut:finalize.index": 50, "cut:finalize.header.fields:torn": 20, "cut:resume.truncate": 5, "cut:resume.unfinalize-header.fields:torn": 5, "cut:open.payload-header:torn": 10, "large-sessions(index > 1 KiB)": 8, "strace:cases": 4},
	})
}
