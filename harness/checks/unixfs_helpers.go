package checks

// Shared helpers of the CLI file-tree checks (C17, C18): a hand-written dag-pb /
// UnixFS encoder (so that hostile shapes no builder would emit can be produced),
// a runner for the `car` binary, and file-tree snapshots with a diff.

import (
	"bytes"
	"context"
	"crypto/sha256"
	"encoding/hex"
	"errors"
	"fmt"
	"io"
	"io/fs"
	"os"
	"os/exec"
	"path/filepath"
	"sort"
	"strings"
	"time"

	"github.com/ipfs/go-cid"
	"github.com/ipfs/go-unixfsnode/data/builder"
	dagpb "github.com/ipld/go-codec-dagpb"
	"github.com/ipld/go-ipld-prime"
	cidlink "github.com/ipld/go-ipld-prime/linking/cid"

	"carlab/internal/refcar"
)

// ---------------------------------------------------------------- protobuf

func pbVarint(dst []byte, v uint64) []byte {
	for v >= 0x80 {
		dst = append(dst, byte(v)|0x80)
		v >>= 7
	}
	return append(dst, byte(v))
}

func pbBytesField(dst []byte, field int, b []byte) []byte {
	dst = pbVarint(dst, uint64(field)<<3|2)
	dst = pbVarint(dst, uint64(len(b)))
	return append(dst, b...)
}

func pbVarintField(dst []byte, field int, v uint64) []byte {
	dst = pbVarint(dst, uint64(field)<<3|0)
	return pbVarint(dst, v)
}

// UnixFS Data.DataType wire numbers.
const (
	ufsRaw       = 0
	ufsDirectory = 1
	ufsFile      = 2
	ufsMetadata  = 3
	ufsSymlink   = 4
	ufsHAMTShard = 5
)

// ufsDataMsg is the UnixFS `Data` protobuf message.
type ufsDataMsg struct {
	Type       uint64
	Data       []byte
	HasData    bool
	FileSize   uint64
	HasSize    bool
	BlockSizes []uint64
	HashType   uint64
	Fanout     uint64
	HasHamt    bool
	Mtime      int64 // UnixFS 1.5 optional metadata: seconds since the epoch (field 8), with a mode (field 7)
	HasMtime   bool
}

func (m ufsDataMsg) encode() []byte {
	out := pbVarintField(nil, 1, m.Type)
	if m.HasData {
		out = pbBytesField(out, 2, m.Data)
	}
	if m.HasSize {
		out = pbVarintField(out, 3, m.FileSize)
	}
	for _, b := range m.BlockSizes {
		out = pbVarintField(out, 4, b)
	}
	if m.HasHamt {
		out = pbVarintField(out, 5, m.HashType)
		out = pbVarintField(out, 6, m.Fanout)
	}
	if m.HasMtime {
		out = pbVarintField(out, 7, 0o644)
		out = pbBytesField(out, 8, pbVarintField(nil, 1, uint64(m.Mtime)))
	}
	return out
}

// pbLinkSpec is one dag-pb link; NoName omits the Name field altogether.
type pbLinkSpec struct {
	Hash   []byte
	Name   string
	NoName bool
	Tsize  uint64
}

// encodePBNode renders a dag-pb node with the links in exactly the given order
// (no sorting, repeated names allowed). A nil data omits the Data field.
func encodePBNode(links []pbLinkSpec, data []byte) []byte {
	var out []byte
	for _, l := range links {
		lb := pbBytesField(nil, 1, l.Hash)
		if !l.NoName {
			lb = pbBytesField(lb, 2, []byte(l.Name))
		}
		lb = pbVarintField(lb, 3, l.Tsize)
		out = pbBytesField(out, 2, lb)
	}
	if data != nil {
		out = pbBytesField(out, 1, data)
	}
	return out
}

// ---------------------------------------------------------------- block collector

// dagB collects the blocks of a DAG in creation order.
type dagB struct {
	blocks []refcar.Block
	seen   map[string]int
}

func newDagB() *dagB { return &dagB{seen: map[string]int{}} }

func cidFor(codec uint64, data []byte) []byte {
	d := sha256.Sum256(data)
	return refcar.MakeCidV1(codec, 0x12, d[:])
}

// put stores a block under its honest sha2-256 CIDv1 and returns the CID bytes.
func (b *dagB) put(codec uint64, data []byte) []byte {
	c := cidFor(codec, data)
	if _, ok := b.seen[string(c)]; !ok {
		b.seen[string(c)] = len(b.blocks)
		b.blocks = append(b.blocks, refcar.Block{Cid: c, Data: data})
	}
	return c
}

func (b *dagB) putPB(data []byte) []byte  { return b.put(0x70, data) }
func (b *dagB) putRaw(data []byte) []byte { return b.put(0x55, data) }

// drop removes a block again (missing-block cases).
func (b *dagB) drop(c []byte) {
	i, ok := b.seen[string(c)]
	if !ok {
		return
	}
	b.blocks = append(b.blocks[:i:i], b.blocks[i+1:]...)
	delete(b.seen, string(c))
	for k, v := range b.seen {
		if v > i {
			b.seen[k] = v - 1
		}
	}
}

// linkSystem lets go-unixfsnode's builders store into the collector.
func (b *dagB) linkSystem() *ipld.LinkSystem {
	ls := cidlink.DefaultLinkSystem()
	ls.TrustedStorage = true
	ls.StorageWriteOpener = func(ipld.LinkContext) (io.Writer, ipld.BlockWriteCommitter, error) {
		buf := &bytes.Buffer{}
		return buf, func(l ipld.Link) error {
			c := l.(cidlink.Link).Cid.Bytes()
			if _, ok := b.seen[string(c)]; !ok {
				b.seen[string(c)] = len(b.blocks)
				b.blocks = append(b.blocks, refcar.Block{Cid: c, Data: append([]byte{}, buf.Bytes()...)})
			}
			return nil
		}, nil
	}
	ls.StorageReadOpener = func(_ ipld.LinkContext, l ipld.Link) (io.Reader, error) {
		c := l.(cidlink.Link).Cid.Bytes()
		i, ok := b.seen[string(c)]
		if !ok {
			return nil, fmt.Errorf("not found")
		}
		return bytes.NewReader(b.blocks[i].Data), nil
	}
	return &ls
}

// builderEntry converts (name, cid) to the builder's link type.
func builderEntry(name string, c []byte) (dagpb.PBLink, error) {
	cc, err := cid.Cast(c)
	if err != nil {
		return nil, err
	}
	return builder.BuildUnixFSDirectoryEntry(name, 1, cidlink.Link{Cid: cc})
}

// ---------------------------------------------------------------- running the CLI

type carRun struct {
	Args     []string
	Exit     int
	Stdout   []byte
	Stderr   string
	TimedOut bool
	StartErr error
}

func carBinary() string {
	if d := os.Getenv("VERIF_BIN"); d != "" {
		return filepath.Join(d, "car")
	}
	return "/verif/bin/car"
}

// runCar runs the car CLI in dir with the given stdin under a watchdog. The
// watchdog only ever produces "inconclusive".
func runCar(dir string, stdin []byte, timeout time.Duration, args ...string) carRun {
	if stdin != nil {
		return runCarIO(dir, bytes.NewReader(stdin), timeout, args...) // a pipe
	}
	return runCarIO(dir, nil, timeout, args...)
}

// runCarIO is runCar with an arbitrary stdin: an *os.File is handed to the child
// as is (shell redirection `< file`), any other reader is fed through a pipe.
func runCarIO(dir string, stdin io.Reader, timeout time.Duration, args ...string) carRun {
	return runCarEnv(dir, nil, stdin, timeout, args...)
}

// runCarEnv is runCarIO with extra environment variables (TMPDIR inside a sandbox, say).
func runCarEnv(dir string, env []string, stdin io.Reader, timeout time.Duration, args ...string) carRun {
	ctx, cancel := context.WithTimeout(context.Background(), timeout)
	defer cancel()
	cmd := exec.CommandContext(ctx, carBinary(), args...)
	cmd.Dir = dir
	if env != nil {
		cmd.Env = append(os.Environ(), env...)
	}
	if stdin != nil {
		cmd.Stdin = stdin
	}
	var so, se bytes.Buffer
	cmd.Stdout = &so
	cmd.Stderr = &se
	cmd.WaitDelay = 5 * time.Second
	err := cmd.Run()
	r := carRun{Args: args, Stdout: so.Bytes(), Stderr: se.String()}
	if ctx.Err() != nil {
		r.TimedOut = true
		return r
	}
	if err != nil {
		var ee *exec.ExitError
		if errors.As(err, &ee) {
			r.Exit = ee.ExitCode()
		} else {
			r.StartErr = err
		}
	}
	if len(r.Stderr) > 600 {
		r.Stderr = r.Stderr[:600] + "…"
	}
	return r
}

// ---------------------------------------------------------------- snapshots

type snapEnt struct {
	Type   string `json:"type"` // file | dir | symlink | other
	Size   int64  `json:"size,omitempty"`
	Sha    string `json:"sha256,omitempty"`
	Target string `json:"target,omitempty"`
	Mode   uint32 `json:"mode"`
	Mtime  int64  `json:"mtime,omitempty"` // files and symlinks only (a directory's changes with its entries)
}

// snapshotTree records every entry below root (root itself as "."), never
// following symbolic links. Paths in exclude (absolute) are skipped with
// everything below them.
func snapshotTree(root string, exclude ...string) (map[string]snapEnt, error) {
	out := map[string]snapEnt{}
	skip := map[string]bool{}
	for _, e := range exclude {
		skip[filepath.Clean(e)] = true
	}
	err := filepath.WalkDir(root, func(p string, d fs.DirEntry, err error) error {
		if err != nil {
			return err
		}
		if skip[p] {
			if d.IsDir() {
				return filepath.SkipDir
			}
			return nil
		}
		rel, _ := filepath.Rel(root, p)
		info, err := os.Lstat(p)
		if err != nil {
			return err
		}
		e := snapEnt{Mode: uint32(info.Mode().Perm())}
		if !info.IsDir() {
			e.Mtime = info.ModTime().UnixNano()
		}
		switch {
		case info.Mode()&os.ModeSymlink != 0:
			e.Type = "symlink"
			e.Target, err = os.Readlink(p)
			if err != nil {
				return err
			}
		case info.IsDir():
			e.Type = "dir"
		case info.Mode().IsRegular():
			e.Type = "file"
			e.Size = info.Size()
			f, err := os.Open(p)
			if err != nil {
				return err
			}
			h := sha256.New()
			_, err = io.Copy(h, f)
			f.Close()
			if err != nil {
				return err
			}
			e.Sha = hex.EncodeToString(h.Sum(nil))
		default:
			e.Type = "other"
		}
		out[rel] = e
		return nil
	})
	return out, err
}

type snapDiff struct {
	Path   string   `json:"path"`
	Change string   `json:"change"` // created | deleted | content-changed | type-changed | target-changed | mode-changed
	Before *snapEnt `json:"before,omitempty"`
	After  *snapEnt `json:"after,omitempty"`
}

// diffSnapshots lists the differences; withModes also compares permission bits.
func diffSnapshots(before, after map[string]snapEnt, withModes bool) []snapDiff {
	var out []snapDiff
	for p, b := range before {
		b := b
		a, ok := after[p]
		if !ok {
			out = append(out, snapDiff{Path: p, Change: "deleted", Before: &b})
			continue
		}
		ch := ""
		switch {
		case a.Type != b.Type:
			ch = "type-changed"
		case a.Type == "file" && (a.Size != b.Size || a.Sha != b.Sha):
			ch = "content-changed"
		case a.Type == "symlink" && a.Target != b.Target:
			ch = "target-changed"
		case withModes && a.Mode != b.Mode:
			ch = "mode-changed"
		case withModes && a.Mtime != b.Mtime:
			ch = "mtime-changed"
		}
		if ch != "" {
			out = append(out, snapDiff{Path: p, Change: ch, Before: &b, After: &a})
		}
	}
	for p, a := range after {
		a := a
		if _, ok := before[p]; !ok {
			out = append(out, snapDiff{Path: p, Change: "created", After: &a})
		}
	}
	sort.Slice(out, func(i, j int) bool { return out[i].Path < out[j].Path })
	return out
}

// listing renders a snapshot compactly (for samples and details).
func listing(s map[string]snapEnt, max int) []string {
	keys := make([]string, 0, len(s))
	for k := range s {
		keys = append(keys, k)
	}
	sort.Strings(keys)
	var out []string
	for _, k := range keys {
		if k == "." {
			continue
		}
		e := s[k]
		name := k
		if len(name) > 80 {
			name = name[:40] + "…" + name[len(name)-20:]
		}
		switch e.Type {
		case "file":
			out = append(out, fmt.Sprintf("%q file %d bytes", name, e.Size))
		case "symlink":
			t := e.Target
			if len(t) > 60 {
				t = t[:60] + "…"
			}
			out = append(out, fmt.Sprintf("%q -> %q", name, t))
		default:
			out = append(out, fmt.Sprintf("%q %s", name, e.Type))
		}
		if len(out) >= max {
			out = append(out, fmt.Sprintf("… (%d entries in total)", len(keys)-1))
			break
		}
	}
	return out
}

func quoteArgs(a []string) string {
	q := make([]string, len(a))
	for i, s := range a {
		if len(s) > 120 {
			s = s[:120] + "…"
		}
		q[i] = fmt.Sprintf("%q", s)
	}
	return strings.Join(q, " ")
}

// keyPart makes a label usable inside a finding key: KNOWN_FINDINGS.txt lines are
// split on white space, so a key must not contain any.
func keyPart(s string) string {
	s = strings.ReplaceAll(s, ", ", ",")
	return strings.ReplaceAll(s, " ", "-")
}
