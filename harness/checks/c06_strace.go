package checks

import (
	"bufio"
	"bytes"
	"context"
	"encoding/json"
	"fmt"
	"os"
	"os/exec"
	"path/filepath"
	"regexp"
	"strconv"
	"strings"
	"time"

	"github.com/ipld/go-car/v2/blockstore"

	"carlab/internal/iofault"
	"carlab/internal/lab"
	"carlab/internal/mon"
)

// Hook-independence cross-check for C06: the mutation trace that the `verif` hooks report for a
// blockstore session must be exactly the sequence of pwrite64/ftruncate system calls the kernel
// sees for that file when the same session runs in an UNTAPPED child process under strace.
// A difference means the hooks miss (or invent) a mutation, i.e. the crash images of C06 would not
// be prefixes of the real write order. If strace cannot run, the sub-check is inconclusive.

func c06SessionChild(args []string) int {
	var d c06Desc
	if len(args) < 2 || json.Unmarshal([]byte(args[0]), &d) != nil {
		return 2
	}
	path := args[1]
	_, sess, _, _ := c06Plan(d)
	gen1, _, _, _ := c06Plan(d)
	roots := lab.ToCids([][]byte{gen1[0].Cid}, false)
	bs, err := blockstore.OpenReadWrite(path, roots, d.Cfg.Opts()...)
	if err != nil {
		fmt.Println("open:", err)
		return 3
	}
	for _, b := range sess {
		if err := bs.Put(bg, lab.ToBlock(b)); err != nil {
			fmt.Println("put:", err)
			return 3
		}
	}
	if err := bs.Finalize(); err != nil {
		fmt.Println("finalize:", err)
		return 3
	}
	return 0
}

func init() { childKinds["c06sess"] = c06SessionChild }

var (
	stOpenRe       = regexp.MustCompile(`openat\(AT_FDCWD, "([^"]*)", ([A-Z_|]+)(?:, [0-7]+)?\)\s+= (\d+)`)
	stWriteRe      = regexp.MustCompile(`pwrite64\((\d+), .*?, (\d+), (\d+)\)\s+= (-?\d+)`)
	stTruncRe      = regexp.MustCompile(`ftruncate\((\d+), (\d+)\)\s+= (-?\d+)`)
	stUnfinishedRe = regexp.MustCompile(`^(\d+)\s+(.*) <unfinished \.\.\.>\s*$`)
	stResumedRe    = regexp.MustCompile(`^(\d+)\s+<\.\.\. \w+ resumed>(.*)$`)
	stCloseRe      = regexp.MustCompile(`close\((\d+)\)\s+= 0`)
)

type mutation struct {
	kind string // w | t
	off  int64
	n    int64
}

func (m mutation) String() string {
	if m.kind == "t" {
		return fmt.Sprintf("truncate(%d)", m.off)
	}
	return fmt.Sprintf("pwrite(off=%d,len=%d)", m.off, m.n)
}

func runC06Strace(t *mon.T, d c06Desc) {
	dir := lab.TempDir("c06st")
	defer os.RemoveAll(dir)
	gen1, sess, _, _ := c06Plan(d)
	rootsRaw := [][]byte{gen1[0].Cid}
	roots := lab.ToCids(rootsRaw, false)
	label := "blockstore(strace cross-check)"
	t.Cover("strace:cases")

	// first generation, if any
	var initial []byte
	if d.FirstGen != "" {
		p0 := filepath.Join(dir, "g1.car")
		s, err := c06Open("blockstore", p0, nil, true, roots, d.Cfg, false)
		if err != nil {
			t.Violatef(label+"/firstgen/error", "%v", err)
			return
		}
		for _, b := range gen1 {
			_ = s.put(b)
		}
		if d.FirstGen == "finalized" {
			_ = s.finalize()
		} else {
			s.discard()
		}
		initial = s.bytes()
		s.close()
	}

	// (1) the hook trace of the session, in process
	p1 := filepath.Join(dir, "hooked.car")
	s, err := c06Open("blockstore", p1, initial, d.FirstGen == "", roots, d.Cfg, true)
	if err != nil {
		t.Violatef(label+"/open/error", "%v", err)
		return
	}
	for _, b := range sess {
		if err := s.put(b); err != nil {
			t.Violatef(label+"/put/error", "%v", err)
			s.close()
			return
		}
	}
	if err := s.finalize(); err != nil {
		t.Violatef(label+"/finalize/error", "%v", err)
		s.close()
		return
	}
	var hook []mutation
	for _, e := range s.events() {
		switch e.Kind {
		case iofault.KWriteAt, iofault.KWrite:
			if len(e.Data) == 0 {
				continue // a zero-length write (empty block data) mutates nothing and issues no system call
			}
			hook = append(hook, mutation{"w", e.Off, int64(len(e.Data))})
		case iofault.KTruncate:
			hook = append(hook, mutation{"t", e.Size, 0})
		}
	}
	hookedFile := s.bytes()
	s.close()

	// (2) the same session in an untapped child under strace
	p2 := filepath.Join(dir, "straced.car")
	if initial != nil {
		mustWrite(p2, initial)
	}
	exe, _ := os.Executable()
	raw, _ := json.Marshal(d)
	stOut := filepath.Join(dir, "strace.out")
	ctx, cancel := context.WithTimeout(context.Background(), 3*time.Minute)
	defer cancel()
	cmd := exec.CommandContext(ctx, "strace", "-f", "-e", "trace=openat,pwrite64,write,ftruncate,close", "-s", "0", "-o", stOut, exe, "child", "c06sess", string(raw), p2)
	var stderr bytes.Buffer
	cmd.Stdout, cmd.Stderr = &stderr, &stderr
	runErr := cmd.Run()
	if ctx.Err() != nil {
		t.Inconclusive("strace cross-check: wall-clock watchdog fired")
		return
	}
	if _, err := os.Stat(stOut); err != nil || (runErr != nil && strings.Contains(stderr.String(), "ptrace")) {
		t.Inconclusive("strace cross-check: strace unavailable (%v %s)", runErr, mon.Trunc(stderr.String(), 200))
		return
	}
	if runErr != nil {
		t.ViolateD(label+"/child-failed", mon.Trunc(stderr.String(), 2000), "the untapped session failed: %v", runErr)
		return
	}
	// parse: follow the descriptor(s) opened on p2
	fds := map[string]bool{}
	var sys []mutation
	f, _ := os.Open(stOut)
	sc := bufio.NewScanner(f)
	sc.Buffer(make([]byte, 1<<20), 1<<24)
	pending := map[string]string{} // pid -> the first half of a call that strace printed as "<unfinished ...>"
	for sc.Scan() {
		line := sc.Text()
		// with -f, a call of one thread can be printed in two pieces around lines of other threads:
		//   123 pwrite64(3, ""..., 16, 11 <unfinished ...>   ...   123 <... pwrite64 resumed>) = 16
		// the session itself is sequential, so joining the pieces at the "resumed" line keeps its order
		if m := stUnfinishedRe.FindStringSubmatch(line); m != nil {
			pending[m[1]] = m[2]
			continue
		}
		if m := stResumedRe.FindStringSubmatch(line); m != nil {
			if head, ok := pending[m[1]]; ok {
				delete(pending, m[1])
				line = m[1] + " " + head + m[2]
			}
		}
		if m := stOpenRe.FindStringSubmatch(line); m != nil {
			if m[1] == p2 {
				fds[m[3]] = true
			} else {
				delete(fds, m[3]) // descriptor number reused for another file
			}
			continue
		}
		if m := stCloseRe.FindStringSubmatch(line); m != nil {
			delete(fds, m[1])
			continue
		}
		if m := stWriteRe.FindStringSubmatch(line); m != nil && fds[m[1]] {
			n, _ := strconv.ParseInt(m[4], 10, 64)
			off, _ := strconv.ParseInt(m[3], 10, 64)
			sys = append(sys, mutation{"w", off, n})
			continue
		}
		if m := stTruncRe.FindStringSubmatch(line); m != nil && fds[m[1]] {
			sz, _ := strconv.ParseInt(m[2], 10, 64)
			sys = append(sys, mutation{"t", sz, 0})
		}
		if strings.Contains(line, " write(") {
			for fd := range fds {
				if strings.Contains(line, " write("+fd+",") {
					sys = append(sys, mutation{"w", -1, -1}) // a sequential write on the CAR's descriptor: the hooks know none
				}
			}
		}
	}
	f.Close()
	t.Events(len(sys))
	if len(sys) == 0 {
		t.Inconclusive("strace cross-check: no system call on the CAR file was captured")
		return
	}
	same := len(sys) == len(hook)
	if same {
		for i := range sys {
			if sys[i] != hook[i] {
				same = false
			}
		}
	}
	if !same {
		var a, b []string
		for _, m := range hook {
			a = append(a, m.String())
		}
		for _, m := range sys {
			b = append(b, m.String())
		}
		t.ViolateD("harness/hook-trace-differs-from-syscall-trace", map[string]any{"hook_trace": a, "syscall_trace": b, "desc": d},
			"the verif hooks reported %d mutations, the kernel saw %d on the same session: the hook trace is not the real write order", len(hook), len(sys))
		return
	}
	if !bytes.Equal(mustRead(p2), hookedFile) {
		t.Violatef("harness/hooked-and-untapped-files-differ", "the tapped and the untapped run of the same session produced different files")
		return
	}
	t.Cover("strace:traces-identical")
	t.CoverN("strace:syscalls-compared", len(sys))
	t.Nontrivial()
	t.Sample(map[string]any{"kind": "strace cross-check", "cfg": d.Cfg.String(), "firstgen": d.FirstGen, "mutations": len(sys), "first": fmt.Sprint(sys[:min(6, len(sys))])})
}
