package checks

import (
	"bytes"
	"context"
	"encoding/json"
	"fmt"
	"os"
	"os/exec"
	"os/signal"
	"path/filepath"
	"syscall"
	"time"

	"github.com/ipld/go-car/v2/blockstore"

	"carlab/internal/gen"
	"carlab/internal/lab"
	"carlab/internal/mon"
	"carlab/internal/refcar"
)

// Hook-independent cross-check of C16: the fault is produced by the KERNEL. A child process
// (no verif tap installed) lowers its soft RLIMIT_FSIZE to "current file size + k" around one
// Put on a blockstore.ReadWrite backed by a real file, with SIGXFSZ ignored: the write that
// crosses the limit is cut short / fails with EFBIG exactly as on a full disk. The parent then
// applies the same oracle as the hooked sessions.

type c16KDesc struct {
	Seed    int64   `json:"seed"`
	Cfg     lab.Cfg `json:"cfg"`
	FaultAt int     `json:"fault_at"` // index of the Put during which the limit is lowered
	K       int     `json:"k"`        // bytes still writable past the current end of file
	Retry   bool    `json:"retry"`
}

type c16KResult struct {
	PutErr    []string `json:"put_err"` // "" = nil
	HasAfter  string   `json:"has_after"`
	RetryErr  string   `json:"retry_err,omitempty"`
	FinErr    string   `json:"fin_err"`
	LimitHit  bool     `json:"limit_hit"`
	SizeAtLow int64    `json:"size_at_low"`
}

func c16KBlocks(d c16KDesc) ([][]byte, []refcar.Block) {
	r := gen.Rand(d.Seed)
	content := gen.MakeContent(r, gen.ContentOpts{MinBlocks: 2, MaxBlocks: 5, MinRoots: 1, MaxRoots: 1, Block: gen.BlockOpts{MaxSize: 300, NoIdentity: true}})
	return content.Roots, content.Blocks
}

func c16KChild(args []string) int {
	var d c16KDesc
	if len(args) < 3 || json.Unmarshal([]byte(args[0]), &d) != nil {
		return 2
	}
	path, out := args[1], args[2]
	signal.Ignore(syscall.SIGXFSZ)
	roots, blks := c16KBlocks(d)
	res := c16KResult{}
	bs, err := blockstore.OpenReadWrite(path, lab.ToCids(roots, false), d.Cfg.Opts()...)
	if err != nil {
		fmt.Println("open:", err)
		return 2
	}
	es := func(err error) string {
		if err == nil {
			return ""
		}
		return err.Error()
	}
	var old syscall.Rlimit
	_ = syscall.Getrlimit(syscall.RLIMIT_FSIZE, &old)
	for i, b := range blks {
		if i == d.FaultAt%len(blks) {
			st, _ := os.Stat(path)
			res.SizeAtLow = st.Size()
			low := syscall.Rlimit{Cur: uint64(st.Size()) + uint64(d.K), Max: old.Max}
			if err := syscall.Setrlimit(syscall.RLIMIT_FSIZE, &low); err != nil {
				fmt.Println("setrlimit:", err)
				return 2
			}
			perr := bs.Put(context.Background(), lab.ToBlock(b))
			_ = syscall.Setrlimit(syscall.RLIMIT_FSIZE, &old)
			res.PutErr = append(res.PutErr, es(perr))
			res.LimitHit = perr != nil
			has, herr := bs.Has(context.Background(), lab.ToCid(b.Cid))
			res.HasAfter = fmt.Sprintf("%v/%s", has, es(herr))
			if perr != nil && d.Retry {
				rerr := bs.Put(context.Background(), lab.ToBlock(b))
				res.RetryErr = "retry:" + es(rerr)
			}
			continue
		}
		res.PutErr = append(res.PutErr, es(bs.Put(context.Background(), lab.ToBlock(b))))
	}
	res.FinErr = es(bs.Finalize())
	bts, _ := json.Marshal(res)
	if err := os.WriteFile(out, bts, 0o644); err != nil {
		return 2
	}
	return 0
}

func init() { childKinds["c16fs"] = c16KChild }

func runC16Kernel(t *mon.T, raw json.RawMessage) {
	var d c16KDesc
	if err := json.Unmarshal(raw, &d); err != nil {
		panic(err)
	}
	dir := lab.TempDir("c16k")
	defer os.RemoveAll(dir)
	path, out := filepath.Join(dir, "k.car"), filepath.Join(dir, "res.json")
	exe, _ := os.Executable()
	ctx, cancel := context.WithTimeout(context.Background(), 2*time.Minute)
	defer cancel()
	cmd := exec.CommandContext(ctx, exe, "child", "c16fs", string(raw), path, out)
	var stderr bytes.Buffer
	cmd.Stdout, cmd.Stderr = &stderr, &stderr
	err := cmd.Run()
	if ctx.Err() != nil {
		t.Inconclusive("kernel-fault child: wall-clock watchdog fired")
		return
	}
	b, rerr := os.ReadFile(out)
	if err != nil || rerr != nil {
		t.ViolateD("blockstore(kernel RLIMIT_FSIZE)/child-died", mon.Trunc(stderr.String(), 4000), "child failed: %v", err)
		return
	}
	var res c16KResult
	if json.Unmarshal(b, &res) != nil {
		t.Violatef("harness/result-unreadable", "cannot parse child result")
		return
	}
	t.Nontrivial()
	t.Cover("target:blockstore(kernel RLIMIT_FSIZE)")
	roots, blks := c16KBlocks(d)
	label := "blockstore(kernel RLIMIT_FSIZE)"
	detail := map[string]any{"desc": d, "result": res}
	viol := func(key, format string, a ...any) { t.ViolateD(label+"/"+key, detail, format, a...) }
	fi := d.FaultAt % len(blks)
	if !res.LimitHit {
		t.Cover("kernel:limit-not-reached") // k was large enough for the whole section
	} else {
		t.Cover("kernel:put-failed-by-kernel")
	}
	// acknowledged set
	m := &lab.Model{Cfg: d.Cfg}
	laterFailed := false
	for i, b := range blks {
		if i >= len(res.PutErr) {
			break
		}
		ok := res.PutErr[i] == ""
		if i == fi && !ok && res.RetryErr == "retry:" {
			ok = true
		}
		if ok {
			m.Put(b)
		} else if i != fi {
			laterFailed = true
		}
	}
	if res.LimitHit {
		// the failed block must not be reported as stored right after the failure
		if res.HasAfter == "true/" {
			viol("put.failed/reported-as-stored", "Put failed under the file-size limit but Has reports the block as stored")
		}
		if res.RetryErr != "" && res.RetryErr != "retry:" {
			laterFailed = true
		}
	}
	if res.FinErr != "" {
		laterFailed = true
	}
	t.Events(1)
	if laterFailed {
		t.Cover("second-clause-vacuous")
		return
	}
	file := mustRead(path)
	a, derr := refcar.Decode(file, false)
	if derr != nil {
		viol("final-archive/not-well-formed", "every call after the kernel-made fault succeeded, but the finalized archive does not decode: %v", derr)
		return
	}
	var got []refcar.Block
	for _, s := range a.Payload.Sections {
		got = append(got, refcar.Block{Cid: s.Cid.Raw, Data: s.Data})
	}
	if !seqEqual(got, m.Sections) {
		viol("final-archive/blocks-differ-from-acknowledged", "finalized archive holds %d blocks, acknowledged were %d", len(got), len(m.Sections))
		return
	}
	if !lab.CidsEqual(lab.ToCids(a.Payload.Header.Roots, false), roots) {
		viol("final-archive/roots", "roots differ")
	}
	if a.Version == 2 {
		pi, perr := refcar.ParseIndex(a.IndexBytes)
		if perr != nil || pi.Size != len(a.IndexBytes) || !refcar.RecordsEqual(pi.Records(), refcar.ExpectedIndexRecords(a.Payload, pi.Codec, true)) {
			viol("final-archive/index", "index does not resolve exactly the stored sections (%v)", perr)
		}
	}
	if res.LimitHit {
		t.Cover("kernel:archives-judged-after-fault")
	}
	t.Sample(map[string]any{"target": label, "cfg": d.Cfg.String(), "fault_at_put": fi, "bytes_writable_past_eof": d.K, "size_when_limited": res.SizeAtLow, "put_errors": res.PutErr})
}
