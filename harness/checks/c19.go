package checks

// C19 — CLI outputs are valid archives and mean what the library says.
//
// The real `car` binary (built from the working tree, $VERIF_BIN/car) is run as
// a child process on generated valid archives; every emitted archive / index /
// listing is judged by (1) the acceptance oracle: `car inspect --full` and,
// when every root is among the blocks, `car verify`; (2) the content oracle:
// reference decode (refcar) of input and output compared with the expectation
// the property states for the sub-command.

import (
	"bytes"
	"encoding/hex"
	"encoding/json"
	"fmt"
	"hash/fnv"
	"math/rand"
	"os"
	"path/filepath"
	"sort"
	"strconv"
	"strings"

	"carlab/internal/gen"
	"carlab/internal/lab"
	"carlab/internal/mon"
	"carlab/internal/refcar"
)

type c19Desc struct {
	Seed      int64  `json:"seed"`
	Form      string `json:"form"`                 // command form (see c19Forms)
	Cont      string `json:"cont"`                 // container class of the (first) input
	RootsIn   bool   `json:"roots_in,omitempty"`   // every root of the generated input is one of its blocks
	ZeroRoots bool   `json:"zero_roots,omitempty"` // header with an empty / null root list
	Dag       string `json:"dag,omitempty"`        // get-dag: dag-cbor | dag-cbor with absent link | unixfs
	Big       int    `json:"big,omitempty"`        // > 0: an input of that many tiny blocks
}

const (
	c19V1         = "CARv1"
	c19V2Mh       = "CARv2 multihash-sorted index"
	c19V2Sorted   = "CARv2 sorted index"
	c19V2Padded   = "CARv2 padded"
	c19V2NoIdx    = "CARv2 index-less"
	c19V2PadNoIdx = "CARv2 padded index-less"

	c19DagCbor   = "dag-cbor DAG"
	c19DagAbsent = "dag-cbor DAG with absent link"
	c19DagUnixfs = "unixfs DAG from car create"

	c19SelAll  = `{"R":{"l":{"none":{}},":>":{"a":{">":{"@":{}}}}}}` // explore all recursively
	c19SelRoot = `{".":{}}`                                          // match the root node only
)

const c19ListPipe = "list (archive on a stdin pipe)"

var c19Containers = []string{c19V1, c19V2Mh, c19V2Sorted, c19V2Padded, c19V2NoIdx, c19V2PadNoIdx}

// command forms run on every generated plain archive
var c19PlainForms = []string{
	"index", "index --codec car-index-sorted", "index --codec car-multihash-index-sorted", "index --codec none", "index --version 1",
	"index create", "index --codec car-index-sorted create",
	"detach-index",
	"filter", "filter --inverse", "filter --version 1", "filter --inverse --version 1", "filter --append",
	"get-block", "list", "list --verbose", c19ListPipe, "root",
	"concat --version 1", "concat --version 2",
}

var c19DagForms = []string{
	"get-dag", "get-dag --version 1", "get-dag --selector explore-all", "get-dag --selector explore-all --version 1",
	"get-dag --selector match-root", "get-dag --selector match-root --version 1",
	"get-dag --selector depth3", "get-dag --selector depth5", "get-dag --selector depth5 --version 1", "get-dag --selector depth7",
}

var c19CreateForms = []string{"create", "create --version 1", "create --no-wrap"}

// ---------------------------------------------------------------- inputs

type c19In struct {
	file   []byte
	arch   *refcar.Archive
	blocks []refcar.Block
	roots  [][]byte
}

// c19Class is the input class used in finding keys: the container version and
// whether it carries an index (padding and index codec are in the details).
func c19Class(cont string) string {
	switch cont {
	case c19V1:
		return "CARv1"
	case c19V2NoIdx, c19V2PadNoIdx:
		return "index-less CARv2"
	case c19V2Mh, c19V2Sorted, c19V2Padded:
		return "indexed CARv2"
	}
	return cont
}

func c19Hash(s string) int64 {
	h := fnv.New64a()
	h.Write([]byte(s))
	return int64(h.Sum64() >> 1)
}

func c19Render(r *rand.Rand, cont string, roots [][]byte, nilRoots bool, blocks []refcar.Block) []byte {
	payload := refcar.EncodeV1(roots, nilRoots, blocks)
	if cont == c19V1 {
		return payload
	}
	p, err := refcar.DecodeV1(payload, false)
	if err != nil {
		panic(fmt.Sprintf("reference cannot decode its own payload: %v", err))
	}
	mk := func(codec uint64) []byte {
		return refcar.BuildIndex(codec, refcar.ExpectedIndexRecords(p, codec, false))
	}
	var o refcar.V2Opts
	switch cont {
	case c19V2Mh:
		o.Index = mk(refcar.CodecMhIndexSorted)
	case c19V2Sorted:
		o.Index = mk(refcar.CodecIndexSorted)
	case c19V2Padded:
		o.Index = mk([]uint64{refcar.CodecMhIndexSorted, refcar.CodecIndexSorted}[r.Intn(2)])
		o.DataPadding = uint64(1 + r.Intn(200))
		o.IndexPadding = uint64(r.Intn(40))
	case c19V2NoIdx:
	case c19V2PadNoIdx:
		o.DataPadding = uint64(1 + r.Intn(200))
	default:
		panic("unknown container class " + cont)
	}
	return refcar.EncodeV2(payload, o)
}

func c19Decode(file []byte) *c19In {
	a, err := refcar.Decode(file, false)
	if err != nil {
		panic(fmt.Sprintf("reference cannot decode its own archive: %v", err))
	}
	in := &c19In{file: file, arch: a, roots: a.Payload.Header.Roots}
	for _, s := range a.Payload.Sections {
		in.blocks = append(in.blocks, refcar.Block{Cid: s.Cid.Raw, Data: s.Data})
	}
	return in
}

func (in *c19In) payload() []byte {
	return in.file[in.arch.PayloadOff : in.arch.PayloadOff+in.arch.PayloadLen]
}

// c19Plain draws a plain archive: honest blocks of the hash functions the stock
// CLI knows, with identity blocks, duplicates and equal-multihash twins.
func c19Plain(seed int64, cont string, rootsIn, zeroRoots bool) *c19In {
	r := gen.Rand(seed)
	o := gen.ContentOpts{
		Block:     gen.BlockOpts{CoreOnly: true, MaxSize: 300},
		MinBlocks: 1, MaxBlocks: 12, MinRoots: 1, MaxRoots: 3, Dups: true, RootsFromBlocks: rootsIn,
	}
	if zeroRoots {
		o.MinRoots, o.MaxRoots = 0, 0
	}
	c := gen.MakeContent(r, o)
	if r.Intn(4) == 0 {
		c.Blocks = append(c.Blocks, gen.BoundaryBlock(r, []int{127, 128, 129, 300, 16383, 16384}[r.Intn(6)]))
	}
	if !rootsIn && !zeroRoots && r.Intn(8) == 0 {
		c.Blocks = nil // a header and nothing else: roots, no sections
	}
	return c19Decode(c19Render(r, cont, c.Roots, c.NilRoots, c.Blocks))
}

// c19BigInput: thousands of tiny honest blocks (more than any batch size a command might use).
func c19BigInput(seed int64, cont string, n int) *c19In {
	r := gen.Rand(seed)
	var blks []refcar.Block
	for i := 0; i < n; i++ {
		data := []byte{byte(i), byte(i >> 8), byte(i >> 16), byte(seed)}
		h, _ := refcar.Hash(0x12, data)
		blks = append(blks, refcar.Block{Cid: refcar.MakeCidV1(0x55, 0x12, h), Data: data})
	}
	return c19Decode(c19Render(r, cont, [][]byte{blks[0].Cid, blks[n-1].Cid}, false, blks))
}

// ---------------------------------------------------------------- case environment

type c19Env struct {
	t     *mon.T
	d     c19Desc
	dir   string
	r     *rand.Rand     // form-specific choices (the archive has its own PRNG)
	cls   string         // input class label used in finding keys
	cmd   []string       // argv lines of the commands run, for details
	notes map[string]any // further case facts for details (stdin contents, selections)
	stale bool           // the output path held a larger stale file before the command ran
}

func (e *c19Env) path(name string) string { return filepath.Join(e.dir, name) }

// outPath is the path of a command's output file; in a third of the cases an earlier, larger
// output already sits there and has to be replaced, not overlaid.
func (e *c19Env) outPath(name string) string {
	p := e.path(name)
	if e.r.Intn(3) == 0 {
		if err := os.WriteFile(p, bytes.Repeat([]byte{0xEE, 0x01, 0x00, 0x7f}, 16<<10), 0o644); err != nil {
			panic(err)
		}
		e.t.Cover("variant:output-path-holds-a-larger-stale-file")
		e.stale = true
	}
	return p
}

func (e *c19Env) write(name string, b []byte) string {
	p := e.path(name)
	os.Remove(p)
	if strings.HasPrefix(name, "in") && e.r.Intn(4) == 0 {
		// the source is named through a symbolic link (a "current" alias, a mounted layout)
		real := e.path("real-" + name)
		if err := os.WriteFile(real, b, 0o644); err != nil {
			panic(err)
		}
		if err := os.Symlink(filepath.Base(real), p); err != nil {
			panic(err)
		}
		e.t.Cover("variant:source-path-is-a-symlink")
		return p
	}
	if err := os.WriteFile(p, b, 0o644); err != nil {
		panic(err)
	}
	return p
}

func (e *c19Env) run(stdin []byte, args ...string) c19Res {
	res := c19Exec(e.t, e.dir, stdin, args...)
	e.cmd = append(e.cmd, strings.Join(res.Argv, " "))
	return res
}

func (e *c19Env) key(symptom string) string {
	return "car " + e.d.Form + "/" + e.cls + "/" + symptom
}

func (e *c19Env) detail(res *c19Res, extra map[string]any) map[string]any {
	m := map[string]any{"commands": e.cmd, "input_class": e.cls, "container": e.d.Cont, "zero_roots": e.d.ZeroRoots}
	if e.stale {
		m["output_path_before"] = "a 64 KiB stale file"
	}
	if res != nil {
		m["argv"] = strings.Join(res.Argv, " ")
		m["exit"] = res.Exit
		m["stderr"] = res.errText()
	}
	for k, v := range e.notes {
		m[k] = v
	}
	for k, v := range extra {
		m[k] = v
	}
	return m
}

// must reports whether the command under test answered a valid request; a
// non-zero exit is counted and is a violation (the property requires an output).
// On exit 0 the output is going to be judged: counted as judged:<form>.
func (e *c19Env) must(res c19Res) bool {
	if res.TimedOut || res.StartErr != nil {
		return false
	}
	if res.Exit != 0 {
		e.t.Cover("cmd_failed:" + e.d.Form)
		symptom := "exit-nonzero"
		if bytes.HasPrefix(res.Stderr, []byte("panic:")) || bytes.Contains(res.Stderr, []byte("\ngoroutine ")) {
			symptom = "panics"
		}
		e.t.ViolateD(e.key(symptom), e.detail(&res, nil),
			"`%s` exits %d on a valid request (%s): %s", strings.Join(res.Argv, " "), res.Exit, e.cls, res.errText())
		return false
	}
	e.judged()
	return true
}

// prep runs an auxiliary command whose output is only an input of the form under test.
func (e *c19Env) prep(res c19Res) bool {
	if !res.ok() {
		e.t.Cover("prep_failed:" + e.d.Form)
		return false
	}
	return true
}

func (e *c19Env) read(p string) []byte {
	b, err := os.ReadFile(p)
	if err != nil {
		return nil
	}
	return b
}

func (e *c19Env) judged() {
	e.t.Cover("judged:" + e.d.Form)
	e.t.Nontrivial()
}

// ---------------------------------------------------------------- acceptance oracle

func c19OutClass(a *refcar.Archive) string {
	switch {
	case a.Version == 1:
		return "CARv1"
	case a.IndexBytes == nil:
		return "index-less CARv2"
	}
	return "CARv2"
}

// accept decodes an emitted archive with the reference and submits it to the
// two verifier commands. nil = not an archive.
func (e *c19Env) accept(path string) *c19In {
	out := e.read(path)
	a, err := refcar.Decode(out, false)
	if err != nil {
		e.t.ViolateD(e.key("not-a-car"), e.detail(nil, map[string]any{"output_hex": lab.Hex(out), "reference_error": err.Error()}),
			"output of `car %s` (%s) is not a CAR archive: reference decoder: %v", e.d.Form, e.cls, err)
		return nil
	}
	o := &c19In{file: out, arch: a, roots: a.Payload.Header.Roots}
	have := map[string]bool{}
	for _, s := range a.Payload.Sections {
		o.blocks = append(o.blocks, refcar.Block{Cid: s.Cid.Raw, Data: s.Data})
		have[string(s.Cid.Raw)] = true
		if good, known := refcar.Verifies(s.Cid, s.Data); known && !good {
			e.t.ViolateD(e.key("block-does-not-hash"), e.detail(nil, nil), "output of `car %s` holds a block whose bytes do not hash to its CID", e.d.Form)
		}
	}
	oc := c19OutClass(a)
	e.t.Cover("out:" + oc)
	res := e.run(nil, "inspect", "--full", path)
	if res.TimedOut || res.StartErr != nil {
		return o
	}
	e.t.Cover("inspect_full_run")
	if res.Exit != 0 {
		e.t.ViolateD("car inspect --full/"+oc+" output of "+e.d.Form+"/rejected", e.detail(&res, nil),
			"`car inspect --full` rejects the %s emitted by `car %s`: %s", oc, e.d.Form, res.errText())
	} else {
		e.t.Cover("inspect_full_accepted")
	}
	rootsIn := len(o.roots) > 0
	for _, r := range o.roots {
		if !have[string(r)] {
			rootsIn = false
		}
	}
	switch {
	case len(o.roots) == 0:
		e.t.Cover("verify_not_applicable:zero-roots")
	case !rootsIn:
		e.t.Cover("verify_not_applicable:root-not-a-block")
	default:
		res := e.run(nil, "verify", path)
		if res.TimedOut || res.StartErr != nil {
			return o
		}
		e.t.Cover("verify_run")
		if res.Exit != 0 {
			e.t.ViolateD("car verify/"+oc+" output of "+e.d.Form+"/rejected", e.detail(&res, nil),
				"`car verify` rejects the %s emitted by `car %s` although every root is among its blocks: %s", oc, e.d.Form, res.errText())
		} else {
			e.t.Cover("verify_accepted")
		}
	}
	return o
}

// ---------------------------------------------------------------- content helpers

func c19RootsEqual(a, b [][]byte) bool {
	if len(a) != len(b) {
		return false
	}
	for i := range a {
		if !bytes.Equal(a[i], b[i]) {
			return false
		}
	}
	return true
}

func c19Strs(cids [][]byte) []string {
	out := make([]string, len(cids))
	for i, c := range cids {
		out[i] = c19CidString(c)
	}
	return out
}

func c19BlockCids(bs []refcar.Block) []string {
	out := make([]string, len(bs))
	for i, b := range bs {
		out[i] = c19CidString(b.Cid)
	}
	return out
}

func c19IsIdentity(raw []byte) bool {
	c, _, err := refcar.SplitCid(raw)
	return err == nil && c.IsIdentity()
}

func c19Mh(raw []byte) string {
	c, _, err := refcar.SplitCid(raw)
	if err != nil {
		panic(err)
	}
	return string(c.Multihash())
}

// c19IndexLookups compares an emitted index with a regenerated one: every
// non-identity CID of the payload must look up exactly the offsets of the
// sections carrying it (entries of identity sections may or may not be there).
func c19IndexLookups(pi *refcar.ParsedIndex, p *refcar.Payload) string {
	recs := pi.Records()
	sorted := pi.Codec == refcar.CodecIndexSorted
	for _, s := range p.Sections {
		if s.Cid.IsIdentity() {
			continue
		}
		min, max := map[uint64]bool{}, map[uint64]bool{}
		for _, q := range p.Sections {
			if !bytes.Equal(q.Cid.Digest, s.Cid.Digest) {
				continue
			}
			if q.Cid.IsIdentity() {
				if sorted {
					max[q.Offset] = true
				}
				continue
			}
			if sorted || q.Cid.MhCode == s.Cid.MhCode {
				min[q.Offset] = true
				max[q.Offset] = true
			}
		}
		got := map[uint64]bool{}
		for _, rc := range recs {
			if bytes.Equal(rc.Digest, s.Cid.Digest) && (sorted || rc.Code == s.Cid.MhCode) {
				got[rc.Offset] = true
			}
		}
		for o := range min {
			if !got[o] {
				return fmt.Sprintf("lookup of %s lacks offset %d", c19CidString(s.Cid.Raw), o)
			}
		}
		for o := range got {
			if !max[o] {
				return fmt.Sprintf("lookup of %s yields offset %d where no such section starts", c19CidString(s.Cid.Raw), o)
			}
		}
	}
	return ""
}

func (e *c19Env) judgeIndexBytes(idx []byte, wantCodec uint64, p *refcar.Payload, whole bool) {
	pi, err := refcar.ParseIndex(idx)
	if err != nil {
		e.t.ViolateD(e.key("index-unparsable"), e.detail(nil, map[string]any{"index_hex": lab.Hex(idx)}), "index emitted by `car %s` does not parse: %v", e.d.Form, err)
		return
	}
	if whole && pi.Size != len(idx) {
		e.t.ViolateD(e.key("index-trailing-bytes"), e.detail(nil, nil), "index emitted by `car %s`: %d bytes follow the index", e.d.Form, len(idx)-pi.Size)
	}
	if wantCodec != 0 && pi.Codec != wantCodec {
		e.t.ViolateD(e.key("index-codec"), e.detail(nil, nil), "index emitted by `car %s` has codec %#x, requested %#x", e.d.Form, pi.Codec, wantCodec)
	}
	if msg := c19IndexLookups(pi, p); msg != "" {
		e.t.ViolateD(e.key("index-differs-from-regenerated"), e.detail(nil, nil), "index emitted by `car %s` (%s) is not lookup-equal to a regenerated one: %s", e.d.Form, e.cls, msg)
	}
}

// ---------------------------------------------------------------- forms: index family

func (e *c19Env) formIndex(in *c19In) {
	inP := e.write("in.car", in.file)
	f := strings.Fields(e.d.Form)
	sub := false
	var flags []string
	codec := "car-multihash-index-sorted"
	version := 2
	for i := 1; i < len(f); i++ {
		switch f[i] {
		case "create":
			sub = true
		case "--codec":
			codec = f[i+1]
			flags = append(flags, f[i], f[i+1])
			i++
		case "--version":
			version = 1
			flags = append(flags, f[i], f[i+1])
			i++
		}
	}
	wantCodec := uint64(0)
	switch codec {
	case "car-multihash-index-sorted":
		wantCodec = refcar.CodecMhIndexSorted
	case "car-index-sorted":
		wantCodec = refcar.CodecIndexSorted
	}
	args := append([]string{"index"}, flags...)
	if sub {
		args = append(args, "create")
	}
	outP := e.outPath("out.bin")
	toStdout := e.r.Intn(4) == 0
	var res c19Res
	if toStdout {
		res = e.run(nil, append(args, inP)...)
		if res.ok() {
			e.write("out.bin", res.Stdout)
		}
		e.t.Cover("variant:stdout")
	} else {
		res = e.run(nil, append(args, inP, outP)...)
	}
	if !e.must(res) {
		return
	}
	out := e.read(outP)
	switch {
	case sub: // detached index
		e.judgeIndexBytes(out, wantCodec, in.arch.Payload, true)
	case version == 1:
		if !bytes.Equal(out, in.payload()) {
			e.t.ViolateD(e.key("payload-changed"), e.detail(&res, map[string]any{"first_diff": lab.FirstDiff(out, in.payload())}), "`car %s` did not emit the payload unchanged", e.d.Form)
		}
		e.accept(outP)
	default:
		o := e.accept(outP)
		if o == nil {
			return
		}
		if o.arch.Version != 2 {
			e.t.ViolateD(e.key("not-carv2"), e.detail(&res, nil), "`car %s` emitted a CARv%d", e.d.Form, o.arch.Version)
			return
		}
		if !bytes.Equal(o.payload(), in.payload()) {
			e.t.ViolateD(e.key("payload-changed"), e.detail(&res, map[string]any{"first_diff": lab.FirstDiff(o.payload(), in.payload()), "in_len": len(in.payload()), "out_len": len(o.payload())}),
				"`car %s` (%s) did not emit the payload unchanged", e.d.Form, e.cls)
		}
		if codec == "none" {
			if o.arch.IndexBytes != nil {
				e.t.ViolateD(e.key("index-present"), e.detail(&res, nil), "`car index --codec none` emitted an index")
			}
			if end := o.arch.PayloadOff + o.arch.PayloadLen; uint64(len(o.file)) != end {
				e.t.ViolateD(e.key("trailing-bytes"), e.detail(&res, nil), "`car index --codec none`: %d bytes follow the payload", uint64(len(o.file))-end)
			}
		} else {
			if o.arch.IndexBytes == nil {
				e.t.ViolateD(e.key("index-missing"), e.detail(&res, nil), "`car %s` emitted no index", e.d.Form)
			} else {
				e.judgeIndexBytes(o.arch.IndexBytes, wantCodec, o.arch.Payload, true)
			}
		}
	}
}

func (e *c19Env) formDetach(in *c19In) {
	if in.arch.IndexBytes == nil {
		return // nothing to detach: not a request of the property
	}
	inP := e.write("in.car", in.file)
	outP := e.outPath("out.idx")
	var res c19Res
	if e.r.Intn(4) == 0 {
		res = e.run(nil, "detach-index", inP)
		if res.ok() {
			e.write("out.idx", res.Stdout)
		}
		e.t.Cover("variant:stdout")
	} else {
		res = e.run(nil, "detach-index", inP, outP)
	}
	if !e.must(res) {
		return
	}
	out := e.read(outP)
	if !bytes.Equal(out, in.arch.IndexBytes) {
		e.t.ViolateD(e.key("index-bytes-changed"), e.detail(&res, map[string]any{"first_diff": lab.FirstDiff(out, in.arch.IndexBytes)}), "`car detach-index` (%s) did not emit the archive's index bytes", e.cls)
	}
	e.judgeIndexBytes(out, 0, in.arch.Payload, true)

	// detach-index list (iterable codec only): the listing of the emitted index
	pi, err := refcar.ParseIndex(out)
	if err != nil || pi.Codec != refcar.CodecMhIndexSorted {
		return
	}
	lres := e.run(nil, "detach-index", "list", outP)
	if lres.TimedOut || lres.StartErr != nil {
		return
	}
	if lres.Exit != 0 {
		e.t.Cover("cmd_failed:detach-index list")
		e.t.ViolateD("car detach-index list/"+e.cls+"/exit-nonzero", e.detail(&lres, nil), "`car detach-index list` exits %d on an index emitted by `car detach-index`: %s", lres.Exit, lres.errText())
		return
	}
	var want []string
	for _, rc := range pi.Records() {
		mh := refcar.PutUvarint(nil, rc.Code)
		mh = refcar.PutUvarint(mh, uint64(len(rc.Digest)))
		mh = append(mh, rc.Digest...)
		want = append(want, fmt.Sprintf("%s %d", hex.EncodeToString(mh), rc.Offset))
	}
	got := c19Lines(lres.Stdout)
	sort.Strings(want)
	sort.Strings(got)
	if !lab.StringsEqual(got, want) {
		e.t.ViolateD("car detach-index list/"+e.cls+"/listing-differs", e.detail(&lres, map[string]any{"got": got, "want": want}), "`car detach-index list` does not print the records of the index")
	}
	e.t.Cover("judged:detach-index list")
}

// ---------------------------------------------------------------- forms: filter

type c19Selection struct {
	set   map[string]bool
	lines []string
}

func (e *c19Env) selection(in *c19In, p float64) c19Selection {
	s := c19Selection{set: map[string]bool{}}
	seen := map[string]bool{}
	add := func(raw []byte) {
		if !s.set[string(raw)] {
			s.set[string(raw)] = true
			s.lines = append(s.lines, c19CidString(raw))
		}
	}
	for _, b := range in.blocks {
		if seen[string(b.Cid)] {
			continue
		}
		seen[string(b.Cid)] = true
		if e.r.Float64() < p {
			add(b.Cid)
		}
	}
	for _, r := range in.roots { // roots that are not blocks may be named too
		if !seen[string(r)] && e.r.Intn(2) == 0 {
			add(r)
		}
	}
	if e.r.Intn(3) == 0 { // a CID the archive does not hold
		add(gen.HonestBlock(e.r, gen.BlockOpts{CoreOnly: true, NoIdentity: true, Size: 9}).Cid)
	}
	e.r.Shuffle(len(s.lines), func(i, j int) { s.lines[i], s.lines[j] = s.lines[j], s.lines[i] })
	return s
}

// c19Collapse keeps the first occurrence per key of the non-identity blocks.
func c19Collapse(bs []refcar.Block, byMultihash bool) []refcar.Block {
	seen := map[string]bool{}
	var out []refcar.Block
	for _, b := range bs {
		if c19IsIdentity(b.Cid) {
			continue
		}
		k := string(b.Cid)
		if byMultihash {
			k = c19Mh(b.Cid)
		}
		if seen[k] {
			continue
		}
		seen[k] = true
		out = append(out, b)
	}
	return out
}

func (e *c19Env) filterOnce(inP, outP string, sel c19Selection, flags ...string) c19Res {
	txt := []byte(strings.Join(sel.lines, "\n") + "\n")
	switch e.r.Intn(4) {
	case 0: // the last line is not terminated (printf, strings.Join)
		if len(sel.lines) > 0 {
			txt = txt[:len(txt)-1]
			e.t.Cover("variant:filter-list-without-final-newline")
		}
	case 1: // CRLF line ends
		txt = []byte(strings.Join(sel.lines, "\r\n") + "\r\n")
		e.t.Cover("variant:filter-list-crlf")
	}
	if e.notes == nil {
		e.notes = map[string]any{}
	}
	e.notes[fmt.Sprintf("cid_list_of_command_%d", len(e.cmd)+1)] = sel.lines
	args := []string{"filter"}
	var stdin []byte
	if e.r.Intn(2) == 0 {
		stdin = txt
		e.t.Cover("variant:filter-cids-on-stdin")
	} else {
		args = append(args, "--cid-file", e.write(fmt.Sprintf("cids-%d.txt", len(e.cmd)), txt))
		stdin = []byte{}
		e.t.Cover("variant:filter-cid-file")
	}
	args = append(args, flags...)
	return e.run(stdin, append(args, inP, outP)...)
}

func (e *c19Env) formFilter(in *c19In) {
	inP := e.write("in.car", in.file)
	outP := e.outPath("out.car")
	f := strings.Fields(e.d.Form)
	inverse, appendMode := false, false
	var flags []string
	for i := 1; i < len(f); i++ {
		switch f[i] {
		case "--inverse":
			inverse = true
			flags = append(flags, f[i])
		case "--append":
			appendMode = true
		case "--version":
			flags = append(flags, f[i], f[i+1])
			i++
		}
	}
	pick := func(sel c19Selection, inv bool) (roots [][]byte, blocks []refcar.Block) {
		roots = [][]byte{}
		for _, r := range in.roots {
			if sel.set[string(r)] != inv {
				roots = append(roots, r)
			}
		}
		for _, b := range in.blocks {
			if sel.set[string(b.Cid)] != inv {
				blocks = append(blocks, b)
			}
		}
		return
	}
	var wantRoots [][]byte
	var wantBlocks []refcar.Block
	var res c19Res
	if appendMode {
		selA := e.selection(in, 0.4)
		if !e.prep(e.filterOnce(inP, outP, selA)) {
			return
		}
		selB := e.selection(in, 0.5)
		res = e.filterOnce(inP, outP, selB, "--append")
		ra, ba := pick(selA, false)
		_, bb := pick(selB, false)
		wantRoots, wantBlocks = ra, append(ba, bb...)
	} else {
		sel := e.selection(in, 0.5)
		res = e.filterOnce(inP, outP, sel, flags...)
		wantRoots, wantBlocks = pick(sel, inverse)
	}
	if !e.must(res) {
		return
	}
	o := e.accept(outP)
	if o == nil {
		return
	}
	if !c19RootsEqual(o.roots, wantRoots) {
		e.t.ViolateD(e.key("roots"), e.detail(&res, map[string]any{"got": c19Strs(o.roots), "want": c19Strs(wantRoots)}), "`car %s` (%s): roots of the output are not the selected roots of the source", e.d.Form, e.cls)
	}
	nIdent := 0
	for _, b := range wantBlocks {
		if c19IsIdentity(b.Cid) {
			nIdent++
		}
	}
	if nIdent > 0 {
		e.t.Cover("filter:identity-block-selected(not judged)")
	}
	strict := c19Collapse(wantBlocks, false)
	byMh := c19Collapse(wantBlocks, true)
	got := c19Collapse(o.blocks, false)
	if len(strict) != len(byMh) {
		e.t.Cover("filter:equal-multihash-twins-selected")
	}
	if len(strict) > 0 {
		e.t.Cover("filter:nonempty-selection")
	}
	switch {
	case seqEqual(got, strict):
	case seqEqual(got, byMh):
		e.t.ViolateD("car "+e.d.Form+"/selection in which two CIDs share a multihash/selected-block-missing",
			e.detail(&res, map[string]any{"got": c19BlockCids(got), "want": c19BlockCids(strict), "source": c19BlockCids(in.blocks)}),
			"`car %s`: a selected block whose multihash equals that of an earlier selected block with a different CID is missing from the output", e.d.Form)
	default:
		e.t.ViolateD(e.key("wrong-blocks"), e.detail(&res, map[string]any{"got": c19BlockCids(got), "want": c19BlockCids(strict), "source": c19BlockCids(in.blocks)}),
			"`car %s` (%s): the output does not hold exactly the selected blocks in source order", e.d.Form, e.cls)
	}
}

// ---------------------------------------------------------------- forms: get-block, list, root

func (e *c19Env) formGetBlock(in *c19In) {
	if len(in.blocks) == 0 {
		return
	}
	inP := e.write("in.car", in.file)
	for k := 0; k < 2; k++ {
		b := in.blocks[e.r.Intn(len(in.blocks))]
		var res c19Res
		var got []byte
		if e.r.Intn(2) == 0 {
			res = e.run(nil, "get-block", inP, c19CidString(b.Cid))
			got = res.Stdout
			e.t.Cover("variant:stdout")
		} else {
			outP := e.path(fmt.Sprintf("blk-%d.bin", k))
			res = e.run(nil, "get-block", inP, c19CidString(b.Cid), outP)
			got = e.read(outP)
		}
		if c19IsIdentity(b.Cid) {
			e.t.Cover("get-block:identity")
		}
		if !e.must(res) {
			return
		}
		if !bytes.Equal(got, b.Data) {
			e.t.ViolateD(e.key("wrong-bytes"), e.detail(&res, map[string]any{"got": lab.Hex(got), "want": lab.Hex(b.Data)}), "`car get-block` (%s) did not return the exact block bytes", e.cls)
		}
	}
}

func (e *c19Env) formList(in *c19In) {
	inP := e.write("in.car", in.file)
	verbose := strings.Contains(e.d.Form, "--verbose")
	args := []string{"list"}
	if verbose {
		args = append(args, "--verbose")
	}
	if verbose {
		for _, b := range in.blocks {
			if c, _, _ := refcar.SplitCid(b.Cid); c.Codec == 0x70 && c19PbNoData(b.Data) {
				e.cls += " holding a dag-pb block without Data field"
				break
			}
		}
	}
	var res c19Res
	if e.d.Form == c19ListPipe {
		res = e.run(in.file, args...)
	} else {
		res = e.run(nil, append(args, inP)...)
	}
	if !e.must(res) {
		return
	}
	var got []string
	for _, l := range c19Lines(res.Stdout) {
		if verbose {
			if strings.HasPrefix(l, "\t") {
				continue
			}
			if i := strings.LastIndex(l, ": "); i >= 0 {
				l = l[i+2:]
			}
		}
		got = append(got, l)
	}
	want := c19BlockCids(in.blocks)
	if !lab.StringsEqual(got, want) {
		e.t.ViolateD(e.key("not-scan-order"), e.detail(&res, map[string]any{"got": got, "want": want}), "`car %s` (%s) does not print the CIDs in scan order", e.d.Form, e.cls)
	}
}

func (e *c19Env) formRoot(in *c19In) {
	inP := e.write("in.car", in.file)
	res := e.run(nil, "root", inP)
	if !e.must(res) {
		return
	}
	got, want := c19Lines(res.Stdout), c19Strs(in.roots)
	if !lab.StringsEqual(got, want) {
		e.t.ViolateD(e.key("wrong-roots"), e.detail(&res, map[string]any{"got": got, "want": want}), "`car root` (%s) does not print the header's roots", e.cls)
	}
}

// ---------------------------------------------------------------- forms: concat

func (e *c19Env) formConcat(in *c19In) {
	ins := []*c19In{in}
	n := 1 + e.r.Intn(2)
	for i := 0; i < n; i++ {
		ins = append(ins, c19Plain(e.r.Int63(), c19Containers[e.r.Intn(len(c19Containers))], e.r.Intn(2) == 0, false))
	}
	args := []string{"concat"}
	f := strings.Fields(e.d.Form)
	args = append(args, f[1:]...)
	outP := e.outPath("out.car")
	toStdout := e.r.Intn(3) == 0 // without -o the archive goes to standard output
	if !toStdout {
		args = append(args, "-o", outP)
	}
	var want []refcar.Block
	for i, x := range ins {
		args = append(args, e.write(fmt.Sprintf("in%d.car", i), x.file))
		want = append(want, x.blocks...)
	}
	res := e.run(nil, args...)
	if !e.must(res) {
		return
	}
	if toStdout {
		outP = e.write("out.car", res.Stdout)
		e.t.Cover("variant:stdout")
		e.t.Cover("variant:concat-to-stdout")
	}
	o := e.accept(outP)
	if o == nil {
		return
	}
	wantV := uint64(1)
	if strings.Contains(e.d.Form, "--version 2") {
		wantV = 2
	}
	if o.arch.Version != wantV {
		e.t.ViolateD(e.key("wrong-version"), e.detail(&res, nil), "`car %s` emitted a CARv%d", e.d.Form, o.arch.Version)
	}
	if !c19RootsEqual(o.roots, in.roots) {
		e.t.ViolateD(e.key("roots"), e.detail(&res, map[string]any{"got": c19Strs(o.roots), "want": c19Strs(in.roots)}), "`car %s`: the output's roots are not the first input's roots", e.d.Form)
	}
	if !seqEqual(o.blocks, want) {
		e.t.ViolateD(e.key("wrong-blocks"), e.detail(&res, map[string]any{"got": c19BlockCids(o.blocks), "want": c19BlockCids(want)}), "`car %s` (%s): the output is not the concatenation of the inputs' block sequences", e.d.Form, e.cls)
	}
}

// ---------------------------------------------------------------- forms: create, get-dag

// c19Tree writes a small file tree and returns its top directory.
func (e *c19Env) tree() string {
	top := e.path("tree")
	must := func(err error) {
		if err != nil {
			panic(err)
		}
	}
	must(os.MkdirAll(top, 0o755))
	size := func() int {
		switch e.r.Intn(8) {
		case 0:
			return 0
		case 1:
			return 1
		case 2:
			if e.t.Tier == "thorough" || e.r.Intn(4) == 0 {
				return 262144 + e.r.Intn(300000) // more than one chunk
			}
		}
		return e.r.Intn(5000)
	}
	var fill func(dir string, depth int)
	fill = func(dir string, depth int) {
		n := 1 + e.r.Intn(4)
		for i := 0; i < n; i++ {
			must(os.WriteFile(filepath.Join(dir, fmt.Sprintf("f%d.bin", i)), gen.Bytes(e.r, size()), 0o644))
		}
		if depth < 2 && e.r.Intn(2) == 0 {
			sub := filepath.Join(dir, fmt.Sprintf("d%d", depth))
			must(os.Mkdir(sub, 0o755))
			fill(sub, depth+1)
		}
		if e.r.Intn(5) == 0 {
			must(os.Mkdir(filepath.Join(dir, "empty"), 0o755))
		}
	}
	fill(top, 0)
	return top
}

func (e *c19Env) formCreate() {
	top := e.tree()
	outP := e.path("out.car") // car create resumes an existing output file (and refuses one that is not a CAR): always a fresh path
	args := []string{"create"}
	args = append(args, strings.Fields(e.d.Form)[1:]...)
	src := top
	if strings.Contains(e.d.Form, "--no-wrap") && e.r.Intn(2) == 0 {
		src = filepath.Join(top, "f0.bin")
		e.t.Cover("create:single-file")
	}
	args = append(args, "-f", outP, src)
	res := e.run(nil, args...)
	if !e.must(res) {
		return
	}
	o := e.accept(outP)
	if o == nil {
		return
	}
	wantV := uint64(2)
	if strings.Contains(e.d.Form, "--version 1") {
		wantV = 1
	}
	if o.arch.Version != wantV {
		e.t.ViolateD(e.key("wrong-version"), e.detail(&res, nil), "`car %s` emitted a CARv%d", e.d.Form, o.arch.Version)
	}
	if len(o.roots) != 1 {
		e.t.ViolateD(e.key("root-count"), e.detail(&res, map[string]any{"roots": c19Strs(o.roots)}), "`car %s` emitted an archive with %d roots", e.d.Form, len(o.roots))
	} else {
		found := false
		for _, b := range o.blocks {
			if bytes.Equal(b.Cid, o.roots[0]) {
				found = true
			}
		}
		if !found {
			e.t.ViolateD(e.key("root-not-a-block"), e.detail(&res, nil), "`car %s`: the root is not among the blocks", e.d.Form)
		}
	}
}

// c19Dag is a generated DAG inside an archive.
type c19Dag struct {
	in    *c19In
	root  []byte
	links map[string][][]byte // known link lists (generated dag-cbor nodes)
}

func c19MakeDag(seed int64, cont string, absent bool) *c19Dag {
	r := gen.Rand(seed)
	d := &c19Dag{links: map[string][][]byte{}}
	mk := func(codec uint64, data []byte) refcar.Block {
		code := uint64(0x12)
		if r.Intn(5) == 0 {
			code = []uint64{0x13, 0x11, 0x56}[r.Intn(3)]
		}
		dg, _ := refcar.Hash(code, data)
		return refcar.Block{Cid: refcar.MakeCidV1(codec, code, dg), Data: data}
	}
	var nodes []refcar.Block
	n := 4 + r.Intn(8)
	usedAbsent := false
	for i := 0; i < n; i++ {
		last := i == n-1
		if !last && (i < 2 || r.Intn(3) == 0) {
			if r.Intn(2) == 0 {
				nodes = append(nodes, mk(0x55, gen.Bytes(r, 1+r.Intn(200))))
			} else {
				b := mk(0x71, c19DagCborNode(gen.Bytes(r, r.Intn(40)), nil))
				d.links[string(b.Cid)] = nil
				nodes = append(nodes, b)
			}
			continue
		}
		k := 1 + r.Intn(3)
		if last {
			k = 2 + r.Intn(2)
		}
		var ls [][]byte
		for j := 0; j < k; j++ {
			ls = append(ls, nodes[r.Intn(len(nodes))].Cid)
		}
		if absent && (r.Intn(3) == 0 || (last && !usedAbsent)) {
			usedAbsent = true
			gone := mk(0x71, c19DagCborNode(gen.Bytes(r, 12), nil))
			ls = append(ls, gone.Cid)
			r.Shuffle(len(ls), func(a, b int) { ls[a], ls[b] = ls[b], ls[a] })
		}
		b := mk(0x71, c19DagCborNode(gen.Bytes(r, r.Intn(40)), ls))
		d.links[string(b.Cid)] = ls
		nodes = append(nodes, b)
	}
	// diamonds with paths of different length, the longer one first in link order: the old root is
	// reached through a detour node before it is reached directly (matters for depth-limited selectors)
	for w := r.Intn(3); w > 0; w-- {
		old := nodes[len(nodes)-1].Cid
		detour := mk(0x71, c19DagCborNode(gen.Bytes(r, 3), [][]byte{old}))
		d.links[string(detour.Cid)] = [][]byte{old}
		ls := [][]byte{detour.Cid, old}
		top := mk(0x71, c19DagCborNode(gen.Bytes(r, 3), ls))
		d.links[string(top.Cid)] = ls
		nodes = append(nodes, detour, top)
	}
	d.root = nodes[len(nodes)-1].Cid
	all := append([]refcar.Block{}, nodes...)
	for i := r.Intn(4); i > 0; i-- { // unrelated blocks
		all = append(all, mk(0x55, gen.Bytes(r, 1+r.Intn(100))))
	}
	r.Shuffle(len(all), func(a, b int) { all[a], all[b] = all[b], all[a] })
	roots := [][]byte{d.root}
	if r.Intn(2) == 0 {
		roots = [][]byte{all[r.Intn(len(all))].Cid, d.root}
	}
	d.in = c19Decode(c19Render(r, cont, roots, false, all))
	return d
}

// reach returns the set of present non-identity blocks reachable from the root.
func (d *c19Dag) reach() (map[string][]byte, bool) {
	have := map[string][]byte{}
	for _, b := range d.in.blocks {
		have[string(b.Cid)] = b.Data
	}
	out := map[string][]byte{}
	understood := true
	var walk func(c []byte)
	walk = func(c []byte) {
		if _, done := out[string(c)]; done {
			return
		}
		data, ok := have[string(c)]
		if !ok {
			return
		}
		out[string(c)] = data
		ls, known := d.links[string(c)]
		if !known {
			sc, _, _ := refcar.SplitCid(c)
			var ok bool
			ls, ok = c19Links(sc, data)
			if !ok {
				understood = false
				return
			}
		}
		for _, l := range ls {
			walk(l)
		}
	}
	walk(d.root)
	return out, understood
}

// reachWithin returns the present blocks whose shortest link distance from the root is at most
// hops (what a depth-limited recursive selector without visit-once semantics loads).
func (d *c19Dag) reachWithin(hops int) (map[string][]byte, bool) {
	have := map[string][]byte{}
	for _, b := range d.in.blocks {
		have[string(b.Cid)] = b.Data
	}
	out := map[string][]byte{}
	understood := true
	frontier := [][]byte{d.root}
	for dist := 0; dist <= hops && len(frontier) > 0; dist++ {
		var next [][]byte
		for _, c := range frontier {
			if _, done := out[string(c)]; done {
				continue
			}
			data, ok := have[string(c)]
			if !ok {
				continue
			}
			out[string(c)] = data
			ls, known := d.links[string(c)]
			if !known {
				sc, _, _ := refcar.SplitCid(c)
				var ok bool
				if ls, ok = c19Links(sc, data); !ok {
					understood = false
					continue
				}
			}
			next = append(next, ls...)
		}
		frontier = next
	}
	return out, understood
}

func (e *c19Env) formGetDag() {
	var dag *c19Dag
	switch e.d.Dag {
	case c19DagCbor, c19DagAbsent:
		dag = c19MakeDag(e.d.Seed, e.d.Cont, e.d.Dag == c19DagAbsent)
	case c19DagUnixfs:
		top := e.tree()
		srcP := e.path("src.car")
		args := []string{"create"}
		if e.d.Cont == c19V1 {
			args = append(args, "--version", "1")
		}
		if !e.prep(e.run(nil, append(args, "-f", srcP, top)...)) {
			return
		}
		a, err := refcar.Decode(e.read(srcP), false)
		if err != nil || len(a.Payload.Header.Roots) != 1 {
			e.t.Cover("prep_failed:" + e.d.Form)
			return
		}
		dag = &c19Dag{in: c19Decode(e.read(srcP)), root: a.Payload.Header.Roots[0], links: map[string][][]byte{}}
	default:
		panic("unknown dag class " + e.d.Dag)
	}
	e.t.Cover("dag:" + e.d.Dag)
	inP := e.write("in.car", dag.in.file)
	outP := e.outPath("out.car")
	args := []string{"get-dag"}
	rootOnly := false
	maxHops := -1
	f := strings.Fields(e.d.Form)
	for i := 1; i < len(f); i++ {
		switch f[i] {
		case "--selector":
			sel := c19SelAll
			if f[i+1] == "match-root" {
				sel = c19SelRoot
				rootOnly = true
			}
			if strings.HasPrefix(f[i+1], "depth") {
				// a depth-limited recursion: a generated dag-cbor node is {d: bytes, l: [links]}, so each
				// link hop costs two data-model steps, and a limit of N admits N-1 steps
				n, _ := strconv.Atoi(f[i+1][5:])
				sel = fmt.Sprintf(`{"R":{"l":{"depth":%d},":>":{"a":{">":{"@":{}}}}}}`, n)
				maxHops = (n - 1) / 2
			}
			args = append(args, "--selector", sel)
			i++
		case "--version":
			args = append(args, f[i], f[i+1])
			i++
		}
	}
	if len(dag.in.roots) == 1 && e.r.Intn(2) == 0 {
		args = append(args, inP, outP) // root taken from the header
		e.t.Cover("variant:get-dag-implicit-root")
	} else {
		args = append(args, inP, c19CidString(dag.root), outP)
	}
	res := e.run(nil, args...)
	if !e.must(res) {
		return
	}
	o := e.accept(outP)
	if o == nil {
		return
	}
	if !c19RootsEqual(o.roots, [][]byte{dag.root}) {
		e.t.ViolateD(e.key("roots"), e.detail(&res, map[string]any{"got": c19Strs(o.roots), "want": c19CidString(dag.root)}), "`car %s`: the output's root is not the requested DAG root", e.d.Form)
	}
	want, understood := dag.reach()
	if maxHops >= 0 {
		if e.d.Dag == c19DagUnixfs {
			e.t.Cover("get-dag:depth-selector-on-unixfs(not judged)")
			return
		}
		want, understood = dag.reachWithin(maxHops)
		if len(want) > 1 {
			e.t.Cover("get-dag:depth-limited-multi-block")
		}
		if full, _ := dag.reach(); len(full) > len(want) {
			e.t.Cover("get-dag:depth-limit-cuts-the-dag")
		}
	}
	if rootOnly {
		want = map[string][]byte{string(dag.root): want[string(dag.root)]}
	} else if !understood {
		e.t.Cover("dag:codec-outside-the-reference")
		return
	}
	got := map[string][]byte{}
	for _, b := range o.blocks {
		if c19IsIdentity(b.Cid) {
			continue
		}
		if _, dup := got[string(b.Cid)]; dup {
			e.t.Cover("get-dag:duplicate-section(not judged)")
		}
		got[string(b.Cid)] = b.Data
	}
	var missing, extra, differ []string
	for k, v := range want {
		g, ok := got[k]
		if !ok {
			missing = append(missing, c19CidString([]byte(k)))
		} else if !bytes.Equal(g, v) {
			differ = append(differ, c19CidString([]byte(k)))
		}
	}
	for k := range got {
		if _, ok := want[k]; !ok {
			extra = append(extra, c19CidString([]byte(k)))
		}
	}
	sort.Strings(missing)
	sort.Strings(extra)
	if len(missing)+len(extra)+len(differ) > 0 {
		e.t.ViolateD(e.key("wrong-blocks"), e.detail(&res, map[string]any{"missing": missing, "extra": extra, "data_differs": differ, "source": c19BlockCids(dag.in.blocks)}),
			"`car %s` (%s): the output does not hold exactly the blocks of the requested DAG that the source holds", e.d.Form, e.cls)
	}
	if len(want) > 1 {
		e.t.Cover("get-dag:multi-block-dag")
	}
}

// ---------------------------------------------------------------- driver

func runC19(t *mon.T, raw json.RawMessage) {
	var d c19Desc
	if err := json.Unmarshal(raw, &d); err != nil {
		panic(err)
	}
	if _, err := os.Stat(c19Bin()); err != nil {
		t.Inconclusive("car binary unavailable: %v", err)
		return
	}
	dir := lab.TempDir("c19")
	defer os.RemoveAll(dir)
	e := &c19Env{t: t, d: d, dir: dir, r: gen.Rand(d.Seed ^ c19Hash(d.Form)), cls: c19Class(d.Cont)}
	if d.Dag != "" {
		e.cls += " holding a " + d.Dag
	}
	t.Cover("form:" + d.Form)
	verb := strings.Fields(d.Form)[0]
	switch verb {
	case "create":
		e.formCreate()
	case "get-dag":
		t.Cover("container:" + d.Cont)
		e.formGetDag()
	default:
		t.Cover("container:" + d.Cont)
		if d.ZeroRoots {
			t.Cover("input:zero-roots")
		}
		in := c19Plain(d.Seed, d.Cont, d.RootsIn, d.ZeroRoots)
		if d.Big > 0 {
			in = c19BigInput(d.Seed, d.Cont, d.Big)
			t.Cover("input:thousands-of-blocks")
		}
		c19CoverInput(t, in)
		switch verb {
		case "index":
			e.formIndex(in)
		case "detach-index":
			e.formDetach(in)
		case "filter":
			e.formFilter(in)
		case "get-block":
			e.formGetBlock(in)
		case "list":
			e.formList(in)
		case "root":
			e.formRoot(in)
		case "concat":
			e.formConcat(in)
		default:
			panic("unknown form " + d.Form)
		}
	}
	t.Sample(map[string]any{"form": d.Form, "input_class": e.cls, "commands": e.cmd})
}

func c19CoverInput(t *mon.T, in *c19In) {
	seen := map[string]bool{}
	mhs := map[string]string{}
	have := map[string]bool{}
	for _, b := range in.blocks {
		have[string(b.Cid)] = true
	}
	id, dup, twin := false, false, false
	for _, b := range in.blocks {
		if c19IsIdentity(b.Cid) {
			id = true
		}
		if seen[string(b.Cid)] {
			dup = true
		}
		seen[string(b.Cid)] = true
		if c, ok := mhs[c19Mh(b.Cid)]; ok && c != string(b.Cid) {
			twin = true
		}
		mhs[c19Mh(b.Cid)] = string(b.Cid)
	}
	if len(in.blocks) == 0 {
		t.Cover("input:no-blocks")
	}
	if id {
		t.Cover("input:identity-block")
	}
	if dup {
		t.Cover("input:duplicate-block")
	}
	if twin {
		t.Cover("input:equal-multihash-twins")
	}
	for _, r := range in.roots {
		if have[string(r)] {
			t.Cover("input:root-is-a-block")
		} else {
			t.Cover("input:root-is-not-a-block")
		}
	}
}

func genC19(g *mon.G) {
	r := gen.Rand(g.Seed)
	for i, f := range []string{"index", "index --codec car-index-sorted", "index create", "filter --inverse", "concat --version 2", "detach-index", "list", "index --codec car-multihash-index-sorted"} {
		if i >= g.Pick(6, 8) {
			break
		}
		cont := c19Containers[i%len(c19Containers)]
		if f == "detach-index" {
			cont = c19V2Mh
		}
		g.Emit(c19Desc{Seed: int64(i) + g.Seed, Form: f, Cont: cont, RootsIn: true, Big: []int{4200, 8300, 16500, 5000}[i%4] + i})
	}
	n := g.Pick(60, 800)
	for i := 0; i < n; i++ {
		seed := r.Int63()
		cont := c19Containers[i%len(c19Containers)]
		rootsIn := (i/len(c19Containers))%2 == 0
		zero := i%10 == 9
		for _, f := range c19PlainForms {
			if f == "detach-index" && (cont == c19V1 || cont == c19V2NoIdx || cont == c19V2PadNoIdx) {
				continue // no index to detach: not a request of the property
			}
			if zero && strings.HasPrefix(f, "concat") {
				continue // concat reads its inputs with the root module's reader, which refuses an empty root list by design
			}
			g.Emit(c19Desc{Seed: seed, Form: f, Cont: cont, RootsIn: rootsIn, ZeroRoots: zero})
		}
		dag := []string{c19DagCbor, c19DagAbsent, c19DagUnixfs}[(i+i/len(c19Containers))%3]
		dcont := cont
		if dag == c19DagUnixfs { // car create emits either a CARv1 or an indexed CARv2
			dcont = []string{c19V1, c19V2Mh}[i%2]
		}
		for _, f := range c19DagForms {
			g.Emit(c19Desc{Seed: seed, Form: f, Cont: dcont, Dag: dag})
		}
		if i%3 == 0 {
			for _, f := range c19CreateForms {
				g.Emit(c19Desc{Seed: seed, Form: f, Cont: "file tree"})
			}
		}
	}
}

func init() {
	min := map[string]int{"inspect_full_run": 300, "verify_run": 100}
	for _, f := range c19PlainForms {
		min["judged:"+f] = 15
	}
	min["judged:"+c19ListPipe] = 5
	for _, f := range c19DagForms {
		min["judged:"+f] = 20
	}
	for _, f := range c19CreateForms {
		min["judged:"+f] = 10
	}
	for _, c := range c19Containers {
		min["container:"+c] = 50
	}
	for _, k := range []string{"input:identity-block", "input:duplicate-block", "input:equal-multihash-twins", "input:root-is-a-block", "input:root-is-not-a-block", "input:no-blocks",
		"dag:" + c19DagCbor, "dag:" + c19DagUnixfs} {
		min[k] = 10
	}
	min["input:thousands-of-blocks"] = 5
	Register(&mon.Check{
		ID:    "C19",
		Level: "exploration",
		Rule:  "cases = (seeded valid archive rendered by the reference encoder in one of 6 container classes, command form); each case runs the built car binary as child processes: the form under test, then `car inspect --full` on every emitted archive and `car verify` when every root is among its blocks, and compares the reference decode of the output with the expectation computed from the reference decode of the input; events_observed = child processes; non-trivial = the command exited 0 and its output was judged",
		Assumptions: []string{
			"reference codec (refcar) decides what inputs and outputs contain; CID text forms computed with stdlib base32 / own base58",
			"identity blocks are not judged in filter / get-dag outputs nor as index entries (the property does not fix them); exact duplicate sections count once in filter outputs",
			"`car verify` is consulted only for outputs with at least one root, all roots among the blocks",
			"get-dag: the block set is judged, not its order nor repeated sections",
			"a child process exceeding 60 s is inconclusive",
		},
		Gen:      genC19,
		Run:      runC19,
		MinCover: min,
	})
}
