package checks

// C09 inputs: valid archives / indexes built with the reference codec, their typed and
// random mutations, the repository's fixtures and fuzz corpus, raw random bytes, and the
// limit table (header / section exactly at and one over the configured maximum, giant
// length prefixes without a body).

import (
	"bytes"
	"encoding/binary"
	"fmt"
	"math"
	"math/rand"
	"os"
	"path/filepath"
	"sort"
	"strconv"
	"strings"

	"carlab/internal/gen"
	"carlab/internal/refcar"
)

// c09Opts is the option configuration of one call.
type c09Opts struct {
	Hdr     uint64 `json:"hdr,omitempty"`     // MaxAllowedHeaderSize (0 = library default, 32 MiB)
	Sec     uint64 `json:"sec,omitempty"`     // MaxAllowedSectionSize (0 = library default, 8 MiB)
	ZeroEOF bool   `json:"zeof,omitempty"`    // ZeroLengthSectionAsEOF
	RootMax uint64 `json:"rootmax,omitempty"` // root module util.MaxAllowedSectionSize (0 = default, 32 MiB)
	HdrZero bool   `json:"hdrzero,omitempty"` // MaxAllowedHeaderSize(0): every header is over the maximum
	SecZero bool   `json:"seczero,omitempty"` // MaxAllowedSectionSize(0): every non-empty section is over the maximum
}

func (o c09Opts) String() string {
	return fmt.Sprintf("MaxAllowedHeaderSize=%s MaxAllowedSectionSize=%s ZeroLengthSectionAsEOF=%v root util.MaxAllowedSectionSize=%s",
		c09OrDefault(o.Hdr), c09OrDefault(o.Sec), o.ZeroEOF, c09OrDefault(o.RootMax))
}

func c09OrDefault(v uint64) string {
	if v == 0 {
		return "default"
	}
	return strconv.FormatUint(v, 10)
}

const (
	c09DefaultHdr  = 32 << 20
	c09DefaultSec  = 8 << 20
	c09DefaultRoot = 32 << 20
	c09SmallHdr    = 1024
	c09SmallSec    = 4096
)

var c09Small = c09Opts{Hdr: c09SmallHdr, Sec: c09SmallSec, RootMax: c09SmallSec}

// c09Input is one byte string together with its class, options and the CIDs the
// store / index queries use.
type c09Input struct {
	Class string
	Name  string // fixture or corpus file, when there is one
	Data  []byte
	Keys  [][]byte
	Opts  c09Opts
}

// c09Call is one entry point applied to one input. Row/Expect are set for limit-table calls.
type c09Call struct {
	In     int    `json:"in"`
	EP     string `json:"ep"`
	Row    string `json:"row,omitempty"`
	Expect string `json:"expect,omitempty"` // accept | too-large-header | too-large-section | reject-noalloc | noalloc | any
}

type c09Batch struct {
	Inputs []c09Input
	Calls  []c09Call
}

// ------------------------------------------------------------------ bases

type c09Base struct {
	v1, v2, v2nx []byte
	idx          []byte
	idxOff       int // offset of the index inside v2
	payloadOff   int // offset of the payload inside v2 / v2nx
	payload      *refcar.Payload
	keys         [][]byte
	roots        [][]byte
}

func c09AbsentCid() []byte {
	d, _ := refcar.Hash(0x12, []byte("c09 absent block"))
	return refcar.MakeCidV1(0x55, 0x12, d)
}

func c09MakeBase(r *rand.Rand) *c09Base {
	var content gen.Content
	for indexed := 0; indexed == 0; {
		content = gen.MakeContent(r, gen.ContentOpts{
			MinBlocks: 2, MaxBlocks: 6, MinRoots: 1, MaxRoots: 3, Dups: true,
			Block: gen.BlockOpts{MaxSize: 200},
		})
		for _, blk := range content.Blocks { // an index needs at least one non-identity block
			if c, _, err := refcar.SplitCid(blk.Cid); err == nil && !c.IsIdentity() {
				indexed++
			}
		}
	}
	b := &c09Base{roots: content.Roots}
	b.v1 = refcar.EncodeV1(content.Roots, content.NilRoots, content.Blocks)
	p, err := refcar.DecodeV1(b.v1, false)
	if err != nil {
		panic(fmt.Sprintf("c09: reference cannot decode its own archive: %v", err))
	}
	b.payload = p
	codec := uint64(refcar.CodecMhIndexSorted)
	if r.Intn(2) == 0 {
		codec = refcar.CodecIndexSorted
	}
	b.idx = refcar.BuildIndex(codec, refcar.ExpectedIndexRecords(p, codec, false))
	dp := uint64([]int{0, 0, 3, 40}[r.Intn(4)])
	ip := uint64([]int{0, 0, 5}[r.Intn(3)])
	b.v2 = refcar.EncodeV2(b.v1, refcar.V2Opts{DataPadding: dp, IndexPadding: ip, Index: b.idx})
	b.v2nx = refcar.EncodeV2(b.v1, refcar.V2Opts{DataPadding: dp})
	b.payloadOff = 51 + int(dp)
	b.idxOff = b.payloadOff + len(b.v1) + int(ip)
	// query keys: first, last and a random block, a root, an absent CID, an identity CID
	n := len(content.Blocks)
	b.keys = [][]byte{content.Blocks[0].Cid, content.Blocks[n-1].Cid, content.Blocks[r.Intn(n)].Cid, content.Roots[0], c09AbsentCid(),
		refcar.MakeCidV1(0x55, 0, []byte("identity"))}
	return b
}

func (b *c09Base) of(kind string) []byte {
	switch kind {
	case "v1":
		return b.v1
	case "v2":
		return b.v2
	case "v2nx":
		return b.v2nx
	case "index":
		return b.idx
	}
	panic("c09: unknown kind " + kind)
}

// offset of the payload inside the file of that kind
func (b *c09Base) poff(kind string) int {
	if kind == "v1" {
		return 0
	}
	return b.payloadOff
}

func c09Splice(file []byte, off, oldLen int, repl []byte) []byte {
	out := make([]byte, 0, len(file)-oldLen+len(repl))
	out = append(out, file[:off]...)
	out = append(out, repl...)
	return append(out, file[off+oldLen:]...)
}

func c09U64(v uint64) []byte { return binary.LittleEndian.AppendUint64(nil, v) }
func c09U32(v uint32) []byte { return binary.LittleEndian.AppendUint32(nil, v) }

// length varints of an archive: index 0 is the header, then one per section.
type c09Varint struct {
	off, size int
	val       uint64
	header    bool
}

func (b *c09Base) varints(kind string) []c09Varint {
	po := b.poff(kind)
	file := b.of(kind)
	hv, hn, _ := refcar.Uvarint(file[po:])
	out := []c09Varint{{off: po, size: hn, val: hv, header: true}}
	for _, s := range b.payload.Sections {
		v, n, _ := refcar.Uvarint(file[po+int(s.Offset):])
		out = append(out, c09Varint{off: po + int(s.Offset), size: n, val: v})
	}
	return out
}

var c09HugeLens = []uint64{1 << 31, 1 << 62, 1<<63 - 1, 1 << 63, math.MaxUint64}

// ------------------------------------------------------------------ index structure

type c09IdxField struct {
	off, size int
	kind      string // codec | count | code | width | len
	orig      uint64
	width     uint32 // for len fields
}

// c09IndexFields walks an index produced by the reference encoder.
func c09IndexFields(idx []byte) []c09IdxField {
	codec, n, err := refcar.Uvarint(idx)
	if err != nil {
		panic(err)
	}
	fields := []c09IdxField{{off: 0, size: n, kind: "codec", orig: codec}}
	p := n
	sorted := func() {
		cnt := int32(binary.LittleEndian.Uint32(idx[p:]))
		fields = append(fields, c09IdxField{off: p, size: 4, kind: "count", orig: uint64(cnt)})
		p += 4
		for i := int32(0); i < cnt; i++ {
			w := binary.LittleEndian.Uint32(idx[p:])
			fields = append(fields, c09IdxField{off: p, size: 4, kind: "width", orig: uint64(w)})
			l := binary.LittleEndian.Uint64(idx[p+4:])
			fields = append(fields, c09IdxField{off: p + 4, size: 8, kind: "len", orig: l, width: w})
			p += 12 + int(l)
		}
	}
	switch codec {
	case refcar.CodecIndexSorted:
		sorted()
	case refcar.CodecMhIndexSorted:
		cnt := int32(binary.LittleEndian.Uint32(idx[p:]))
		fields = append(fields, c09IdxField{off: p, size: 4, kind: "count", orig: uint64(cnt)})
		p += 4
		for i := int32(0); i < cnt; i++ {
			fields = append(fields, c09IdxField{off: p, size: 8, kind: "code", orig: binary.LittleEndian.Uint64(idx[p:])})
			p += 8
			sorted()
		}
	}
	return fields
}

func c09FieldValues(f c09IdxField) [][]byte {
	var out [][]byte
	switch f.kind {
	case "codec":
		other := uint64(refcar.CodecIndexSorted)
		if f.orig == refcar.CodecIndexSorted {
			other = refcar.CodecMhIndexSorted
		}
		for _, v := range []uint64{other, 0x300003, 0x300000, 0, 1 << 62} {
			out = append(out, refcar.PutUvarint(nil, v))
		}
	case "count":
		o := int32(f.orig)
		for _, v := range []int32{-1, math.MinInt32, 0, 1, o + 1, o - 1, 1 << 24, math.MaxInt32} {
			if v != o {
				out = append(out, c09U32(uint32(v)))
			}
		}
	case "code":
		for _, v := range []uint64{0, 0x12, 0x13, math.MaxUint64} {
			if v != f.orig {
				out = append(out, c09U64(v))
			}
		}
	case "width":
		o := uint32(f.orig)
		for _, v := range []uint32{0, 7, 8, 9, o - 1, o + 1, 32 << 20, 32<<20 + 1, 1 << 31, math.MaxUint32} {
			if v != o {
				out = append(out, c09U32(v))
			}
		}
	case "len":
		o := f.orig
		// 1<<24 (allocates, survives), 1<<40 (cannot be allocated under the address-space fence),
		// 1<<62 .. (makeslice range); 1<<31 is left out on purpose: whether it fits under the
		// 4 GiB fence depends on the heap state of the moment.
		for _, v := range []uint64{0, 1, o - 1, o + 1, uint64(f.width) - 1, 2 * o, 1 << 24, 1 << 40, 1 << 62, 1<<63 - 1, 1 << 63, math.MaxUint64} {
			if v != o {
				out = append(out, c09U64(v))
			}
		}
	}
	return out
}

// ------------------------------------------------------------------ typed (exhaustive) mutations of one base

func c09Typed(b *c09Base) []c09Input {
	var out []c09Input
	add := func(class string, data []byte, o c09Opts) {
		out = append(out, c09Input{Class: class, Data: data, Keys: b.keys, Opts: o})
	}
	small, smallZ := c09Small, c09Small
	smallZ.ZeroEOF = true
	both := func(class string, data []byte) {
		add(class, data, small)
		add(class, data, smallZ)
	}

	// unmutated
	for _, k := range []string{"v1", "v2", "v2nx", "index"} {
		both("valid:"+k, b.of(k))
		add("valid:"+k, b.of(k), c09Opts{})
		add("valid:"+k, b.of(k), c09Opts{ZeroEOF: true})
	}

	// length varints
	for _, k := range []string{"v1", "v2"} {
		file := b.of(k)
		for _, v := range b.varints(k) {
			class := "section-len:" + k
			if v.header {
				class = "header-len:" + k
			}
			vals := append([]uint64{v.val - 1, v.val + 1, 2 * v.val, 0}, c09HugeLens...)
			for _, nv := range vals {
				add(class, c09Splice(file, v.off, v.size, refcar.PutUvarint(nil, nv)), small)
			}
			// over the small limits, and over the defaults
			add(class, c09Splice(file, v.off, v.size, refcar.PutUvarint(nil, c09SmallSec+1)), small)
			add(class, c09Splice(file, v.off, v.size, refcar.PutUvarint(nil, c09DefaultHdr+1)), c09Opts{})
			add(class, c09Splice(file, v.off, v.size, refcar.PutUvarint(nil, 1<<62)), c09Opts{})
			// lengths just below 2^64: as a signed number they are small NEGATIVE steps, which would send
			// a reader that adds them to its position back to an earlier section (or to this one)
			if !v.header && v.off < b.poff(k)+int(b.payload.HeaderSize)+400 {
				for nk := uint64(1); nk <= 72; nk++ {
					sp := c09Splice(file, v.off, v.size, refcar.PutUvarint(nil, -nk))
					if k == "v2" && len(sp) >= 51 {
						// keep the container consistent (payload size and index offset follow the longer prefix),
						// so that a store opens from the embedded index and only the listing meets the length
						delta := uint64(len(sp) - len(file))
						binary.LittleEndian.PutUint64(sp[35:], binary.LittleEndian.Uint64(sp[35:])+delta)
						if io := binary.LittleEndian.Uint64(sp[43:]); io != 0 {
							binary.LittleEndian.PutUint64(sp[43:], io+delta)
						}
					}
					add(class, sp, small)
				}
			}
			// non-minimal and over-long varints
			add(class, c09Splice(file, v.off, v.size, []byte{0x80 | byte(v.val), 0x80, 0x00}), small)
			add(class, c09Splice(file, v.off, v.size, []byte{0xff, 0xff, 0xff, 0xff, 0xff, 0xff, 0xff, 0xff, 0xff, 0xff, 0x01}), small)
		}
	}

	// CIDs that claim a digest far longer than the section that holds them. Every section in
	// turn, and every block CID as a query key, so that the lookup paths meet the bad CID too.
	var allKeys [][]byte
	for _, s := range b.payload.Sections {
		allKeys = append(allKeys, s.Cid.Raw)
	}
	for _, k := range []string{"v1", "v2"} {
		file := b.of(k)
		for si, sec := range b.payload.Sections {
			at := b.poff(k) + int(sec.Offset) + sec.LenSize
			ls := []uint64{1 << 20}
			if si == 0 {
				ls = []uint64{1 << 20, 32 << 20, 32<<20 + 1, 1 << 62}
			}
			for _, l := range ls {
				f := append([]byte{}, file...)
				copy(f[at:], append([]byte{1, 0x55, 0x12}, refcar.PutUvarint(nil, l)...))
				out = append(out, c09Input{Class: "cid-digest-len:" + k, Data: f, Keys: allKeys, Opts: small})
			}
		}
		f := append([]byte{}, file...)
		copy(f[b.poff(k)+int(b.payload.Sections[0].Offset)+b.payload.Sections[0].LenSize:], append([]byte{1, 0x55, 0x12}, refcar.PutUvarint(nil, 32<<20)...))
		add("cid-digest-len:"+k, f, c09Opts{})
	}

	// CBOR header claims: the header body stays small (well under every limit) but its CBOR items
	// claim huge lengths or nest deeply — a decoder that pre-allocates what an item claims, or
	// recurses without bound, shows up here with a few-hundred-byte input.
	{
		sections := b.v1[int(b.payload.HeaderSize):]
		u32 := func(major byte, n uint32) []byte {
			return []byte{major<<5 | 26, byte(n >> 24), byte(n >> 16), byte(n >> 8), byte(n)}
		}
		rootsKey := append([]byte{0x65}, "roots"...)
		versionKV := append(append([]byte{0x67}, "version"...), 0x01)
		aCid := append([]byte{0xd8, 0x2a, 0x58, 0x25, 0x00}, b.payload.Sections[0].Cid.Raw...)
		bodies := map[string][]byte{
			"array-count":  append(append(append([]byte{0xa2}, rootsKey...), u32(4, 1<<26)...), aCid...),
			"bytes-length": append(append(append(append([]byte{0xa2}, rootsKey...), 0x81, 0xd8, 0x2a), u32(2, 22<<20)...), 0x00, 0x01, 0x55, 0x12, 0x20),
			"map-count":    append(append(u32(5, 1<<26), rootsKey...), 0x80),
			"text-length":  append(append([]byte{0xa2}, u32(3, 20<<20)...), "roots"...),
			"nesting":      append(append(append([]byte{0xa2}, rootsKey...), bytes.Repeat([]byte{0x81}, 900)...), 0x80),
			"tag-chain":    append(append(append([]byte{0xa2}, rootsKey...), bytes.Repeat([]byte{0xd8, 0x2a}, 400)...), 0x40),
			"valid+claims": append(append(append(append(append([]byte{0xa3}, rootsKey...), 0x80), versionKV...), 0x61, 'x'), u32(2, 30<<20)...),
		}
		names := make([]string, 0, len(bodies))
		for n := range bodies {
			names = append(names, n)
		}
		sort.Strings(names)
		for _, n := range names {
			body := bodies[n]
			v1 := append(append(refcar.PutUvarint(nil, uint64(len(body))), body...), sections...)
			for _, o := range []c09Opts{small, {}} {
				add("cbor-header-claims:v1", v1, o)
				add("cbor-header-claims:v2", refcar.EncodeV2(v1, refcar.V2Opts{}), o)
			}
		}
	}

	// overlapping sections: a run of 6-byte sections, each declaring 5 bytes but starting a CID whose
	// digest claims 4096 bytes (taken from what follows). An indexer that walks by "section length
	// minus CID length" steps backwards over them; each step must not cost a 4 KiB record.
	{
		hdr := b.v1[:int(b.payload.HeaderSize)]
		for _, code := range []byte{0x12, 0x00} {
			unit := []byte{0x05, 0x01, 0x55, code, 0x80, 0x20}
			body := append(bytes.Repeat(unit, 2000), bytes.Repeat([]byte{0x05, 0x01}, 2100)...)
			v1 := append(append([]byte{}, hdr...), body...)
			for _, o := range []c09Opts{small, {}} {
				add("overlapping-sections:v1", v1, o)
				add("overlapping-sections:v2", refcar.EncodeV2(v1, refcar.V2Opts{}), o)
			}
		}
	}

	// CARv2 header fields
	for _, k := range []string{"v2", "v2nx"} {
		file := b.of(k)
		h, _ := refcar.ParseV2Header(file)
		fl := uint64(len(file))
		set := func(do, ds, io uint64, chars byte) []byte {
			nh := h
			nh.DataOffset, nh.DataSize, nh.IndexOffset = do, ds, io
			if chars != 0 {
				for i := range nh.Characteristics {
					nh.Characteristics[i] = chars
				}
			}
			return c09Splice(file, 11, 40, nh.Bytes())
		}
		ext := []uint64{0, 1, 50, 51, 52, 1 << 31, 1 << 62, 1<<63 - 1, 1 << 63, math.MaxUint64, fl, fl + 1}
		for _, v := range append(ext, h.DataOffset-1, h.DataOffset+1) {
			both("v2-header:"+k, set(v, h.DataSize, h.IndexOffset, 0))
		}
		for _, v := range append(ext, h.DataSize-1, h.DataSize+1) {
			both("v2-header:"+k, set(h.DataOffset, v, h.IndexOffset, 0))
		}
		for _, v := range append(ext, h.IndexOffset-1, h.IndexOffset+1, h.DataOffset, h.DataOffset+h.DataSize-1) {
			both("v2-header:"+k, set(h.DataOffset, h.DataSize, v, 0))
		}
		// offset + size overflowing int64 / uint64
		pairs := [][2]uint64{
			{51, 1<<63 - 1}, {1<<63 - 1, 1<<63 - 1}, {1 << 62, 1 << 62}, {1<<63 - 52, 52}, {math.MaxUint64 - 50, 100},
			{h.DataOffset, 1<<63 - 1 - h.DataOffset}, {h.DataOffset, 1<<63 - h.DataOffset}, {h.DataOffset, -h.DataOffset},
			{1<<63 - 1, 1}, {1 << 62, 1<<62 - 1},
		}
		for _, p := range pairs {
			both("v2-header:"+k, set(p[0], p[1], h.IndexOffset, 0))
			both("v2-header:"+k, set(p[0], p[1], 1<<63-1, 0))
		}
		both("v2-header:"+k, set(h.DataOffset, h.DataSize, h.IndexOffset, 0xff))
		both("v2-header:"+k, set(h.DataOffset, h.DataSize, h.IndexOffset, 0x80))
	}

	// index fields, standalone and embedded
	fields := c09IndexFields(b.idx)
	for _, f := range fields {
		for _, nv := range c09FieldValues(f) {
			add("index-fields:index", c09Splice(b.idx, f.off, f.size, nv), small)
			add("index-fields:v2", c09Splice(b.v2, b.idxOff+f.off, f.size, nv), small)
		}
	}
	// truncations of the index at every field boundary, a lone codec, an empty index region
	for _, f := range fields {
		add("truncate:index", b.idx[:f.off], small)
		add("truncate:index", b.idx[:f.off+f.size], small)
		add("truncate:v2-index", b.v2[:b.idxOff+f.off+f.size], small)
	}
	add("truncate:v2-index", b.v2[:b.idxOff], small)

	// zero-length sections
	for _, k := range []string{"v1", "v2", "v2nx"} {
		file := b.of(k)
		po := b.poff(k)
		bounds := []int{po + int(b.payload.HeaderSize)}
		for _, s := range b.payload.Sections {
			bounds = append(bounds, po+int(s.End))
		}
		for _, at := range bounds {
			both("zero-section:"+k, c09Splice(file, at, 0, []byte{0}))
		}
		end := po + len(b.v1)
		both("zero-section:"+k, c09Splice(file, end, 0, make([]byte, 100)))
		if k != "v1" {
			// the padding counted in DataSize
			h, _ := refcar.ParseV2Header(file)
			nh := h
			nh.DataSize += 100
			if nh.IndexOffset != 0 {
				nh.IndexOffset += 100
			}
			f2 := c09Splice(file, end, 0, make([]byte, 100))
			both("zero-section:"+k, c09Splice(f2, 11, 40, nh.Bytes()))
		}
	}

	// nested pragmas and version fields
	nested := [][]byte{
		refcar.EncodeV2(b.v2, refcar.V2Opts{Index: b.idx}), // a CARv2 whose payload is a CARv2
		refcar.EncodeV2(b.v2nx, refcar.V2Opts{}),
		append(append([]byte{}, refcar.Pragma...), b.v2...), // pragma, then a whole CARv2 where the header should be
		append([]byte{}, refcar.Pragma...),                  // pragma only
		append([]byte{}, b.v2[:51]...),                      // pragma and header, no payload
		append(append([]byte{}, refcar.Pragma...), b.v1...),
	}
	for _, ver := range []uint64{0, 2, 3, 1 << 62, math.MaxUint64} {
		body := refcar.EncodeHeaderBody(b.roots, false, ver)
		hdr := append(refcar.PutUvarint(nil, uint64(len(body))), body...)
		v1 := append(append([]byte{}, hdr...), b.v1[b.payload.HeaderSize:]...)
		nested = append(nested, v1, refcar.EncodeV2(v1, refcar.V2Opts{Index: b.idx}))
	}
	for _, n := range nested {
		both("nested-pragma", n)
	}

	// cuts at every structural boundary (C02 does every prefix; here only totality matters)
	for _, k := range []string{"v1", "v2"} {
		file := b.of(k)
		for _, v := range b.varints(k) {
			for _, at := range []int{v.off, v.off + v.size, v.off + v.size + 1} {
				if at <= len(file) {
					add("truncate:"+k, file[:at], small)
				}
			}
		}
		for _, at := range []int{0, 1, 10, 11, 12, 27, 35, 43, 50, 51, 52} {
			if at <= len(file) {
				add("truncate:"+k, file[:at], small)
			}
		}
	}
	return out
}

// ------------------------------------------------------------------ random mutations

func c09RandomOpts(r *rand.Rand) c09Opts {
	var o c09Opts
	if r.Intn(10) < 8 {
		o = c09Small
	}
	o.ZeroEOF = r.Intn(3) == 0
	return o
}

func c09Extreme(r *rand.Rand, around uint64) uint64 {
	ext := []uint64{0, 1, 50, 51, 1 << 24, 1 << 31, 1 << 40, 1 << 62, 1<<63 - 1, 1 << 63, math.MaxUint64, around - 1, around + 1, 2 * around, -around}
	return ext[r.Intn(len(ext))]
}

// c09Mutate draws one mutated input.
func c09Mutate(r *rand.Rand, b *c09Base) c09Input {
	kinds := []string{"v1", "v1", "v1", "v2", "v2", "v2", "v2nx", "index", "index"}
	k := kinds[r.Intn(len(kinds))]
	file := append([]byte{}, b.of(k)...)
	in := c09Input{Keys: b.keys, Opts: c09RandomOpts(r)}
	flip := func(n int) {
		for i := 0; i < n && len(file) > 0; i++ {
			file[r.Intn(len(file))] ^= 1 << uint(r.Intn(8))
		}
	}
	fam := r.Intn(12)
	switch {
	case fam <= 2:
		in.Class = "flip:" + k
		flip(1 + r.Intn(4))
	case fam == 3:
		in.Class = "truncate:" + k
		file = file[:r.Intn(len(file))]
	case fam == 4:
		in.Class = "overwrite:" + k
		a := r.Intn(len(file))
		e := a + r.Intn(len(file)-a)
		if e-a > 24 {
			e = a + 24
		}
		r.Read(file[a:e])
	case fam == 5:
		in.Class = "splice:" + k
		a, e := r.Intn(len(file)), r.Intn(len(file))
		if a > e {
			a, e = e, a
		}
		if r.Intn(2) == 0 {
			file = append(append([]byte{}, file[:a]...), file[e:]...)
		} else {
			file = append(append(append([]byte{}, file[:e]...), file[a:e]...), file[e:]...)
		}
		flip(r.Intn(2))
	case fam == 6 && k != "index":
		kk := k
		vs := b.varints(kk)
		v := vs[r.Intn(len(vs))]
		in.Class = "section-len:" + kk
		if v.header {
			in.Class = "header-len:" + kk
		}
		file = c09Splice(file, v.off, v.size, refcar.PutUvarint(nil, c09Extreme(r, v.val)))
		flip(r.Intn(2))
	case fam == 7 && (k == "v2" || k == "v2nx"):
		in.Class = "v2-header:" + k
		for i := 0; i < 1+r.Intn(2); i++ {
			off := []int{27, 35, 43}[r.Intn(3)]
			copy(file[off:], c09U64(c09Extreme(r, binary.LittleEndian.Uint64(file[off:]))))
		}
	case fam == 8 && (k == "index" || k == "v2"):
		base := 0
		in.Class = "index-fields:index"
		if k == "v2" {
			base = b.idxOff
			in.Class = "index-fields:v2"
		}
		fs := c09IndexFields(b.idx)
		f := fs[r.Intn(len(fs))]
		vals := c09FieldValues(f)
		file = c09Splice(file, base+f.off, f.size, vals[r.Intn(len(vals))])
		flip(r.Intn(2))
	case fam == 9:
		// a valid prefix followed by random bytes
		in.Class = "random-tail:" + k
		cut := r.Intn(len(file))
		file = append(file[:cut:cut], gen.Bytes(r, r.Intn(80))...)
	case fam == 10:
		in.Class = "random"
		file = gen.Bytes(r, r.Intn(300))
		if r.Intn(3) == 0 && len(file) > 3 {
			// random bytes behind a plausible first varint
			copy(file, refcar.PutUvarint(nil, []uint64{uint64(len(file)), refcar.CodecIndexSorted, refcar.CodecMhIndexSorted, 10}[r.Intn(4)]))
		}
	default:
		in.Class = "flip:" + k
		flip(1 + r.Intn(8))
	}
	in.Data = file
	return in
}

// ------------------------------------------------------------------ fixtures and fuzz corpus

func c09Repo() string {
	if d := os.Getenv("VERIF_REPO"); d != "" {
		return d
	}
	return "/repo"
}

type c09File struct {
	name  string
	class string
	data  []byte
}

// c09Fixtures reads the repository's test archives / indexes and the Go fuzz corpus files.
// Fixtures are always taken from the pinned /repo tree (they are inputs, not code under test).
func c09Fixtures() []c09File {
	var out []c09File
	fx, _ := filepath.Glob("/repo/v2/testdata/*.car*")
	sort.Strings(fx)
	for _, p := range fx {
		if b, err := os.ReadFile(p); err == nil {
			out = append(out, c09File{name: "v2/testdata/" + filepath.Base(p), class: "fixture", data: b})
		}
	}
	for _, root := range []string{"/repo/v2/testdata/fuzz", "/repo/testdata/fuzz"} {
		var files []string
		_ = filepath.Walk(root, func(p string, fi os.FileInfo, err error) error {
			if err == nil && !fi.IsDir() {
				files = append(files, p)
			}
			return nil
		})
		sort.Strings(files)
		for _, p := range files {
			raw, err := os.ReadFile(p)
			if err != nil {
				continue
			}
			for i, b := range c09ParseCorpus(raw) {
				out = append(out, c09File{name: fmt.Sprintf("%s#%d", strings.TrimPrefix(p, "/repo/"), i), class: "fuzz-corpus", data: b})
			}
		}
	}
	return out
}

// c09ParseCorpus decodes the "go test fuzz v1" corpus format: one []byte("...") per line.
func c09ParseCorpus(raw []byte) [][]byte {
	lines := strings.Split(string(raw), "\n")
	if len(lines) == 0 || !strings.HasPrefix(lines[0], "go test fuzz v1") {
		return nil
	}
	var out [][]byte
	for _, l := range lines[1:] {
		l = strings.TrimSpace(l)
		if !strings.HasPrefix(l, "[]byte(") || !strings.HasSuffix(l, ")") {
			continue
		}
		s, err := strconv.Unquote(l[len("[]byte(") : len(l)-1])
		if err != nil {
			continue
		}
		out = append(out, []byte(s))
	}
	return out
}

// c09KeysOf extracts query keys from whatever the reference can decode of the input.
func c09KeysOf(data []byte) [][]byte {
	keys := [][]byte{c09AbsentCid(), refcar.MakeCidV1(0x55, 0, []byte("identity"))}
	a, err := refcar.Decode(data, true)
	if err != nil || a == nil || a.Payload == nil {
		return keys
	}
	s := a.Payload.Sections
	if len(s) > 0 {
		keys = append(keys, s[0].Cid.Raw, s[len(s)-1].Cid.Raw, s[len(s)/2].Cid.Raw)
	}
	if len(a.Payload.Header.Roots) > 0 {
		keys = append(keys, a.Payload.Header.Roots[0])
	}
	return keys
}

func c09FixtureInputs(r *rand.Rand) []c09Input {
	var out []c09Input
	for _, f := range c09Fixtures() {
		keys := c09KeysOf(f.data)
		out = append(out, c09Input{Class: f.class, Name: f.name, Data: f.data, Keys: keys, Opts: c09Opts{}})
		out = append(out, c09Input{Class: f.class, Name: f.name, Data: f.data, Keys: keys, Opts: c09Opts{ZeroEOF: true}})
		if len(f.data) < 4096 {
			out = append(out, c09Input{Class: f.class, Name: f.name, Data: f.data, Keys: keys, Opts: c09Small})
		}
		if len(f.data) == 0 {
			continue
		}
		// a few mutations of each
		fl := append([]byte{}, f.data...)
		for i := 0; i < 3; i++ {
			fl[r.Intn(len(fl))] ^= 1 << uint(r.Intn(8))
		}
		out = append(out, c09Input{Class: f.class + "-flip", Name: f.name, Data: fl, Keys: keys, Opts: c09Opts{ZeroEOF: r.Intn(2) == 0}})
		out = append(out, c09Input{Class: f.class + "-truncate", Name: f.name, Data: f.data[:r.Intn(len(f.data))], Keys: keys, Opts: c09Opts{}})
	}
	return out
}

// ------------------------------------------------------------------ limit table

func c09CborHeadLen(v uint64) int {
	switch {
	case v < 24:
		return 1
	case v < 1<<8:
		return 2
	case v < 1<<16:
		return 3
	case v < 1<<32:
		return 5
	}
	return 9
}

// c09RootsForHeaderLen returns a roots list whose encoded header body is exactly m bytes:
// n sha2-256 raw CIDs (41 bytes each once encoded) and two identity CIDs with tuned digests.
func c09RootsForHeaderLen(m int) [][]byte {
	shaCid := func(i int) []byte {
		d, _ := refcar.Hash(0x12, []byte(strconv.Itoa(i)))
		return refcar.MakeCidV1(0x55, 0x12, d)
	}
	rootLen := func(cidLen int) int { return 2 + c09CborHeadLen(uint64(cidLen+1)) + 1 + cidLen }
	idCid := func(d int) []byte { return refcar.MakeCidV1(0x55, 0, make([]byte, d)) }
	const fixed = 1 + 6 + 8 + 1 // map head, "roots" key, "version" key, value 1
	for n := (m - fixed) / 41; n >= 0 && n >= (m-fixed)/41-8; n-- {
		for d1 := 0; d1 < 120; d1++ {
			for d2 := 0; d2 < 120; d2++ {
				cnt := n + 2
				total := fixed + c09CborHeadLen(uint64(cnt)) + 41*n + rootLen(len(idCid(d1))) + rootLen(len(idCid(d2)))
				if total != m {
					continue
				}
				roots := make([][]byte, 0, cnt)
				roots = append(roots, idCid(d1), idCid(d2))
				for i := 0; i < n; i++ {
					roots = append(roots, shaCid(i))
				}
				if got := len(refcar.EncodeHeaderBody(roots, false, 1)); got != m {
					panic(fmt.Sprintf("c09: header of %d bytes came out as %d", m, got))
				}
				return roots
			}
		}
	}
	panic(fmt.Sprintf("c09: cannot build a header of exactly %d bytes", m))
}

type c09LimitArchive struct {
	v1, v2 []byte
	keys   [][]byte
}

// c09LimitArchiveOf builds a valid archive whose header body is hdrLen bytes (0 = small) and
// whose FIRST section is secLen bytes (0 = small); two more small sections follow.
func c09LimitArchiveOf(r *rand.Rand, hdrLen, secLen int) c09LimitArchive {
	blocks := []refcar.Block{gen.BoundaryBlock(r, 36+20), gen.BoundaryBlock(r, 36+7), gen.BoundaryBlock(r, 36)}
	if secLen > 0 {
		blocks[0] = gen.BoundaryBlock(r, secLen)
	}
	roots := [][]byte{blocks[0].Cid}
	if hdrLen > 0 {
		roots = c09RootsForHeaderLen(hdrLen)
	}
	v1 := refcar.EncodeV1(roots, false, blocks)
	p, err := refcar.DecodeV1(v1, false)
	if err != nil {
		panic(err)
	}
	if hdrLen > 0 && int(p.HeaderSize)-refcar.UvarintLen(uint64(hdrLen)) != hdrLen {
		panic("c09: header length mismatch")
	}
	if secLen > 0 && int(p.Sections[0].End-p.Sections[0].Offset)-p.Sections[0].LenSize != secLen {
		panic("c09: section length mismatch")
	}
	idx := refcar.BuildIndex(refcar.CodecMhIndexSorted, refcar.ExpectedIndexRecords(p, refcar.CodecMhIndexSorted, false))
	return c09LimitArchive{v1: v1, v2: refcar.EncodeV2(v1, refcar.V2Opts{Index: idx}), keys: [][]byte{blocks[0].Cid, blocks[2].Cid}}
}

// c09LimitBatch builds the limit table for the maxima mh (header) and ms (section).
// Expectations per entry point come from the entry point's declared behaviour (c09EP flags).
func c09LimitBatch(r *rand.Rand, mh, ms int, dflt bool) *c09Batch {
	bt := &c09Batch{}
	ho := c09Opts{Hdr: uint64(mh), Sec: c09SmallSec, RootMax: uint64(mh)}
	so := c09Opts{Hdr: c09SmallHdr, Sec: uint64(ms), RootMax: uint64(ms)}
	if dflt {
		// library defaults: nothing is configured
		ho, so = c09Opts{}, c09Opts{}
		mh, ms = c09DefaultHdr, c09DefaultSec
	}
	addInput := func(class string, data []byte, keys [][]byte, o c09Opts) int {
		bt.Inputs = append(bt.Inputs, c09Input{Class: class, Data: data, Keys: keys, Opts: o})
		return len(bt.Inputs) - 1
	}
	type row struct {
		name      string // header-at-max | header-over-max | section-at-max | section-over-max | giant-header-prefix | giant-section-prefix
		container string // v1 | v2
		in        int
		what      string // header | section
		expect    string // accept | over | giant
		rootOnly  bool   // row built for the root module's own limit
		noRoot    bool   // row about an option the root module does not have
	}
	var rows []row
	mk := func(name, what, expect string, a c09LimitArchive, o c09Opts) {
		rows = append(rows, row{name, "v1", addInput("limit:"+name+":v1", a.v1, a.keys, o), what, expect, false, false})
		rows = append(rows, row{name, "v2", addInput("limit:"+name+":v2", a.v2, a.keys, o), what, expect, false, false})
	}
	mk("header-at-max", "header", "accept", c09LimitArchiveOf(r, mh, 0), ho)
	mk("header-over-max", "header", "over", c09LimitArchiveOf(r, mh+1, 0), ho)
	mk("section-at-max", "section", "accept", c09LimitArchiveOf(r, 0, ms), so)
	mk("section-over-max", "section", "over", c09LimitArchiveOf(r, 0, ms+1), so)
	// a limit of zero is a limit (not "unset"): whatever is there is over it
	if !dflt {
		z := c09LimitArchiveOf(r, 0, 0)
		for _, zr := range []struct {
			name, what string
			o          c09Opts
		}{
			{"header-over-max(limit 0)", "header", c09Opts{HdrZero: true, Sec: c09SmallSec}},
			{"section-over-max(limit 0)", "section", c09Opts{Hdr: c09SmallHdr, SecZero: true}},
		} {
			rows = append(rows, row{zr.name, "v1", addInput("limit:"+zr.name+":v1", z.v1, z.keys, zr.o), zr.what, "over", false, true})
			rows = append(rows, row{zr.name, "v2", addInput("limit:"+zr.name+":v2", z.v2, z.keys, zr.o), zr.what, "over", false, true})
		}
	}
	// The root module has one limit for header and sections. With the library defaults it is
	// 32 MiB where v2 allows 8 MiB sections, so the root rows need archives of their own.
	if dflt {
		a := c09LimitArchiveOf(r, 0, c09DefaultRoot)
		rows = append(rows, row{"section-at-max", "v1", addInput("limit:section-at-max:v1", a.v1, a.keys, so), "section", "accept", true, false})
		a = c09LimitArchiveOf(r, 0, c09DefaultRoot+1)
		rows = append(rows, row{"section-over-max", "v1", addInput("limit:section-over-max:v1", a.v1, a.keys, so), "section", "over", true, false})
	}

	// giant length prefixes without a body
	small := c09LimitArchiveOf(r, 0, 0)
	p, _ := refcar.DecodeV1(small.v1, false)
	firstEnd := int(p.Sections[0].End)
	v2of := func(payload []byte, claim uint64) []byte {
		f := refcar.EncodeV2(payload, refcar.V2Opts{})
		// the CARv2 header claims the payload the prefix promises
		h, _ := refcar.ParseV2Header(f)
		if claim < 1<<62 {
			h.DataSize = uint64(len(payload)) + claim
		} else {
			h.DataSize = 1<<63 - 1 - h.DataOffset
		}
		return c09Splice(f, 11, 40, h.Bytes())
	}
	for _, what := range []string{"header", "section"} {
		m, o := mh, ho
		if what == "section" {
			m, o = ms, so
		}
		if dflt {
			m = c09DefaultHdr // over every default
		}
		for _, l := range []uint64{uint64(m) + 1, 1 << 31, 1 << 62} {
			var body []byte
			if what == "section" {
				body = append([]byte{}, small.v1[:firstEnd]...)
			}
			body = append(body, refcar.PutUvarint(nil, l)...)
			name := "giant-" + what + "-prefix"
			rows = append(rows, row{name, "v1", addInput("limit:"+name+":v1", body, small.keys, o), what, "giant", false, false})
			rows = append(rows, row{name, "v2", addInput("limit:"+name+":v2", v2of(body, l), small.keys, o), what, "giant", false, false})
		}
	}

	for _, ep := range c09EPs {
		for _, rw := range rows {
			// with the defaults the root module takes its own section rows and not the 8 MiB ones
			if dflt && rw.what == "section" && rw.expect != "giant" && rw.rootOnly != ep.root {
				continue
			}
			if rw.noRoot && ep.root {
				continue
			}
			var parses, accepts bool
			if rw.container == "v1" {
				parses, accepts = ep.hdrV1, ep.okV1
			} else {
				parses, accepts = ep.hdrV2, ep.okV2
			}
			if !parses {
				continue // this entry point never buffers that header (or does not take that container)
			}
			if rw.what == "section" && !ep.sections {
				continue // never gets as far as the sections
			}
			call := c09Call{In: rw.in, EP: ep.name, Row: rw.name}
			switch rw.expect {
			case "accept":
				call.Expect = "accept"
				if !accepts {
					call.Expect = "not-too-large"
				}
			case "over":
				if rw.what == "header" {
					call.Expect = "too-large-header"
				} else if ep.secBuf != "" {
					call.Expect = "too-large-section"
				} else {
					call.Expect = "any" // does not buffer sections: free to skip over a large one
				}
			case "giant":
				if rw.what == "header" || ep.secBuf == "stream" {
					call.Expect = "reject-noalloc"
				} else {
					call.Expect = "noalloc" // meets the prefix while skipping, not while buffering
				}
			}
			bt.Calls = append(bt.Calls, call)
		}
	}
	return bt
}
