package checks

import (
	"bufio"
	"bytes"
	"encoding/json"
	"fmt"
	"io"
	"os"
	"strings"
	"testing/iotest"

	"github.com/ipfs/go-cid"
	carv1 "github.com/ipld/go-car"
	carv2 "github.com/ipld/go-car/v2"
	"github.com/multiformats/go-multihash"

	"carlab/internal/gen"
	"carlab/internal/lab"
	"carlab/internal/mon"
	"carlab/internal/refcar"
)

type c02Desc struct {
	Seed    int64  `json:"seed"`
	V2      bool   `json:"v2,omitempty"`
	Family  string `json:"family"` // cuts | flips | random | ioerr
	AllBits bool   `json:"allbits,omitempty"`
	Only    int    `json:"only,omitempty"` // when >0: replay only this offset+1
	Big     int    `json:"big,omitempty"`  // when >0: the archive holds one section whose body (cid+data) has this many bytes; cuts/flips are sampled
}

// a scanning reader under test
type c02Reader struct {
	name    string
	v1only  bool
	hashes  bool // verifies block hashes (flip clause applies)
	returns bool // returns block bytes (hash oracle applies)
	run     func(in []byte) (got []refcar.Block, clean bool, err error)
	sparse  bool // costly kind (goes through a real file): run on the offsets near the payload's end and on every 8th other one
}

// fwdSeeker forwards Read and Seek and hides the concrete type of what it wraps.
type fwdSeeker struct{ rs io.ReadSeeker }

func (f fwdSeeker) Read(p []byte) (int, error)                { return f.rs.Read(p) }
func (f fwdSeeker) Seek(off int64, whence int) (int64, error) { return f.rs.Seek(off, whence) }

// c02Readers builds the reader table. With fault >= 0 every source fails with lab.ErrInjectedIO
// on any access to a byte at offset >= fault (and never reports io.EOF); source kinds that cannot
// be wrapped that way are left out.
func c02Readers(fault int64) []c02Reader {
	base := func(b []byte) lab.Src {
		if fault >= 0 {
			return &lab.FailSrc{R: bytes.NewReader(b), N: fault}
		}
		return bytes.NewReader(b)
	}
	nextO := func(mk func([]byte) io.Reader, opts ...carv2.Option) func([]byte) ([]refcar.Block, bool, error) {
		return func(in []byte) ([]refcar.Block, bool, error) {
			br, err := carv2.NewBlockReader(mk(in), opts...)
			if err != nil {
				return nil, false, err
			}
			var got []refcar.Block
			for {
				b, err := br.Next()
				if err == io.EOF {
					return got, true, nil
				}
				if err != nil {
					return got, false, err
				}
				got = append(got, refcar.Block{Cid: b.Cid().Bytes(), Data: b.RawData()})
			}
		}
	}
	skipO := func(mk func([]byte) io.Reader, opts ...carv2.Option) func([]byte) ([]refcar.Block, bool, error) {
		return func(in []byte) ([]refcar.Block, bool, error) {
			br, err := carv2.NewBlockReader(mk(in), opts...)
			if err != nil {
				return nil, false, err
			}
			var got []refcar.Block
			for {
				m, err := br.SkipNext()
				if err == io.EOF {
					return got, true, nil
				}
				if err != nil {
					return got, false, err
				}
				got = append(got, refcar.Block{Cid: m.Cid.Bytes()})
			}
		}
	}
	next := func(mk func([]byte) io.Reader) func([]byte) ([]refcar.Block, bool, error) {
		return func(in []byte) ([]refcar.Block, bool, error) {
			br, err := carv2.NewBlockReader(mk(in))
			if err != nil {
				return nil, false, err
			}
			var got []refcar.Block
			for {
				b, err := br.Next()
				if err == io.EOF {
					return got, true, nil
				}
				if err != nil {
					return got, false, err
				}
				got = append(got, refcar.Block{Cid: b.Cid().Bytes(), Data: b.RawData()})
			}
		}
	}
	skip := func(mk func([]byte) io.Reader) func([]byte) ([]refcar.Block, bool, error) {
		return func(in []byte) ([]refcar.Block, bool, error) {
			br, err := carv2.NewBlockReader(mk(in))
			if err != nil {
				return nil, false, err
			}
			var got []refcar.Block
			for {
				m, err := br.SkipNext()
				if err == io.EOF {
					return got, true, nil
				}
				if err != nil {
					return got, false, err
				}
				got = append(got, refcar.Block{Cid: m.Cid.Bytes()})
			}
		}
	}
	seekable := func(b []byte) io.Reader { return base(b) }
	plain := func(b []byte) io.Reader { return lab.PlainReader{R: base(b)} }
	onebyte := func(b []byte) io.Reader { return lab.OneByteReader{R: base(b)} }
	buffered := func(b []byte) io.Reader { return bufio.NewReaderSize(base(b), 64) }
	stutter := func(b []byte) io.Reader { return &lab.StutterReader{B: b} }                          // (0,nil) calls, tiny pieces, data+EOF
	dataErr := func(b []byte) io.Reader { return iotest.DataErrReader(lab.PlainReader{R: base(b)}) } // last byte comes with io.EOF
	eofSeek := func(b []byte) io.Reader { return lab.EOFSeeker{R: bytes.NewReader(b)} }              // seekable, last bytes come with io.EOF
	overData := func(skipping bool, wrapped bool) func([]byte) ([]refcar.Block, bool, error) {
		return func(in []byte) ([]refcar.Block, bool, error) {
			rd, err := carv2.NewReader(base(in))
			if err != nil {
				return nil, false, err
			}
			dr, err := rd.DataReader()
			if err != nil {
				return nil, false, err
			}
			var src io.Reader = dr
			if wrapped {
				src = fwdSeeker{dr} // the same seeker behind a thin forwarding type
			}
			br, err := carv2.NewBlockReader(src)
			if err != nil {
				return nil, false, err
			}
			var got []refcar.Block
			for {
				var c cid.Cid
				var data []byte
				if skipping {
					m, err := br.SkipNext()
					if err == io.EOF {
						return got, true, nil
					}
					if err != nil {
						return got, false, err
					}
					c = m.Cid
				} else {
					b, err := br.Next()
					if err == io.EOF {
						return got, true, nil
					}
					if err != nil {
						return got, false, err
					}
					c, data = b.Cid(), b.RawData()
				}
				got = append(got, refcar.Block{Cid: c.Bytes(), Data: data})
			}
		}
	}
	inspectFile := func(validate bool) func([]byte) ([]refcar.Block, bool, error) {
		return func(in []byte) ([]refcar.Block, bool, error) {
			f, err := os.CreateTemp("", "carlab-c02-*.car")
			if err != nil {
				panic(err)
			}
			defer os.Remove(f.Name())
			if _, err := f.Write(in); err != nil {
				panic(err)
			}
			f.Close()
			rd, err := carv2.OpenReader(f.Name())
			if err != nil {
				return nil, false, err
			}
			defer rd.Close()
			if _, err = rd.Inspect(validate); err != nil {
				return nil, false, err
			}
			return nil, true, nil
		}
	}
	inspect := func(validate bool) func([]byte) ([]refcar.Block, bool, error) {
		return func(in []byte) ([]refcar.Block, bool, error) {
			rd, err := carv2.NewReader(base(in))
			if err != nil {
				return nil, false, err
			}
			_, err = rd.Inspect(validate)
			if err != nil {
				return nil, false, err
			}
			return nil, true, nil
		}
	}
	all := []c02Reader{
		{name: "v2.BlockReader.Next(bytes.Reader)", hashes: true, returns: true, run: next(seekable)},
		{name: "v2.BlockReader.Next(plain)", hashes: true, returns: true, run: next(plain)},
		{name: "v2.BlockReader.Next(1-byte reads)", hashes: true, returns: true, run: next(onebyte)},
		{name: "v2.BlockReader.Next(bufio.Reader)", hashes: true, returns: true, run: next(buffered)},
		{name: "v2.BlockReader.Next(data+EOF reader)", hashes: true, returns: true, run: next(dataErr)},
		{name: "v2.BlockReader.SkipNext(data+EOF reader)", run: skip(dataErr)},
		{name: "v2.BlockReader.Next(stutter reader)", hashes: true, returns: true, run: next(stutter)},
		{name: "v2.BlockReader.SkipNext(stutter reader)", run: skip(stutter)},
		{name: "v2.BlockReader.Next(seeker, data+EOF)", hashes: true, returns: true, run: next(eofSeek)},
		{name: "v2.BlockReader.SkipNext(seeker, data+EOF)", run: skip(eofSeek)},
		{name: "v2.Reader.Inspect(true) over a ReaderAt returning EOF with the last full read", hashes: true, run: func(in []byte) ([]refcar.Block, bool, error) {
			rd, err := carv2.NewReader(lab.EOFReaderAt{B: in})
			if err != nil {
				return nil, false, err
			}
			if _, err = rd.Inspect(true); err != nil {
				return nil, false, err
			}
			return nil, true, nil
		}},
		// the block reader over the payload reader of a v2 Reader (for a CARv2 that is a section of the
		// file whose length is the one the header DECLARES)
		{name: "v2.BlockReader.Next(Reader.DataReader)", hashes: true, returns: true, run: overData(false, false)},
		{name: "v2.BlockReader.SkipNext(Reader.DataReader)", run: overData(true, false)},
		{name: "v2.BlockReader.SkipNext(wrapped Reader.DataReader)", run: overData(true, true)},
		{name: "v2.BlockReader.SkipNext(bufio.Reader)", run: skip(buffered)},
		{name: "v2.BlockReader.SkipNext(bytes.Reader)", run: skip(seekable)},
		{name: "v2.BlockReader.SkipNext(plain)", run: skip(plain)},
		// the same readers with ZeroLengthSectionAsEOF on: the generated archives hold no zero-length
		// section, so nothing about the expectations changes
		{name: "v2.BlockReader.Next(plain,ZeroLengthSectionAsEOF)", hashes: true, returns: true, run: nextO(plain, carv2.ZeroLengthSectionAsEOF(true))},
		{name: "v2.BlockReader.SkipNext(bytes.Reader,ZeroLengthSectionAsEOF)", run: skipO(seekable, carv2.ZeroLengthSectionAsEOF(true))},
		{name: "v2.Reader.Inspect(true,ZeroLengthSectionAsEOF)", hashes: true, run: func(in []byte) ([]refcar.Block, bool, error) {
			rd, err := carv2.NewReader(base(in), carv2.ZeroLengthSectionAsEOF(true))
			if err != nil {
				return nil, false, err
			}
			if _, err = rd.Inspect(true); err != nil {
				return nil, false, err
			}
			return nil, true, nil
		}},
		// Inspect(true) is the explicit request to verify: neither an option that lets the block reader
		// skip hashing nor an earlier non-validating pass over the same Reader takes that away
		{name: "v2.Reader.Inspect(true) on a Reader opened WithTrustedCAR(true)", hashes: true, run: func(in []byte) ([]refcar.Block, bool, error) {
			rd, err := carv2.NewReader(base(in), carv2.WithTrustedCAR(true))
			if err != nil {
				return nil, false, err
			}
			if _, err = rd.Inspect(true); err != nil {
				return nil, false, err
			}
			return nil, true, nil
		}},
		{name: "v2.Reader.Inspect(true) after Inspect(false) on the same Reader", hashes: true, run: func(in []byte) ([]refcar.Block, bool, error) {
			rd, err := carv2.NewReader(base(in))
			if err != nil {
				return nil, false, err
			}
			_, _ = rd.Inspect(false)
			if _, err = rd.Inspect(true); err != nil {
				return nil, false, err
			}
			return nil, true, nil
		}},
		{name: "v2.Reader.Inspect(true)", hashes: true, run: inspect(true)},
		{name: "v2.OpenReader(file).Inspect(true)", hashes: true, sparse: true, run: inspectFile(true)},
		{name: "v2.OpenReader(file).Inspect(false)", sparse: true, run: inspectFile(false)},
		{name: "v2.Reader.Inspect(false)", run: inspect(false)},
		// the caller's own bufio.Reader, used for one archive after another, while other readers come and go
		// (the package pools its buffered readers: the caller's must never end up among them)
		{name: "root.CarReader.Next over the caller's bufio.Reader, reused", v1only: true, hashes: true, returns: true, sparse: true, run: func(in []byte) ([]refcar.Block, bool, error) {
			decoy := c02Decoy()
			br := bufio.NewReader(bytes.NewReader(decoy))
			if first, err := carv1.NewCarReaderWithOptions(br, carv1.WithErrorOnEmptyRoots(false)); err == nil {
				for {
					if _, err := first.Next(); err != nil {
						break
					}
				}
			}
			br.Reset(base(in))
			cr, err := carv1.NewCarReaderWithOptions(br, carv1.WithErrorOnEmptyRoots(false))
			if err != nil {
				return nil, false, err
			}
			// another reader of the package starts on another source
			other, oerr := carv1.NewCarReaderWithOptions(bytes.NewReader(decoy), carv1.WithErrorOnEmptyRoots(false))
			if oerr == nil {
				_, _ = other.Next()
			}
			var got []refcar.Block
			for {
				b, err := cr.Next()
				if err == io.EOF {
					return got, true, nil
				}
				if err != nil {
					return got, false, err
				}
				got = append(got, refcar.Block{Cid: b.Cid().Bytes(), Data: b.RawData()})
			}
		}},
		{name: "root.CarReader.Next", v1only: true, hashes: true, returns: true, run: func(in []byte) ([]refcar.Block, bool, error) {
			cr, err := carv1.NewCarReaderWithOptions(base(in), carv1.WithErrorOnEmptyRoots(false))
			if err != nil {
				return nil, false, err
			}
			var got []refcar.Block
			for {
				b, err := cr.Next()
				if err == io.EOF {
					return got, true, nil
				}
				if err != nil {
					return got, false, err
				}
				got = append(got, refcar.Block{Cid: b.Cid().Bytes(), Data: b.RawData()})
			}
		}},
		{name: "root.LoadCar", v1only: true, hashes: true, returns: true, run: func(in []byte) ([]refcar.Block, bool, error) {
			rec := &recStore{}
			_, err := carv1.LoadCar(bg, rec, base(in))
			if err != nil {
				return rec.got, false, err
			}
			return rec.got, true, nil
		}},
		{name: "root.LoadCar(batch)", v1only: true, hashes: true, returns: true, run: func(in []byte) ([]refcar.Block, bool, error) {
			rec := &recBatchStore{}
			_, err := carv1.LoadCar(bg, rec, base(in))
			if err != nil {
				return nil, false, err // a batch store may legitimately have received nothing yet
			}
			return rec.got, true, nil
		}},
	}
	if fault < 0 {
		return all
	}
	var keep []c02Reader
	for _, rd := range all {
		if strings.Contains(rd.name, "stutter") || strings.Contains(rd.name, "data+EOF") || strings.Contains(rd.name, "EOF with the last") || rd.sparse {
			continue // these kinds own their bytes; the fault wrapper does not fit under them
		}
		keep = append(keep, rd)
	}
	return keep
}

// region classification of every byte offset of an archive
type c02Layout struct {
	file     []byte
	arch     *refcar.Archive
	blocks   []refcar.Block
	region   []string    // per byte
	boundary map[int]int // cut offset -> number of complete sections before it (clean end admissible)
	complete []int       // per cut offset: number of complete sections before the cut
}

func c02Build(d c02Desc) *c02Layout {
	r := gen.Rand(d.Seed)
	content := gen.MakeContent(r, gen.ContentOpts{
		MinBlocks: 1, MaxBlocks: 6, MinRoots: 1, MaxRoots: 3, Dups: true,
		Block: gen.BlockOpts{MaxSize: 180},
	})
	if r.Intn(4) == 0 { // one section with a 2-byte length varint
		content.Blocks = append(content.Blocks, gen.BoundaryBlock(r, 128+r.Intn(100)))
	}
	if d.Big > 0 { // a section beyond 1 MiB (3- or 4-byte length varint), not last
		bb := gen.BoundaryBlock(r, d.Big)
		content.Blocks = append(content.Blocks[:1], append([]refcar.Block{bb}, content.Blocks[1:]...)...)
	}
	payload := refcar.EncodeV1(content.Roots, content.NilRoots, content.Blocks)
	file := payload
	if d.V2 {
		p, _ := refcar.DecodeV1(payload, false)
		codec := uint64(refcar.CodecMhIndexSorted)
		if r.Intn(2) == 0 {
			codec = refcar.CodecIndexSorted
		}
		idx := refcar.BuildIndex(codec, refcar.ExpectedIndexRecords(p, codec, false))
		o := refcar.V2Opts{DataPadding: uint64([]int{0, 0, 3, 40}[r.Intn(4)]), IndexPadding: uint64([]int{0, 5}[r.Intn(2)]), Index: idx}
		if r.Intn(5) == 0 {
			o.Index = nil
		}
		file = refcar.EncodeV2(payload, o)
	}
	a, err := refcar.Decode(file, false)
	if err != nil {
		panic(fmt.Sprintf("reference cannot decode its own archive: %v", err))
	}
	l := &c02Layout{file: file, arch: a, blocks: content.Blocks, region: make([]string, len(file)), boundary: map[int]int{}, complete: make([]int, len(file)+1)}
	fill := func(from, to uint64, name string) {
		for i := from; i < to && i < uint64(len(file)); i++ {
			l.region[i] = name
		}
	}
	po := a.PayloadOff
	if d.V2 {
		fill(0, 11, "v2-pragma")
		fill(11, 51, "v2-header")
		fill(51, po, "v2-data-padding")
		fill(po+a.PayloadLen, uint64(len(file)), "v2-index-region")
	}
	hl := uint64(refcar.UvarintLen(a.Payload.HeaderSize - uint64(refcar.UvarintLen(a.Payload.HeaderSize))))
	// header length varint size: recompute exactly
	_, hn, _ := refcar.Uvarint(file[po:])
	hl = uint64(hn)
	fill(po, po+hl, "v1-header-length")
	fill(po+hl, po+a.Payload.HeaderSize, "v1-header-body")
	for _, s := range a.Payload.Sections {
		o := po + s.Offset
		fill(o, o+uint64(s.LenSize), "section-length")
		cidStart := o + uint64(s.LenSize)
		digStart := po + s.DataOff - uint64(len(s.Cid.Digest))
		fill(cidStart, digStart, "section-cid-prefix")
		fill(digStart, po+s.DataOff, "section-digest")
		fill(po+s.DataOff, po+s.End, "section-data")
	}
	// complete sections before each cut offset; boundaries
	for j := 0; j <= len(file); j++ {
		n := 0
		for _, s := range a.Payload.Sections {
			if po+s.End <= uint64(j) {
				n++
			}
		}
		l.complete[j] = n
	}
	l.boundary[int(po+a.Payload.HeaderSize)] = 0
	for i, s := range a.Payload.Sections {
		l.boundary[int(po+s.End)] = i + 1
	}
	return l
}

// cutPhase names where a cut at j lands.
func (l *c02Layout) cutPhase(j int) string {
	if j >= len(l.file) {
		return "end"
	}
	reg := l.region[j]
	if j > 0 && l.region[j-1] == "section-length" && reg == "section-cid-prefix" {
		return "after-section-length-varint"
	}
	if j > 0 && l.region[j-1] == "v1-header-length" && reg == "v1-header-body" {
		return "after-header-length-varint"
	}
	if j > 0 && l.region[j-1] != reg && (reg == "section-length") {
		return "section-boundary"
	}
	if reg == "section-digest" || reg == "section-cid-prefix" {
		return "in-section-cid"
	}
	return "in-" + reg
}

// c02Decoy is a small valid CARv1 that is none of the archives under test.
func c02Decoy() []byte {
	var blks []refcar.Block
	for _, d := range []string{"decoy block one", "decoy block two", "decoy block three"} {
		h, _ := refcar.Hash(0x12, []byte(d))
		blks = append(blks, refcar.Block{Cid: refcar.MakeCidV1(0x55, 0x12, h), Data: []byte(d)})
	}
	return refcar.EncodeV1([][]byte{blks[0].Cid}, false, blks)
}

func runC02(t *mon.T, raw json.RawMessage) {
	var d c02Desc
	if err := json.Unmarshal(raw, &d); err != nil {
		panic(err)
	}
	readers := c02Readers(-1)
	if d.Big > 0 {
		var keep []c02Reader
		for _, rd := range readers {
			if !strings.Contains(rd.name, "1-byte") {
				keep = append(keep, rd)
			}
		}
		readers = keep
	}
	if d.Family == "random" {
		c02Random(t, d, readers)
		return
	}
	l := c02Build(d)
	file := l.file
	po := int(l.arch.PayloadOff)
	pend := po + int(l.arch.PayloadLen)
	t.Nontrivial()
	kind := "v1"
	if d.V2 {
		kind = "v2"
	}

	// sanity: every reader accepts the unmutated archive with the full sequence
	for _, rd := range readers {
		if rd.v1only && d.V2 {
			continue
		}
		got, clean, err := rd.run(file)
		if err != nil || !clean {
			t.Violatef(rd.name+"/valid-archive/rejected", "%s rejects a valid %s archive: %v", rd.name, kind, err)
			return
		}
		if rd.returns && !seqEqual(got, l.blocks) {
			t.Violatef(rd.name+"/valid-archive/sequence", "%s returns a different sequence on a valid archive", rd.name)
			return
		}
	}

	checkPrefix := func(rd c02Reader, got []refcar.Block, what string, off int, max int) bool {
		if len(got) > max {
			t.Violatef(rd.name+"/"+what+"/extra-blocks", "%s delivered %d blocks although only %d complete sections precede offset %d", rd.name, len(got), max, off)
			return false
		}
		for i, g := range got {
			if !bytes.Equal(g.Cid, l.blocks[i].Cid) || (rd.returns && !bytes.Equal(g.Data, l.blocks[i].Data)) {
				t.Violatef(rd.name+"/"+what+"/corrupted-block", "%s delivered block %d differing from the archive's (offset %d)", rd.name, i, off)
				return false
			}
		}
		return true
	}

	sample := map[int]bool{}
	if d.Big > 0 {
		// total enumeration is too heavy for a multi-MiB archive: every offset outside the big section's
		// data, plus seeded offsets and both ends inside it
		rs := gen.Rand(d.Seed ^ 0xb16)
		// find the longest data run (the big block)
		bestLo, bestHi, curLo := 0, -1, -1
		for j := 0; j <= len(l.region); j++ {
			in := j < len(l.region) && l.region[j] == "section-data"
			if in && curLo < 0 {
				curLo = j
			}
			if !in && curLo >= 0 {
				if j-1-curLo > bestHi-bestLo {
					bestLo, bestHi = curLo, j-1
				}
				curLo = -1
			}
		}
		// the big section's own length varint and CID bytes, and a few offsets elsewhere
		for j := bestLo - 1; j >= 0 && j >= bestLo-48; j-- {
			sample[j] = true
		}
		for k := 0; k < 16; k++ {
			sample[rs.Intn(len(l.region))] = true
		}
		sample[bestHi+1] = true
		for _, j := range []int{bestLo, bestLo + 1, bestHi - 1, bestHi, (bestLo + bestHi) / 2} {
			sample[j] = true
		}
		for k := 0; k < 24; k++ {
			sample[bestLo+rs.Intn(bestHi-bestLo+1)] = true
		}
		t.Cover("big-section-archives")
	}
	switch d.Family {
	case "cuts":
		for j := 0; j < len(file); j++ {
			if d.Only > 0 && j != d.Only-1 {
				continue
			}
			if d.Big > 0 && !sample[j] {
				continue
			}
			in := file[:j]
			phase := l.cutPhase(j)
			nComplete, isBoundary := l.boundary[j]
			exempt := isBoundary || j >= pend // at a section boundary, or past the payload (index region)
			t.Cover("cut:" + kind + ":" + phase)
			for _, rd := range readers {
				if rd.v1only && d.V2 {
					continue
				}
				if rd.sparse && j < pend-400 && j%8 != int(d.Seed&7) {
					continue
				}
				got, clean, _ := rd.run(in)
				t.Events(1)
				if rd.returns {
					for _, g := range got {
						c, _, err := refcar.SplitCid(g.Cid)
						if err == nil {
							if good, known := refcar.Verifies(c, g.Data); known && !good {
								t.Violatef(rd.name+"/cut/returned-block-does-not-hash", "%s returned a block that does not hash to its CID (cut at %d)", rd.name, j)
							}
						}
					}
				}
				maxBlocks := l.complete[j]
				if !checkPrefix(rd, got, "cut:"+phase, j, maxBlocks) {
					continue
				}
				if clean && !exempt {
					t.ViolateD(rd.name+"/cut:"+phase+"/clean-end", map[string]any{"offset": j, "archive_len": len(file), "kind": kind, "blocks_delivered": len(got)},
						"%s reports a clean end of archive on a %s archive cut at byte %d (%s), which is not a section boundary", rd.name, kind, j, phase)
				}
				if clean && isBoundary && (rd.returns || rd.name[:12] == "v2.BlockRead") && len(got) != nComplete {
					t.Violatef(rd.name+"/cut:boundary/lost-blocks", "%s ended cleanly at boundary %d with %d blocks, %d complete sections precede it", rd.name, j, len(got), nComplete)
				}
			}
		}
	case "flips":
		r := gen.Rand(d.Seed ^ 0x5eed)
		for j := 0; j < len(file); j++ {
			if d.Only > 0 && j != d.Only-1 {
				continue
			}
			if d.Big > 0 && !sample[j] {
				continue
			}
			bits := []int{r.Intn(8)}
			if d.AllBits {
				bits = []int{0, 1, 2, 3, 4, 5, 6, 7}
			}
			reg := l.region[j]
			t.CoverN("flip:"+kind+":"+reg, len(bits))
			for _, bit := range bits {
				in := append([]byte{}, file...)
				in[j] ^= 1 << uint(bit)
				for _, rd := range readers {
					if rd.v1only && d.V2 {
						continue
					}
					if rd.sparse && j%8 != int(d.Seed&7) {
						continue
					}
					got, clean, _ := rd.run(in)
					t.Events(1)
					if rd.returns {
						for _, g := range got {
							c, _, err := refcar.SplitCid(g.Cid)
							if err == nil {
								if good, known := refcar.Verifies(c, g.Data); known && !good {
									t.ViolateD(rd.name+"/flip:"+reg+"/returned-block-does-not-hash", map[string]any{"offset": j, "bit": bit},
										"%s returned a block whose bytes do not hash to its CID (bit %d of byte %d flipped, %s)", rd.name, bit, j, reg)
								} else if !known {
									t.Cover("hash-unknown-to-reference")
									if c02NoHasher(c.MhCode) {
										t.ViolateD(rd.name+"/flip:"+reg+"/returned-block-under-unverifiable-hash-function", map[string]any{"offset": j, "bit": bit, "hash_code": c.MhCode},
											"%s returned a block whose CID names hash function %#x, for which no implementation exists: nothing can have been verified (bit %d of byte %d flipped, %s)", rd.name, c.MhCode, bit, j, reg)
									}
								}
							}
						}
					}
					if (reg == "section-data" || reg == "section-digest") && rd.hashes {
						// exactly the sections before the corrupted one, then a non-clean error
						if clean {
							t.ViolateD(rd.name+"/flip:"+reg+"/accepted", map[string]any{"offset": j, "bit": bit},
								"%s accepted a %s archive with bit %d of byte %d (%s) flipped", rd.name, kind, bit, j, reg)
						} else if rd.returns {
							checkPrefix(rd, got, "flip:"+reg, j, l.complete[j])
						}
					}
				}
			}
		}
	}
	if d.Family == "ioerr" {
		// the SOURCE breaks: every access to a byte at or beyond offset j fails with a non-EOF error.
		// A reader that hands out block bytes (or validates every block) needs every payload byte, so
		// with j inside the payload it cannot have reached the end: a clean end would be silent truncation.
		for j := 0; j < pend; j++ {
			if d.Only > 0 && j != d.Only-1 {
				continue
			}
			phase := l.cutPhase(j)
			t.Cover("ioerr:" + kind + ":" + phase)
			for _, rd := range c02Readers(int64(j)) {
				if (rd.v1only && d.V2) || !(rd.returns || strings.Contains(rd.name, "Inspect(true")) {
					continue
				}
				got, clean, err := rd.run(file)
				t.Events(1)
				if !checkPrefix(rd, got, "ioerr:"+phase, j, l.complete[j]) {
					continue
				}
				if clean {
					t.ViolateD(rd.name+"/ioerr:"+phase+"/clean-end", map[string]any{"offset": j, "archive_len": len(file), "kind": kind, "blocks_delivered": len(got)},
						"%s reports a clean end although its source failed with an I/O error at byte %d (%s) of a %s archive whose payload ends at %d", rd.name, j, phase, kind, pend)
				} else if err == nil {
					t.Violatef(rd.name+"/ioerr/no-error", "%s: neither clean end nor error", rd.name)
				}
			}
		}
	}
	_ = po
	t.Sample(map[string]any{"family": d.Family, "kind": kind, "archive_len": len(file), "sections": len(l.blocks), "archive_hex": lab.Hex(file)})
}

// c02Random: only the universal oracle — whatever a verifying reader returns must hash to its CID.
func c02Random(t *mon.T, d c02Desc, readers []c02Reader) {
	r := gen.Rand(d.Seed)
	base := c02Build(c02Desc{Seed: r.Int63(), V2: d.V2}).file
	t.Nontrivial()
	for i := 0; i < 200; i++ {
		in := append([]byte{}, base...)
		switch r.Intn(4) {
		case 0: // random bytes over a range
			a := r.Intn(len(in))
			b := a + r.Intn(len(in)-a)
			r.Read(in[a:b])
		case 1: // splice
			a, b := r.Intn(len(in)), r.Intn(len(in))
			if a > b {
				a, b = b, a
			}
			in = append(append([]byte{}, in[:a]...), in[b:]...)
		case 2: // duplicate a chunk
			a := r.Intn(len(in))
			b := a + r.Intn(len(in)-a)
			in = append(append(append([]byte{}, in[:b]...), in[a:b]...), in[b:]...)
		case 3:
			in = gen.Bytes(r, r.Intn(300))
		}
		for k := 0; k < 1+r.Intn(4); k++ {
			if len(in) > 0 {
				in[r.Intn(len(in))] ^= byte(1 << uint(r.Intn(8)))
			}
		}
		for _, rd := range readers {
			if !rd.returns {
				continue
			}
			got, _, _ := rd.run(in)
			t.Events(1)
			for _, g := range got {
				c, _, err := refcar.SplitCid(g.Cid)
				if err != nil {
					continue
				}
				t.Cover("random:blocks-returned")
				if good, known := refcar.Verifies(c, g.Data); known && !good {
					t.ViolateD(rd.name+"/random/returned-block-does-not-hash", map[string]any{"input": fmt.Sprintf("%x", in)},
						"%s returned a block whose bytes do not hash to its CID on a random mutation", rd.name)
				} else if !known && c02NoHasher(c.MhCode) {
					t.ViolateD(rd.name+"/random/returned-block-under-unverifiable-hash-function", map[string]any{"input": fmt.Sprintf("%x", in), "hash_code": c.MhCode},
						"%s returned a block whose CID names hash function %#x, for which no implementation exists", rd.name, c.MhCode)
				}
			}
		}
	}
}

// c02NoHasher: no hash implementation is registered for the code, so a verifying reader cannot
// have verified a block carrying it (the reference does not know the function either).
func c02NoHasher(code uint64) bool {
	_, err := multihash.GetHasher(code)
	return err != nil
}

func genC02(g *mon.G) {
	r := gen.Rand(g.Seed)
	n := g.Pick(30, 300)
	for i := 0; i < n; i++ {
		s := r.Int63()
		for _, v2 := range []bool{false, true} {
			g.Emit(c02Desc{Seed: s, V2: v2, Family: "cuts"})
			g.Emit(c02Desc{Seed: s, V2: v2, Family: "flips", AllBits: g.Thorough()})
			g.Emit(c02Desc{Seed: s, V2: v2, Family: "ioerr"})
		}
	}
	for i := 0; i < g.Pick(100, 2000); i++ {
		g.Emit(c02Desc{Seed: r.Int63(), V2: i%2 == 0, Family: "random"})
	}
	// sections beyond 1 MiB, at the 3/4-byte length-varint boundary (2 MiB) and in between
	bigs := []int{1<<20 + 4096, 2097151, 2097152, 3 << 20}
	for i := 0; i < g.Pick(4, 24); i++ {
		s := r.Int63()
		g.Emit(c02Desc{Seed: s, V2: i%2 == 1, Family: "cuts", Big: bigs[i%len(bigs)]})
		g.Emit(c02Desc{Seed: s, V2: i%2 == 0, Family: "flips", Big: bigs[(i+1)%len(bigs)]})
	}
}

func init() {
	Register(&mon.Check{
		ID:          "C02",
		Level:       "exploration",
		Rule:        "cases = (seeded small valid archive, container kind, mutation family); family cuts = EVERY proper prefix of the archive, family flips = every byte with one seeded bit (quick) or all 8 bits (thorough), family random = 200 random mutations (hash oracle only); family ioerr = the source itself fails with a non-EOF error on any access at or beyond offset j, for EVERY j inside the payload: readers that return or validate block bytes must not end cleanly and must deliver only complete, intact blocks; plus archives holding one section of 1 MiB+4 KiB / 2 MiB-1 / 2 MiB / 3 MiB (3- and 4-byte length varints) with every offset outside that block and ~30 sampled offsets inside it; each mutated input goes through 27 scanning readers (three of them with ZeroLengthSectionAsEOF on) (v2 BlockReader.Next on 3 source kinds, SkipNext on 2, Inspect(true|false), root CarReader, root LoadCar slow+batch); events_observed counts reader executions; non-trivial = every case (each holds ≥1 section)",
		Assumptions: []string{"reference section table (refcar) decides where a cut/flip lands", "hashes recomputed with Go stdlib/x-crypto", "cuts at a section boundary and cuts after the end of a CARv2 payload are exempt from the truncation clause, as the property states"},
		Gen:         genC02,
		Run:         runC02,
		MinCover: map[string]int{
			"cut:v1:after-section-length-varint": 5, "cut:v1:in-section-data": 50, "cut:v1:in-section-cid": 50, "cut:v1:in-v1-header-body": 50,
			"cut:v2:in-v2-header": 50, "cut:v2:in-section-data": 50, "cut:v2:after-section-length-varint": 5,
			"flip:v1:section-data": 100, "flip:v1:section-digest": 100, "flip:v2:section-data": 100, "flip:v2:section-digest": 100,
			"random:blocks-returned": 100, "big-section-archives": 4,
			"ioerr:v1:in-section-data": 50, "ioerr:v2:in-section-data": 50, "ioerr:v1:section-boundary": 5, "ioerr:v2:in-v2-header": 50,
		},
	})
}
