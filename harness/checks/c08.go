package checks

import (
	"bufio"
	"bytes"
	"context"
	"crypto/sha1"
	"encoding/hex"
	"encoding/json"
	"errors"
	"fmt"
	"io"
	"math"
	"os"
	"os/exec"
	"path/filepath"
	"regexp"
	"runtime"
	"sort"
	"strings"
	"sync"
	"sync/atomic"
	"time"

	"github.com/anishathalye/porcupine"
	blocks "github.com/ipfs/go-block-format"
	carv2 "github.com/ipld/go-car/v2"
	"github.com/ipld/go-car/v2/blockstore"
	"github.com/ipld/go-car/v2/storage"
	"github.com/ipld/go-car/v2/storage/deferred"

	"carlab/internal/gen"
	"carlab/internal/iofault"
	"carlab/internal/lab"
	"carlab/internal/mon"
	"carlab/internal/refcar"
)

// ---------------------------------------------------------------- descriptors

type c08Desc struct {
	Seed      int64   `json:"seed"`
	Kind      string  `json:"kind"` // blockstore | storage | deferred
	Histories int     `json:"histories"`
	Cfg       lab.Cfg `json:"cfg"`
}

type c08Viol struct {
	Key    string `json:"key"`
	Msg    string `json:"msg"`
	Detail any    `json:"detail,omitempty"`
}

type c08Result struct {
	Histories         int            `json:"histories"`
	Ops               int            `json:"ops"`
	Overlaps          map[string]int `json:"overlaps"`
	Signatures        []string       `json:"signatures"`
	Violations        []c08Viol      `json:"violations"`
	Inconclusive      []string       `json:"inconclusive"`
	Stuck             string         `json:"stuck,omitempty"` // goroutine dump when a history did not finish
	PorcupineOK       int            `json:"porcupine_ok"`
	KeysChecked       int            `json:"keys_checked"`
	CancelledCtxCalls int64          `json:"cancelled_ctx_calls"` // Has calls made under a context cancelled at call time
	RefusedBatches    int            `json:"refused_batches"`     // PutMany calls refused midway (over-long CID)
	FinalSnapshots    int            `json:"final_snapshots"`     // histories whose file was compared with its state at the terminal operation's return
	Sample            any            `json:"sample,omitempty"`
}

// ---------------------------------------------------------------- child: run histories under -race

type c08Op struct {
	Client int    `json:"c"`
	Kind   string `json:"k"`   // put putmany has get getsize list roots finalize
	Key    int    `json:"key"` // block index (-1 n/a)
	Key2   int    `json:"key2,omitempty"`
	Call   int64  `json:"call"`
	Ret    int64  `json:"ret"`
	Out    string `json:"out"` // "ok" | "true" | "false" | "found" | "notfound" | "closed" | "err:..." | list
	Listed []int  `json:"listed,omitempty"`
}

type c08Store interface {
	put(i int) error
	putMany(is []int) error
	has(i int) (bool, error)
	get(i int) ([]byte, error)
	getSize(i int) (int, error)
	list(ctx context.Context, slow bool, clock *int64) ([]int, error)
	roots() error
	finalize() error
	fileBytes() []byte
}

func isClosedErr(err error) bool {
	if err == nil {
		return false
	}
	s := err.Error()
	return errors.Is(err, storage.ErrClosed) || strings.Contains(s, "after closing") || strings.Contains(s, "after finalize") || strings.Contains(s, "closed")
}

type c08BS struct {
	bs    *blockstore.ReadWrite
	blks  []refcar.Block
	path  string
	keyOf map[string]int
}

func (s *c08BS) put(i int) error { return s.bs.Put(bg, lab.ToBlock(s.blks[i])) }
func (s *c08BS) putMany(is []int) error {
	var l []blocks.Block
	for _, i := range is {
		l = append(l, lab.ToBlock(s.blks[i]))
	}
	return s.bs.PutMany(bg, l)
}

// putManyRefused: a batch whose second block has a CID over MaxIndexCidSize; the batch is refused
// there, the first block may or may not stay stored.
func (s *c08BS) putManyRefused(i int) error {
	long := refcar.Block{Cid: refcar.MakeCidV1(0x55, 0x13, bytes.Repeat([]byte{0x5a}, 120)), Data: []byte("refused: CID over the limit")}
	return s.bs.PutMany(bg, []blocks.Block{lab.ToBlock(s.blks[i]), lab.ToBlock(long)})
}
func (s *c08BS) has(i int) (bool, error) { return s.bs.Has(bg, lab.ToCid(s.blks[i].Cid)) }
func (s *c08BS) get(i int) ([]byte, error) {
	b, err := s.bs.Get(bg, lab.ToCid(s.blks[i].Cid))
	if err != nil {
		return nil, err
	}
	return b.RawData(), nil
}
func (s *c08BS) getSize(i int) (int, error) { return s.bs.GetSize(bg, lab.ToCid(s.blks[i].Cid)) }
func (s *c08BS) list(ctx context.Context, slow bool, clock *int64) ([]int, error) {
	ch, err := s.bs.AllKeysChan(ctx)
	if err != nil {
		return nil, err
	}
	var out []int
	for c := range ch {
		i, ok := s.keyOf[string(c.Hash())]
		if ok {
			out = append(out, i)
		} else {
			out = append(out, -1)
		}
		if slow {
			runtime.Gosched()
			// a consumer that looks every listed key up before taking the next one
			if ok {
				if has, err := s.bs.Has(ctx, lab.ToCid(s.blks[i].Cid)); err == nil && !has {
					return out, errors.New("listed key is not in the store (Has = false while listing)")
				}
				if b, err := s.bs.Get(ctx, lab.ToCid(s.blks[i].Cid)); err == nil && !bytes.Equal(b.RawData(), s.blks[i].Data) {
					return out, errors.New("listed key: Get returned wrong bytes while listing")
				}
			}
		}
	}
	return out, nil
}
func (s *c08BS) roots() error      { _, err := s.bs.Roots(); return err }
func (s *c08BS) finalize() error   { return s.bs.Finalize() }
func (s *c08BS) fileBytes() []byte { return mustRead(s.path) }

type c08ST struct {
	sc   *storage.StorageCar
	mf   *iofault.MemFile
	blks []refcar.Block
}

func (s *c08ST) put(i int) error { return s.sc.Put(bg, string(s.blks[i].Cid), s.blks[i].Data) }
func (s *c08ST) putMany(is []int) error {
	for _, i := range is {
		if err := s.put(i); err != nil {
			return err
		}
	}
	return nil
}
func (s *c08ST) has(i int) (bool, error)   { return s.sc.Has(bg, string(s.blks[i].Cid)) }
func (s *c08ST) get(i int) ([]byte, error) { return s.sc.Get(bg, string(s.blks[i].Cid)) }
func (s *c08ST) getSize(i int) (int, error) {
	rc, err := s.sc.GetStream(bg, string(s.blks[i].Cid))
	if err != nil {
		return 0, err
	}
	defer rc.Close()
	b, err := io.ReadAll(rc)
	return len(b), err
}
func (s *c08ST) list(context.Context, bool, *int64) ([]int, error) { return nil, errors.New("n/a") }
func (s *c08ST) roots() error                                      { _ = s.sc.Roots(); return nil }
func (s *c08ST) finalize() error                                   { return s.sc.Finalize() }
func (s *c08ST) fileBytes() []byte                                 { return s.mf.Bytes() }

type c08DW struct {
	dw   *deferred.DeferredCarWriter
	mf   *iofault.MemFile
	blks []refcar.Block
}

func (s *c08DW) put(i int) error { return s.dw.Put(bg, string(s.blks[i].Cid), s.blks[i].Data) }
func (s *c08DW) putMany(is []int) error {
	for _, i := range is {
		if err := s.put(i); err != nil {
			return err
		}
	}
	return nil
}
func (s *c08DW) has(i int) (bool, error)                           { return s.dw.Has(bg, string(s.blks[i].Cid)) }
func (s *c08DW) get(int) ([]byte, error)                           { return nil, errors.New("n/a") }
func (s *c08DW) getSize(int) (int, error)                          { return 0, errors.New("n/a") }
func (s *c08DW) list(context.Context, bool, *int64) ([]int, error) { return nil, errors.New("n/a") }
func (s *c08DW) roots() error                                      { return nil }
func (s *c08DW) finalize() error                                   { return s.dw.Close() }
func (s *c08DW) fileBytes() []byte                                 { return s.mf.Bytes() }

// c08Progress counts completed client operations (bounded-progress monitor).
var c08Progress int64

func c08Child(args []string) int {
	if len(args) < 2 {
		return 2
	}
	var d c08Desc
	if err := json.Unmarshal([]byte(args[0]), &d); err != nil {
		fmt.Println(err)
		return 2
	}
	out := args[1]
	res := &c08Result{Overlaps: map[string]int{}}
	sigs := map[string]bool{}
	dir := lab.TempDir("c08")
	defer os.RemoveAll(dir)
	r := gen.Rand(d.Seed)
	write := func() {
		for s := range sigs {
			res.Signatures = append(res.Signatures, s)
		}
		b, _ := json.Marshal(res)
		_ = os.WriteFile(out, b, 0o644)
	}
	for h := 0; h < d.Histories; h++ {
		hseed := r.Int63()
		done := make(chan struct{})
		var ops []c08Op
		var viols []c08Viol
		var incon []string
		go func() {
			defer close(done)
			ops, viols, incon = c08History(d, hseed, dir, res)
		}()
		// bounded-progress monitor on a logical quantity: completed operations. A history is declared
		// stuck only when that counter did not move during two consecutive 30 s windows.
		stuck := false
		last, idle := atomic.LoadInt64(&c08Progress), 0
	wait:
		for {
			select {
			case <-done:
				break wait
			case <-time.After(30 * time.Second):
				cur := atomic.LoadInt64(&c08Progress)
				if cur == last {
					idle++
				} else {
					idle, last = 0, cur
				}
				if idle >= 2 {
					stuck = true
					break wait
				}
			}
		}
		if stuck {
			buf := make([]byte, 1<<20)
			n := runtime.Stack(buf, true)
			res.Stuck = string(buf[:n])
			write()
			return 0
		}
		res.Histories++
		res.Ops += len(ops)
		res.Violations = append(res.Violations, viols...)
		res.Inconclusive = append(res.Inconclusive, incon...)
		// overlaps and interleaving signature
		sort.Slice(ops, func(i, j int) bool { return ops[i].Call < ops[j].Call })
		hsh := sha1.New()
		for i := range ops {
			fmt.Fprintf(hsh, "%d:%s:%d;", ops[i].Client, ops[i].Kind, ops[i].Ret)
			for j := i + 1; j < len(ops) && ops[j].Call < ops[i].Ret; j++ {
				a, b := ops[i].Kind, ops[j].Kind
				if a > b {
					a, b = b, a
				}
				res.Overlaps[a+"||"+b]++
			}
		}
		sigs[hex.EncodeToString(hsh.Sum(nil)[:8])] = true
		if res.Sample == nil && len(ops) > 0 {
			n := len(ops)
			if n > 12 {
				n = 12
			}
			res.Sample = map[string]any{"kind": d.Kind, "cfg": d.Cfg.String(), "first_ops_by_call_time": ops[:n], "ops_in_history": len(ops)}
		}
	}
	write()
	return 0
}

// c08History runs one concurrent history and checks it.
func c08History(d c08Desc, seed int64, dir string, res *c08Result) ([]c08Op, []c08Viol, []string) {
	r := gen.Rand(seed)
	nkeys := 8 + r.Intn(25)
	var blks []refcar.Block
	seen := map[string]bool{}
	for len(blks) < nkeys {
		b := gen.HonestBlock(r, gen.BlockOpts{Size: 1 + r.Intn(64), NoIdentity: true, NoV0: true})
		c, _, _ := refcar.SplitCid(b.Cid)
		if seen[string(c.Multihash())] {
			continue
		}
		seen[string(c.Multihash())] = true
		blks = append(blks, b)
	}
	keyOf := map[string]int{}
	for i, b := range blks {
		c, _, _ := refcar.SplitCid(b.Cid)
		keyOf[string(c.Multihash())] = i
	}
	rootsRaw := [][]byte{blks[0].Cid}
	roots := lab.ToCids(rootsRaw, false)
	var viols []c08Viol
	var incon []string
	var vmu sync.Mutex
	addV := func(key, msg string, detail any) {
		vmu.Lock()
		viols = append(viols, c08Viol{Key: "history(" + d.Kind + ")/" + key, Msg: msg, Detail: detail})
		vmu.Unlock()
	}
	yield := func(ord int) {
		if ord%3 != 0 {
			runtime.Gosched()
		}
	}
	var st c08Store
	var cbAlways, cbOnce, cbAlways2 int64
	switch d.Kind {
	case "blockstore":
		p := filepath.Join(dir, fmt.Sprintf("h%d.car", seed))
		var bs *blockstore.ReadWrite
		var err error
		if seed%2 == 0 {
			// the store opens (and owns, and closes) the file itself: the tap is attached by name
			os.Remove(p)
			tap := iofault.TapPath(p)
			tap.Yield = yield
			defer func() { iofault.UntapPath(p); os.Remove(p) }()
			bs, err = blockstore.OpenReadWrite(p, roots, d.Cfg.Opts()...)
		} else {
			f, ferr := os.OpenFile(p, os.O_RDWR|os.O_CREATE|os.O_TRUNC, 0o666)
			if ferr != nil {
				panic(ferr)
			}
			tap := iofault.Tap(f)
			tap.Yield = yield
			defer func() { iofault.Untap(f); f.Close(); os.Remove(p) }()
			bs, err = blockstore.OpenReadWriteFile(f, roots, d.Cfg.Opts()...)
		}
		if err != nil {
			addV("open/error", err.Error(), nil)
			return nil, viols, nil
		}
		st = &c08BS{bs: bs, blks: blks, path: p, keyOf: keyOf}
	case "storage":
		mf := iofault.New(nil)
		mf.NoLog = true
		mf.Hook = yield
		sc, err := storage.NewReadableWritable(mf, roots, d.Cfg.Opts()...)
		if err != nil {
			addV("open/error", err.Error(), nil)
			return nil, viols, nil
		}
		st = &c08ST{sc: sc, mf: mf, blks: blks}
	case "deferred":
		mf := iofault.New(nil)
		mf.NoLog = true
		mf.Hook = yield
		c2 := d.Cfg
		c2.V1 = false
		dw := deferred.NewDeferredCarWriterForStream(iofault.PlainWriter{M: mf}, roots, c2.Opts()...)
		// listeners are registered before the goroutines start (registration is not a concurrent operation):
		// one permanent, one once-only in the middle, another permanent
		dw.OnPut(func(int) { atomic.AddInt64(&cbAlways, 1) }, false)
		dw.OnPut(func(int) { atomic.AddInt64(&cbOnce, 1) }, true)
		dw.OnPut(func(int) { atomic.AddInt64(&cbAlways2, 1) }, false)
		st = &c08DW{dw: dw, mf: mf, blks: blks}
	}

	var finSnap atomic.Value // []byte: the file as it was when the terminal operation returned success
	G := []int{2, 4, 8, 16}[r.Intn(4)]
	opsPer := 3 + r.Intn(8)
	withFinalize := r.Intn(3) != 0
	finalizer := r.Intn(G)
	finalizeAt := r.Intn(opsPer)
	// blockstore variant: the terminal operation is split — one client calls FinalizeReadOnly while a
	// separate goroutine keeps calling Close until it is accepted (Close is refused before finalization)
	bsStore, _ := st.(*c08BS)
	roClose := bsStore != nil && withFinalize && r.Intn(2) == 0
	var clock int64
	perClient := make([][]c08Op, G)
	var wg sync.WaitGroup
	start := make(chan struct{})
	for g := 0; g < G; g++ {
		wg.Add(1)
		cr := gen.Rand(r.Int63())
		go func(g int, cr *gen.RandT) {
			defer wg.Done()
			defer func() {
				if p := recover(); p != nil {
					buf := make([]byte, 1<<16)
					n := runtime.Stack(buf, false)
					addV(mon.PanicKey(buf[:n]), fmt.Sprintf("panic in a client goroutine: %v", p), string(buf[:n]))
				}
			}()
			<-start
			for i := 0; i < opsPer; i++ {
				op := c08Op{Client: g, Key: cr.Intn(nkeys), Key2: -1}
				kinds := []string{"put", "put", "put", "putmany", "has", "has", "get", "get", "getsize", "list", "roots"}
				if d.Kind == "blockstore" {
					kinds = append(kinds, "hasc") // Has under a context that is cancelled while the call may be waiting
				}
				if d.Kind == "blockstore" && d.Cfg.MaxCid > 0 {
					kinds = append(kinds, "putmanyx", "putmanyx")
				}
				if d.Kind == "storage" {
					kinds = []string{"put", "put", "put", "has", "has", "get", "get", "getsize", "roots"}
				}
				if d.Kind == "deferred" {
					kinds = []string{"put", "put", "has", "has"}
				}
				op.Kind = kinds[cr.Intn(len(kinds))]
				if withFinalize && g == finalizer && i == finalizeAt {
					op.Kind = "finalize"
					op.Key = -1
				}
				var err error
				op.Call = atomic.AddInt64(&clock, 1)
				switch op.Kind {
				case "put":
					err = st.put(op.Key)
					op.Out = "ok"
				case "putmany":
					op.Key2 = cr.Intn(nkeys)
					err = st.putMany([]int{op.Key, op.Key2})
					op.Out = "ok"
				case "putmanyx":
					err = bsStore.putManyRefused(op.Key)
					var tl *carv2.ErrCidTooLarge
					switch {
					case err == nil:
						addV("PutMany/over-long-cid-accepted", "PutMany accepted a block whose CID is over MaxIndexCidSize", nil)
						op.Out = "ok"
					case errors.As(err, &tl):
						op.Out, err = "maybe", nil // refused midway: the first block may have been stored
					default:
						op.Out = "ok" // replaced below by closed / err:
					}
				case "hasc":
					// a caller that gives up: the context is cancelled at about the time the call starts. Whatever
					// the call answers (a result or the context's error), the store must stay usable for everyone
					cctx, cancel := context.WithCancel(context.Background())
					go func() { runtime.Gosched(); cancel() }()
					var h bool
					h, err = bsStore.bs.Has(cctx, lab.ToCid(blks[op.Key].Cid))
					cancel()
					op.Kind = "has"
					op.Out = fmt.Sprint(h)
					if err != nil && (errors.Is(err, context.Canceled) || errors.Is(err, context.DeadlineExceeded)) {
						op.Kind, op.Out, err = "has-cancelled", "ctx", nil
					}
					atomic.AddInt64(&res.CancelledCtxCalls, 1)
				case "has":
					var h bool
					h, err = st.has(op.Key)
					op.Out = fmt.Sprint(h)
				case "get":
					var b []byte
					b, err = st.get(op.Key)
					if err == nil {
						op.Out = "found"
						if !bytes.Equal(b, blks[op.Key].Data) {
							addV("Get/wrong-bytes", fmt.Sprintf("Get returned %d bytes that are not the block's", len(b)), nil)
						}
					} else if notFound(err) {
						op.Out, err = "notfound", nil
					}
				case "getsize":
					var n int
					n, err = st.getSize(op.Key)
					if err == nil {
						op.Out = "found"
						if n != len(blks[op.Key].Data) {
							addV("GetSize/wrong-size", fmt.Sprintf("GetSize = %d, block has %d bytes", n, len(blks[op.Key].Data)), nil)
						}
					} else if notFound(err) {
						op.Out, err = "notfound", nil
					}
				case "list":
					ctx, cancel := context.WithCancel(context.Background())
					cancelled := cr.Intn(6) == 0
					if cancelled {
						cancel()
					}
					op.Listed, err = st.list(ctx, cr.Intn(2) == 0, &clock)
					cancel()
					op.Out = "listed"
					if cancelled {
						op.Out = "cancelled"
						if err != nil && errors.Is(err, context.Canceled) {
							err = nil
						}
					}
				case "roots":
					err = st.roots()
					op.Out = "ok"
				case "finalize":
					if roClose {
						op.Kind = "finalize-ro"
						err = bsStore.bs.FinalizeReadOnly()
					} else {
						err = st.finalize()
					}
					if err == nil {
						// what the file holds at the moment the terminal operation reports success
						finSnap.CompareAndSwap(nil, st.fileBytes())
					}
					op.Out = "ok"
				}
				op.Ret = atomic.AddInt64(&clock, 1)
				atomic.AddInt64(&c08Progress, 1)
				if err != nil {
					if isClosedErr(err) {
						op.Out = "closed"
					} else if op.Kind == "roots" && strings.Contains(err.Error(), "closed") {
						op.Out = "closed"
					} else {
						op.Out = "err:" + err.Error()
					}
				}
				perClient[g] = append(perClient[g], op)
			}
		}(g, cr)
	}
	var closerOps []c08Op
	stopCloser := make(chan struct{})
	closerDone := make(chan struct{})
	if roClose {
		go func() {
			defer close(closerDone)
			<-start
			for {
				call := atomic.AddInt64(&clock, 1)
				err := bsStore.bs.Close()
				ret := atomic.AddInt64(&clock, 1)
				if err == nil {
					closerOps = append(closerOps, c08Op{Client: G, Kind: "finalize", Key: -1, Key2: -1, Call: call, Ret: ret, Out: "ok"})
					atomic.AddInt64(&c08Progress, 1)
					return
				}
				select {
				case <-stopCloser:
					return
				default:
					runtime.Gosched()
				}
			}
		}()
	} else {
		close(closerDone)
	}
	// one more client that only ever asks for the roots (a call that takes no lock of its own): whatever
	// a terminal operation does to the store's reader, it must not race with it
	var rootsOps []c08Op
	rootsDone := make(chan struct{})
	go func() {
		defer close(rootsDone)
		<-start
		for i := 0; i < 6; i++ {
			op := c08Op{Client: G + 1, Kind: "roots", Key: -1, Key2: -1, Out: "ok"}
			op.Call = atomic.AddInt64(&clock, 1)
			err := st.roots()
			op.Ret = atomic.AddInt64(&clock, 1)
			if err != nil {
				if isClosedErr(err) || strings.Contains(err.Error(), "closed") {
					op.Out = "closed"
				} else {
					op.Out = "err:" + err.Error()
				}
			}
			rootsOps = append(rootsOps, op)
			runtime.Gosched()
		}
	}()
	close(start)
	wg.Wait()
	<-rootsDone
	close(stopCloser)
	<-closerDone
	if roClose && len(closerOps) == 0 {
		// every client is done: now Close must be accepted (the store was finalized) — or nothing was finalized
		call := atomic.AddInt64(&clock, 1)
		if err := bsStore.bs.Close(); err == nil {
			closerOps = append(closerOps, c08Op{Client: G, Kind: "finalize", Key: -1, Key2: -1, Call: call, Ret: atomic.AddInt64(&clock, 1), Out: "ok"})
		}
	}
	var ops []c08Op
	ops = append(ops, closerOps...)
	ops = append(ops, rootsOps...)
	for _, l := range perClient {
		ops = append(ops, l...)
	}

	// ---- deferred writer: put listeners fire once per Put, in spite of concurrency; once-only ones exactly once
	if d.Kind == "deferred" {
		puts := 0
		for _, o := range ops {
			if o.Kind == "put" && o.Out != "closed" {
				puts++
			}
		}
		if int(cbAlways) != puts || int(cbAlways2) != puts {
			addV("OnPut/permanent-listener-count", fmt.Sprintf("permanent listeners fired %d and %d times for %d Puts", cbAlways, cbAlways2, puts), nil)
		}
		if (puts > 0 && cbOnce != 1) || (puts == 0 && cbOnce != 0) {
			addV("OnPut/once-listener-count", fmt.Sprintf("once-only listener fired %d times for %d Puts", cbOnce, puts), nil)
		}
	}

	// ---- interval rules for the terminal operation
	var fin *c08Op
	for i := range ops {
		if ops[i].Kind == "finalize" {
			fin = &ops[i]
		}
	}
	var finRO *c08Op
	for i := range ops {
		if ops[i].Kind == "finalize-ro" {
			finRO = &ops[i]
		}
	}
	for _, o := range ops {
		cannotFinalize := d.Cfg.IndexPad >= 1<<62 // an index padding no file can hold: Finalize fails, and must RETURN
		if o.Kind == "finalize" {
			if o.Out != "ok" && !(cannotFinalize && strings.HasPrefix(o.Out, "err:")) {
				addV("Finalize/error", "Finalize racing with other operations failed: "+o.Out, nil)
			}
			continue
		}
		if o.Kind == "finalize-ro" {
			if o.Out != "ok" && !(cannotFinalize && strings.HasPrefix(o.Out, "err:")) {
				addV("FinalizeReadOnly/error", "FinalizeReadOnly racing with Close and other operations failed: "+o.Out, nil)
			}
			continue
		}
		if finRO != nil && (o.Kind == "put" || o.Kind == "putmany") && o.Call > finRO.Ret && o.Out == "ok" {
			addV(o.Kind+"/succeeded-after-FinalizeReadOnly", fmt.Sprintf("%s was invoked after FinalizeReadOnly had returned and still succeeded", o.Kind), o)
		}
		switch {
		case strings.HasPrefix(o.Out, "err:"):
			addV(o.Kind+"/unexpected-error", fmt.Sprintf("%s returned %s", o.Kind, o.Out), nil)
		case o.Out == "closed":
			firstTerminal := int64(1) << 62
			if fin != nil {
				firstTerminal = fin.Call
			}
			if finRO != nil && finRO.Call < firstTerminal {
				firstTerminal = finRO.Call
			}
			if o.Ret < firstTerminal {
				addV(o.Kind+"/closed-error-before-finalize", fmt.Sprintf("%s failed with a closed/finalized error although no terminal operation had been invoked before it returned", o.Kind), o)
			}
		case o.Out == "cancelled":
			// the caller cancelled before invoking: whatever the call answered is not judged
		default:
			if fin != nil && o.Call > fin.Ret && o.Kind != "roots" {
				addV(o.Kind+"/succeeded-after-finalize", fmt.Sprintf("%s was invoked after Finalize had returned and still succeeded (%s)", o.Kind, o.Out), o)
			}
		}
	}

	// ---- per-key linearizability (porcupine), set model: absent -> present
	type kin struct {
		Op  string
		Key int
	}
	byKey := map[int][]porcupine.Operation{}
	add := func(key int, o c08Op, kind, out string) {
		byKey[key] = append(byKey[key], porcupine.Operation{ClientId: o.Client, Input: kin{kind, key}, Call: o.Call, Output: out, Return: o.Ret})
	}
	for _, o := range ops {
		if o.Out == "closed" || strings.HasPrefix(o.Out, "err:") {
			continue
		}
		switch o.Kind {
		case "put":
			add(o.Key, o, "put", "ok")
		case "putmany":
			add(o.Key, o, "put", "ok")
			if o.Key2 != o.Key {
				add(o.Key2, o, "put", "ok")
			}
		case "putmanyx":
			if o.Out == "maybe" {
				res.RefusedBatches++
				// refused midway: the first block may have taken effect at any time after the call, or never
				open := o
				open.Ret = math.MaxInt64 / 2
				add(o.Key, open, "put", "ok")
			}
		case "has":
			add(o.Key, o, "read", o.Out)
		case "get", "getsize":
			out := "false"
			if o.Out == "found" {
				out = "true"
			}
			add(o.Key, o, "read", out)
		case "list":
			if o.Out != "listed" {
				continue
			}
			listed := map[int]int{}
			for _, k := range o.Listed {
				listed[k]++
			}
			if listed[-1] > 0 {
				addV("AllKeysChan/unknown-key", "listing returned a key that is no block of this history", nil)
			}
			for k := 0; k < nkeys; k++ {
				if listed[k] > 1 && !d.Cfg.AllowDup {
					addV("AllKeysChan/key-listed-twice", "a key was listed twice although de-duplication is on", nil)
				}
				add(k, o, "read", fmt.Sprint(listed[k] > 0))
			}
		}
	}
	model := porcupine.Model{
		Init: func() any { return false },
		Step: func(st, in, out any) (bool, any) {
			i := in.(kin)
			if i.Op == "put" {
				return true, true
			}
			return out.(string) == fmt.Sprint(st.(bool)), st
		},
		Equal: func(a, b any) bool { return a.(bool) == b.(bool) },
	}
	for k, kops := range byKey {
		resu, _ := porcupine.CheckOperationsVerbose(model, kops, 60*time.Second)
		res.KeysChecked++
		switch resu {
		case porcupine.Ok:
			res.PorcupineOK++
		case porcupine.Illegal:
			sort.Slice(kops, func(i, j int) bool { return kops[i].Call < kops[j].Call })
			var hist []string
			for _, o := range kops {
				hist = append(hist, fmt.Sprintf("c%d %s[%d,%d]=%v", o.ClientId, o.Input.(kin).Op, o.Call, o.Return, o.Output))
			}
			addV("linearizability/no-valid-order", fmt.Sprintf("operations on one key admit no sequential order that respects real time (key %d)", k), hist)
		default:
			incon = append(incon, "porcupine timed out on a key history")
		}
	}

	// ---- a store that reported itself finalized has stopped writing: whatever was still in flight
	// (a Put blocked in a slow stream, say) either made it into the file before that or not at all
	if snap, _ := finSnap.Load().([]byte); snap != nil {
		if now := st.fileBytes(); !bytes.Equal(snap, now) {
			addV("final-file/changed-after-the-terminal-operation-returned", fmt.Sprintf("the output had %d bytes when Finalize/Close returned success and has %d bytes (first difference at %d) once all clients are done", len(snap), len(now), lab.FirstDiff(snap, now)), nil)
		}
		res.FinalSnapshots++
	}
	// ---- final file
	if fin != nil && fin.Out == "ok" && d.Cfg.IndexPad < 1<<62 { // (a Finalize that cannot succeed leaves no archive to judge)
		acked := map[int]bool{}
		maybe := map[int]bool{}
		for _, o := range ops {
			if (o.Kind == "put" || o.Kind == "putmany") && o.Out == "ok" {
				acked[o.Key] = true
				if o.Kind == "putmany" {
					acked[o.Key2] = true
				}
			}
		}
		for _, o := range ops {
			if o.Kind == "putmanyx" && o.Out == "maybe" {
				maybe[o.Key] = true
			}
		}
		if d.Kind == "deferred" && len(acked) == 0 {
			return ops, viols, incon
		}
		file := st.fileBytes()
		a, err := refcar.Decode(file, false)
		if err != nil {
			addV("final-file/not-well-formed", "finalized file does not decode: "+err.Error(), nil)
			return ops, viols, incon
		}
		count := map[int]int{}
		for _, s := range a.Payload.Sections {
			i, ok := keyOf[string(s.Cid.Multihash())]
			if !ok || !bytes.Equal(s.Data, blks[i].Data) {
				addV("final-file/unknown-or-corrupt-block", "finalized file holds a block that is no intact block of this history", nil)
				continue
			}
			count[i]++
		}
		for i := range acked {
			if count[i] == 0 {
				addV("final-file/acked-block-missing", "a block whose Put returned success is missing from the finalized file", nil)
			}
		}
		for i, n := range count {
			if n > 1 && !d.Cfg.AllowDup {
				addV("final-file/duplicate-block", fmt.Sprintf("block %d appears %d times in the finalized file although de-duplication is on", i, n), nil)
			}
			if !acked[i] && !maybe[i] {
				// a Put that failed with a closed error must not have been written
				addV("final-file/unacknowledged-block", "finalized file holds a block whose Put never returned success", nil)
			}
		}
		if a.Version == 2 {
			pi, err := refcar.ParseIndex(a.IndexBytes)
			if err != nil || !refcar.RecordsEqual(pi.Records(), refcar.ExpectedIndexRecords(a.Payload, pi.Codec, true)) {
				addV("final-file/index", fmt.Sprintf("index of the finalized file does not match its sections (%v)", err), nil)
			}
		}
	}
	return ops, viols, incon
}

func init() { childKinds["c08"] = c08Child }

// ---------------------------------------------------------------- parent

var raceFrameRe = regexp.MustCompile(`^\s+(github\.com/ipld/go-car\S*)\(`)

// c08ParseRaceLogs extracts de-duplicated racy pairs (innermost go-car frame of each side).
func c08ParseRaceLogs(dir string) (pairs map[string]string, blocksN int) {
	pairs = map[string]string{}
	files, _ := filepath.Glob(filepath.Join(dir, "race.*"))
	for _, f := range files {
		fh, err := os.Open(f)
		if err != nil {
			continue
		}
		sc := bufio.NewScanner(fh)
		sc.Buffer(make([]byte, 1<<20), 1<<24)
		var cur []string
		var text strings.Builder
		inBlock := false
		side := -1
		flush := func() {
			if !inBlock {
				return
			}
			blocksN++
			sort.Strings(cur)
			k := "race/" + strings.Join(cur, "~")
			if len(cur) == 0 {
				k = "race/outside-go-car"
			}
			if _, ok := pairs[k]; !ok {
				pairs[k] = text.String()
			}
		}
		for sc.Scan() {
			line := sc.Text()
			if strings.HasPrefix(line, "WARNING: DATA RACE") {
				flush()
				inBlock, cur, side = true, nil, -1
				text.Reset()
			}
			if !inBlock {
				continue
			}
			if text.Len() < 6000 {
				text.WriteString(line + "\n")
			}
			if strings.HasPrefix(line, "==================") && text.Len() > 40 {
				flush()
				inBlock = false
				continue
			}
			t := strings.TrimSpace(line)
			if strings.HasSuffix(t, ":") && (strings.Contains(t, " by goroutine ") || strings.Contains(t, " by main goroutine")) && !strings.HasPrefix(t, "Goroutine") {
				side++
				continue
			}
			if strings.HasPrefix(t, "Goroutine ") {
				side = 99 // creation stacks: not part of the pair
				continue
			}
			if side >= 0 && side < 2 && len(cur) == side {
				if m := raceFrameRe.FindStringSubmatch(line); m != nil {
					cur = append(cur, strings.TrimPrefix(m[1], "github.com/ipld/go-car"))
				}
			}
		}
		flush()
		fh.Close()
	}
	return
}

func runC08(t *mon.T, raw json.RawMessage) {
	var d c08Desc
	if err := json.Unmarshal(raw, &d); err != nil {
		panic(err)
	}
	dir := lab.TempDir("c08p")
	defer os.RemoveAll(dir)
	out := filepath.Join(dir, "result.json")
	bin := filepath.Join(os.Getenv("VERIF_BIN"), "carlab-race")
	ctx, cancel := context.WithTimeout(context.Background(), 15*time.Minute)
	defer cancel()
	cmd := exec.CommandContext(ctx, bin, "child", "c08", string(raw), out)
	cmd.Env = append(os.Environ(), "GORACE=halt_on_error=0 log_path="+filepath.Join(dir, "race"))
	var stderr bytes.Buffer
	cmd.Stderr = &stderr
	cmd.Stdout = &stderr
	err := cmd.Run()
	if ctx.Err() != nil {
		t.Inconclusive("race child: wall-clock watchdog fired")
		return
	}
	t.Nontrivial()
	t.Cover("kind:" + d.Kind)
	pairs, nblocks := c08ParseRaceLogs(dir)
	t.CoverN("race-report-blocks", nblocks)
	for k, text := range pairs {
		t.ViolateD(k, text, "Go race detector: %s (kind %s, cfg %s)", k, d.Kind, d.Cfg.Short())
	}
	b, rerr := os.ReadFile(out)
	if rerr != nil {
		// the child died: panic or fatal outside recover
		msg := stderr.String()
		key := "child-died/" + d.Kind
		if i := strings.Index(msg, "goroutine "); i >= 0 {
			key = mon.PanicKey([]byte(msg))
		}
		t.ViolateD(key, mon.Trunc(msg, 6000), "race child exited without a result (%v)", err)
		return
	}
	var res c08Result
	if err := json.Unmarshal(b, &res); err != nil {
		t.Violatef("harness/result-unreadable", "%v", err)
		return
	}
	if res.Stuck != "" {
		// bounded progress: classify the dump
		blocked := strings.Count(res.Stuck, "sync.(*RWMutex)") + strings.Count(res.Stuck, "sync.(*Mutex).Lock")
		if blocked > 0 && strings.Contains(res.Stuck, "github.com/ipld/go-car") {
			t.ViolateD("deadlock/"+d.Kind, mon.Trunc(res.Stuck, 12000), "a history made no progress (no operation completed) during two consecutive 30 s windows with %d goroutines parked on go-car mutexes", blocked)
		} else {
			t.Inconclusive("history stuck without goroutines parked on go-car mutexes")
		}
	}
	for _, v := range res.Violations {
		t.ViolateD(v.Key, v.Detail, "%s", v.Msg)
	}
	for _, s := range res.Inconclusive {
		t.Inconclusive("%s", s)
	}
	t.CoverN("histories", res.Histories)
	t.CoverN("ops", res.Ops)
	t.CoverN("keys-checked-by-porcupine", res.KeysChecked)
	t.CoverN("keys-linearizable", res.PorcupineOK)
	t.CoverN("files-compared-with-their-state-at-finalize-return", res.FinalSnapshots)
	t.CoverN("putmany-batches-refused-midway", res.RefusedBatches)
	t.CoverN("has-under-a-cancelled-context", int(res.CancelledCtxCalls))
	t.CoverN("distinct-interleaving-signatures", len(res.Signatures))
	for k, n := range res.Overlaps {
		t.CoverN("overlap:"+k, n)
	}
	t.Events(res.Ops)
	if res.Sample != nil {
		t.Sample(res.Sample)
	}
}

func genC08(g *mon.G) {
	r := gen.Rand(g.Seed)
	cfgs := map[string][]lab.Cfg{
		"blockstore": {{}, {WholeCID: true}, {V1: true}, {DataPad: 5, Sorted: true}, {MaxCid: 100}, {IndexPad: 1 << 63}},
		"storage":    {{}, {V1: true}, {WholeCID: true, IndexPad: 3}},
		"deferred":   {{V1: true}},
	}
	batches := g.Pick(48, 400)
	per := g.Pick(16, 32)
	kinds := []string{"blockstore", "blockstore", "storage", "deferred"}
	for i := 0; i < batches; i++ {
		k := kinds[i%len(kinds)]
		c := cfgs[k][r.Intn(len(cfgs[k]))]
		g.Emit(c08Desc{Seed: r.Int63(), Kind: k, Histories: per, Cfg: c})
	}
}

func init() {
	Register(&mon.Check{
		ID:          "C08",
		Level:       "exploration",
		Workers:     8,
		Rule:        "cases = batches of short concurrent histories executed in a child built with -race (GORACE halt_on_error=0, logs parsed): G ∈ {2,4,8,16} goroutines x 3-10 ops each on one shared blockstore.ReadWrite / storage.StorageCar / DeferredCarWriter over 8-32 keys (one content-addressed block per key), op mix Put, PutMany, Has, Get, GetSize, AllKeysChan (fast consumers, slow consumers that call Has/Get for every listed key before taking the next one, cancelled consumers), Roots and one racing Finalize; Gosched injected between the writes of a section via the verif write hook / memfile hook. Monitors: (1) every race-detector report, normalised to the innermost go-car frame pair; (2) call/return history on one atomic logical clock, per-key porcupine check against the set model {absent→present}, listing expanded to per-key observations; interval rules for closed-errors vs the terminal op; (3) bounded progress: a history in which no operation completes during two consecutive 30 s windows with goroutines parked on go-car mutexes is a deadlock, otherwise inconclusive; (4) reference decode of the finalized file: every acknowledged block exactly once, nothing unacknowledged, matching index. quick = 48 batches x 16 histories, thorough = 400 x 32",
		Assumptions: []string{"the race detector reports a racy pair only when both accesses execute in one run; linearizability is judged on the interleavings the scheduler and the injected yields produced (counters: distinct-interleaving-signatures, overlap:*)", "DeferredCarWriter.OnPut is registration, done before the goroutines start"},
		Gen:         genC08,
		Run:         runC08,
		MinCover: map[string]int{"histories": 500, "ops": 10000, "keys-checked-by-porcupine": 1000, "distinct-interleaving-signatures": 100,
			"overlap:list||put": 5, "overlap:get||put": 20, "overlap:has||put": 20, "overlap:put||put": 20, "overlap:finalize||get": 1, "overlap:finalize||put": 3, "kind:blockstore": 2, "kind:storage": 2, "kind:deferred": 2},
	})
}
