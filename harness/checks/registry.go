// Package checks holds one monitor per property.
package checks

import "carlab/internal/mon"

var registry = map[string]*mon.Check{}

func Register(c *mon.Check) { registry[c.ID] = c }

func Get(id string) *mon.Check { return registry[id] }

func IDs() []string {
	var out []string
	for k := range registry {
		out = append(out, k)
	}
	return out
}
