package checks

import (
	"bufio"
	"bytes"
	"encoding/json"
	"errors"
	"fmt"
	"io"
	"math"
	"os"
	"path/filepath"
	"sort"
	"strings"

	carv2 "github.com/ipld/go-car/v2"
	"github.com/ipld/go-car/v2/index"
	"github.com/multiformats/go-multicodec"
	"github.com/multiformats/go-multihash"

	"carlab/internal/gen"
	"carlab/internal/lab"
	"carlab/internal/mon"
	"carlab/internal/refcar"
)

type c03Desc struct {
	Seed      int64  `json:"seed"`
	Container string `json:"container"` // v1 | v1-nullpad | v2 | v2-pad | v2-indexless
	StoreID   bool   `json:"id,omitempty"`
	ZeroEOF   bool   `json:"zeroeof,omitempty"`
	MaxCid    uint64 `json:"maxcid,omitempty"`
	MaxCidAt  int    `json:"maxcid_at,omitempty"` // 1: MaxIndexCidSize exactly the longest indexable CID; 2: one below it
	Empty     bool   `json:"empty,omitempty"`     // payload without any section
	Huge      bool   `json:"huge,omitempty"`      // one section of more than 8 MiB (over the default limit of the BUFFERING readers, which index generation is not)
	Big       int    `json:"big,omitempty"`       // >0: that many tiny sections (the index is built from tens of thousands of records)
}

type idxKey struct {
	code   uint64
	digest string
}

// c03Expect holds the reference's view of a payload.
type c03Expect struct {
	byDigest map[string][]uint64
	byMh     map[idxKey][]uint64
	all      []refcar.IndexRecord // (code, digest, offset) of every indexable section
}

func c03Reference(p *refcar.Payload, storeID bool) *c03Expect {
	e := &c03Expect{byDigest: map[string][]uint64{}, byMh: map[idxKey][]uint64{}}
	for _, s := range p.Sections {
		if s.Cid.IsIdentity() && !storeID {
			continue
		}
		e.byDigest[string(s.Cid.Digest)] = append(e.byDigest[string(s.Cid.Digest)], s.Offset)
		k := idxKey{s.Cid.MhCode, string(s.Cid.Digest)}
		e.byMh[k] = append(e.byMh[k], s.Offset)
		e.all = append(e.all, refcar.IndexRecord{Code: s.Cid.MhCode, Digest: s.Cid.Digest, Offset: s.Offset})
	}
	return e
}

func sortedU64(a []uint64) []uint64 {
	b := append([]uint64{}, a...)
	sort.Slice(b, func(i, j int) bool { return b[i] < b[j] })
	return b
}

func u64Equal(a, b []uint64) bool {
	a, b = sortedU64(a), sortedU64(b)
	if len(a) != len(b) {
		return false
	}
	for i := range a {
		if a[i] != b[i] {
			return false
		}
	}
	return true
}

// c03CheckIndex compares one index with the reference. kind: "sorted" | "mh" | "insertion".
func c03CheckIndex(t *mon.T, label, kind string, idx index.Index, exp *c03Expect, probes [][]byte) {
	for _, raw := range probes {
		c, _, err := refcar.SplitCid(raw)
		if err != nil {
			continue
		}
		gc, err := lab.TryCid(raw)
		if err != nil {
			continue
		}
		var got []uint64
		gerr := idx.GetAll(gc, func(o uint64) bool { got = append(got, o); return true })
		wantD := exp.byDigest[string(c.Digest)]
		wantM := exp.byMh[idxKey{c.MhCode, string(c.Digest)}]
		var ok bool
		switch kind {
		case "sorted":
			ok = u64Equal(got, wantD)
		case "mh":
			ok = u64Equal(got, wantM)
		default: // insertion index: not an on-disk codec; digest-keyed or multihash-keyed answers both satisfy the statement
			ok = u64Equal(got, wantD) || u64Equal(got, wantM)
		}
		t.Events(1)
		if !ok {
			t.ViolateD(label+"/GetAll/offset-set-differs", map[string]any{"cid": lab.Hex(raw), "got": sortedU64(got), "want_by_digest": sortedU64(wantD), "want_by_multihash": sortedU64(wantM)},
				"%s: GetAll returns offsets %v, the payload scan gives %v (digest) / %v (multihash)", label, sortedU64(got), sortedU64(wantD), sortedU64(wantM))
			continue
		}
		if len(got) == 0 != errors.Is(gerr, index.ErrNotFound) || (len(got) > 0 && gerr != nil) {
			t.Violatef(label+"/GetAll/not-found-signal", "%s: GetAll gave %d offsets with error %v", label, len(got), gerr)
		}
		first, ferr := index.GetFirst(idx, gc)
		if len(got) == 0 {
			if !errors.Is(ferr, index.ErrNotFound) {
				t.Violatef(label+"/GetFirst/not-found-signal", "%s: GetFirst on an absent key returned %d, %v", label, first, ferr)
			}
		} else {
			in := false
			for _, o := range got {
				if o == first {
					in = true
				}
			}
			if ferr != nil || !in {
				t.Violatef(label+"/GetFirst/not-in-set", "%s: GetFirst = %d, %v not among %v", label, first, ferr, got)
			}
		}
	}
	if it, ok := idx.(index.IterableIndex); ok {
		var got []refcar.IndexRecord
		err := it.ForEach(func(mh multihash.Multihash, off uint64) error {
			code, n, err := refcar.Uvarint(mh)
			if err != nil {
				return err
			}
			dl, n2, err := refcar.Uvarint(mh[n:])
			if err != nil {
				return err
			}
			d := mh[n+n2:]
			if uint64(len(d)) != dl {
				return fmt.Errorf("multihash length field %d != %d", dl, len(d))
			}
			got = append(got, refcar.IndexRecord{Code: code, Digest: append([]byte{}, d...), Offset: off})
			return nil
		})
		if err != nil {
			t.Violatef(label+"/ForEach/error", "%s: ForEach failed: %v", label, err)
		} else if !refcar.RecordsEqual(got, exp.all) {
			t.Violatef(label+"/ForEach/records-differ", "%s: ForEach yields %d records, the payload scan %d (or different contents)", label, len(got), len(exp.all))
		}
		t.Events(1)
	}
}

func c03Marshal(idx index.Index) []byte {
	var b bytes.Buffer
	if _, err := index.WriteTo(idx, &b); err != nil {
		return nil
	}
	return b.Bytes()
}

// c03ReadSeeker hides every method of its source but Read and Seek.
type c03ReadSeeker struct{ rs io.ReadSeeker }

func (r c03ReadSeeker) Read(p []byte) (int, error)                { return r.rs.Read(p) }
func (r c03ReadSeeker) Seek(off int64, whence int) (int64, error) { return r.rs.Seek(off, whence) }

func runC03(t *mon.T, raw json.RawMessage) {
	var d c03Desc
	if err := json.Unmarshal(raw, &d); err != nil {
		panic(err)
	}
	r := gen.Rand(d.Seed)
	content := gen.MakeContent(r, gen.ContentOpts{MinBlocks: 1, MaxBlocks: 10, MaxRoots: 3, Dups: true, Synthetic: true, Boundaries: true, Block: gen.BlockOpts{MaxSize: 200}})
	if d.Empty {
		c03Empty(t, d, r, content)
		return
	}
	if d.Big > 0 {
		content.Blocks = content.Blocks[:0]
		for i := 0; i < d.Big; i++ {
			dg := gen.Bytes(r, []int{32, 32, 20, 64}[i%4])
			content.Blocks = append(content.Blocks, refcar.Block{Cid: refcar.MakeCidV1(0x55, []uint64{0x12, 0x13}[i%2], dg), Data: []byte{byte(i), byte(i >> 8)}})
		}
		t.Cover("big-payloads")
	}
	if d.Huge {
		huge := refcar.Block{Cid: refcar.MakeCidV1(0x55, 0x12, gen.Bytes(r, 32)), Data: make([]byte, 8<<20+r.Intn(100))}
		i := r.Intn(len(content.Blocks) + 1)
		content.Blocks = append(append(append([]refcar.Block{}, content.Blocks[:i]...), huge), content.Blocks[i:]...)
		t.Cover("payloads-with-a-section-over-8MiB")
	}
	// always include the designed corner cases
	base := content.Blocks[0]
	bc, _, _ := refcar.SplitCid(base.Cid)
	content.Blocks = append(content.Blocks,
		refcar.Block{Cid: refcar.MakeCidV1(0x55, 0x1e, bc.Digest), Data: []byte("same digest, other hash code")},
		refcar.Block{Cid: refcar.MakeCidV1(0x55, 0x00, nil), Data: nil},                     // identity, empty
		refcar.Block{Cid: refcar.MakeCidV1(0x71, 0x00, []byte("idb")), Data: []byte("idb")}, // identity with data
	)
	if len(bc.Digest) > 0 {
		content.Blocks = append(content.Blocks, refcar.Block{Cid: refcar.MakeCidV1(0x55, 0x00, bc.Digest), Data: bc.Digest}) // identity twin
	}
	if d.MaxCid > 0 && r.Intn(2) == 0 {
		content.Blocks = append(content.Blocks, refcar.Block{Cid: refcar.MakeCidV1(0x55, 0x13, gen.Bytes(r, 64)), Data: []byte("long cid")})
	}
	if (d.Seed>>7)%2 == 0 {
		// an identity CID whose digest needs a two-byte length varint inside the multihash (127 is the last
		// one-byte length): every sorted-index bucket is keyed by the digest proper, whatever its length field
		idd := gen.Bytes(r, []int{127, 128, 129, 255, 256, 300}[r.Intn(6)])
		content.Blocks = append(content.Blocks, refcar.Block{Cid: refcar.MakeCidV1(0x55, 0x00, idd), Data: idd})
		t.Cover("identity-digest-around-the-two-byte-length-varint")
	}
	r.Shuffle(len(content.Blocks), func(i, j int) { content.Blocks[i], content.Blocks[j] = content.Blocks[j], content.Blocks[i] })
	payload := refcar.EncodeV1(content.Roots, content.NilRoots, content.Blocks)
	ref, err := refcar.DecodeV1(payload, false)
	if err != nil {
		panic(err)
	}
	file := payload
	nullpad := 0
	// the header's fully-indexed bit says how the file was WRITTEN; what an index generated now holds
	// depends on the options given now, so the bit is set at random
	bit := (d.Seed>>5)%2 == 0
	if bit && !d.StoreID && strings.HasPrefix(d.Container, "v2") {
		t.Cover("fully-indexed-bit-set-but-option-off")
	}
	switch d.Container {
	case "v1":
	case "v1-nullpad":
		nullpad = 1 + r.Intn(40)
		file = append(append([]byte{}, payload...), make([]byte, nullpad)...)
	case "v2":
		idx := refcar.BuildIndex(refcar.CodecMhIndexSorted, refcar.ExpectedIndexRecords(ref, refcar.CodecMhIndexSorted, d.StoreID))
		file = refcar.EncodeV2(payload, refcar.V2Opts{Index: idx, FullyIndexed: bit})
	case "v2-pad":
		idx := refcar.BuildIndex(refcar.CodecIndexSorted, refcar.ExpectedIndexRecords(ref, refcar.CodecIndexSorted, d.StoreID))
		file = refcar.EncodeV2(payload, refcar.V2Opts{Index: idx, DataPadding: uint64(1 + r.Intn(2000)), IndexPadding: uint64(r.Intn(30)), FullyIndexed: bit})
	case "v2-indexless":
		file = refcar.EncodeV2(payload, refcar.V2Opts{DataPadding: uint64(r.Intn(9)), FullyIndexed: bit})
	}
	exp := c03Reference(ref, d.StoreID)
	t.Cover("container:" + d.Container)
	t.Nontrivial()

	// probes: every CID of the payload + absent ones
	var probes [][]byte
	for _, b := range content.Blocks {
		probes = append(probes, b.Cid)
		c, _, _ := refcar.SplitCid(b.Cid)
		probes = append(probes, refcar.MakeCidV1(0x71, c.MhCode^0x40, c.Digest)) // same digest, other code
		if len(c.Digest) > 0 {
			nd := append([]byte{}, c.Digest...)
			nd[len(nd)-1] ^= 1
			probes = append(probes, refcar.MakeCidV1(0x55, c.MhCode, nd)) // same width, other digest
		}
	}
	probes = append(probes, refcar.MakeCidV1(0x55, 0x12, gen.Bytes(r, 33)), refcar.MakeCidV1(0x55, 0x00, []byte("absent identity")))
	if d.MaxCidAt != 0 {
		var longest uint64
		for _, s := range ref.Sections {
			if (!s.Cid.IsIdentity() || d.StoreID) && uint64(len(s.Cid.Raw)) > longest {
				longest = uint64(len(s.Cid.Raw))
			}
		}
		if longest > 1 {
			d.MaxCid = longest - uint64(d.MaxCidAt-1)
			t.Cover(fmt.Sprintf("max-cid-size:longest-minus-%d", d.MaxCidAt-1))
		}
	}

	opts := lab.Cfg{StoreID: d.StoreID, ZeroEOF: d.ZeroEOF, MaxCid: d.MaxCid}.Opts()

	// expected outcome class
	expectTooLarge := false
	if d.MaxCid > 0 {
		for _, s := range ref.Sections {
			if (!s.Cid.IsIdentity() || d.StoreID) && uint64(len(s.Cid.Raw)) > d.MaxCid {
				expectTooLarge = true
			}
		}
	}
	expectNullErr := d.Container == "v1-nullpad" && !d.ZeroEOF

	dir := lab.TempDir("c03")
	defer os.RemoveAll(dir)
	fp := filepath.Join(dir, "in.car")
	if err := os.WriteFile(fp, file, 0o644); err != nil {
		panic(err)
	}

	type source struct {
		name string
		open func() (io.Reader, func())
	}
	sources := []source{
		{"bytes.Reader", func() (io.Reader, func()) { return bytes.NewReader(file), func() {} }},
		{"os.File", func() (io.Reader, func()) {
			f, err := os.Open(fp)
			if err != nil {
				panic(err)
			}
			return f, func() { f.Close() }
		}},
		{"plain io.Reader", func() (io.Reader, func()) { return lab.PlainReader{R: bytes.NewReader(file)}, func() {} }},
		{"1-byte plain reader", func() (io.Reader, func()) { return lab.OneByteReader{R: bytes.NewReader(file)}, func() {} }},
		{"bufio.Reader (ByteReader, no Seek)", func() (io.Reader, func()) {
			return bufio.NewReaderSize(bytes.NewReader(file), 16+int(d.Seed&63)), func() {}
		}},
		{"stutter reader ((0,nil) calls, data+EOF)", func() (io.Reader, func()) { return &lab.StutterReader{B: file}, func() {} }},
		{"stuttering seeker ((0,nil) reads, no ReadByte)", func() (io.Reader, func()) { return &lab.StutterSeeker{R: bytes.NewReader(file)}, func() {} }},
		{"seeker, data+EOF", func() (io.Reader, func()) { return lab.EOFSeeker{R: bytes.NewReader(file)}, func() {} }},
		{"bytes.Buffer (ByteReader, no Seek)", func() (io.Reader, func()) { return bytes.NewBuffer(append([]byte{}, file...)), func() {} }},
		{"Reader.DataReader", func() (io.Reader, func()) {
			rd, err := carv2.NewReader(bytes.NewReader(file), opts...)
			if err != nil {
				panic(fmt.Sprintf("NewReader on a valid archive: %v", err))
			}
			dr, err := rd.DataReader()
			if err != nil {
				panic(err)
			}
			return dr, func() {}
		}},
	}
	type builder struct {
		name, kind string
		build      func(src io.Reader) (index.Index, error)
	}
	builders := []builder{
		{"GenerateIndex(car-index-sorted)", "sorted", func(src io.Reader) (index.Index, error) {
			return carv2.GenerateIndex(src, append(opts, carv2.UseIndexCodec(multicodec.CarIndexSorted))...)
		}},
		{"GenerateIndex(car-multihash-index-sorted)", "mh", func(src io.Reader) (index.Index, error) {
			return carv2.GenerateIndex(src, append(opts, carv2.UseIndexCodec(multicodec.CarMultihashIndexSorted))...)
		}},
		{"LoadIndex(InsertionIndex)", "insertion", func(src io.Reader) (index.Index, error) {
			ii := index.NewInsertionIndex()
			return ii, carv2.LoadIndex(ii, src, opts...)
		}},
	}

	judge := func(label, kind string, idx index.Index, err error) []byte {
		switch {
		case expectNullErr:
			if err == nil {
				t.Violatef(label+"/null-padding/accepted", "%s indexed a null-padded CARv1 although ZeroLengthSectionAsEOF is off", label)
			}
			return nil
		case expectTooLarge:
			var tl *carv2.ErrCidTooLarge
			if !errors.As(err, &tl) {
				t.Violatef(label+"/oversized-cid/not-rejected", "%s: expected ErrCidTooLarge (max %d), got %v", label, d.MaxCid, err)
			} else {
				t.Cover("cid-too-large-rejected")
			}
			return nil
		case err != nil:
			t.Violatef(label+"/valid-input/error", "%s failed on a valid %s: %v", label, d.Container, err)
			return nil
		}
		t.Cover("index-built")
		c03CheckIndex(t, label, kind, idx, exp, probes)
		return c03Marshal(idx)
	}

	marsh := map[string]map[string][]byte{} // builder -> source -> bytes
	for _, b := range builders {
		marsh[b.name] = map[string][]byte{}
		for _, s := range sources {
			if (d.Big > 0 || d.Huge) && s.name != "bytes.Reader" && s.name != "plain io.Reader" {
				continue // two source kinds are enough for the payloads with tens of thousands of sections
			}
			if s.name == "Reader.DataReader" && d.Container == "v1-nullpad" && !d.ZeroEOF {
				// fine: still expected to error
			}
			src, done := s.open()
			idx, err := b.build(src)
			done()
			label := b.name + " from " + s.name
			t.Cover("source:" + s.name)
			if m := judge(label, b.kind, idx, err); m != nil {
				marsh[b.name][s.name] = m
			}
		}
	}
	// a source that breaks: any access at or beyond byte j of the payload fails with a non-EOF error.
	// Index generation needs every section's length and CID, so it cannot succeed — a nil error would
	// mean an index that silently misses the sections after j (completeness)
	if !expectNullErr && !expectTooLarge && len(ref.Sections) > 0 {
		if a, derr := refcar.Decode(file, false); derr == nil {
			last := ref.Sections[len(ref.Sections)-1]
			// up to the last section's CID: beyond it a seeking indexer legitimately reads nothing more
			lim := int(a.PayloadOff + last.DataOff)
			for k := 0; k < 6; k++ {
				j := int(a.PayloadOff) + r.Intn(lim-int(a.PayloadOff))
				for _, b := range builders {
					for _, mk := range []func() io.Reader{
						func() io.Reader { return &lab.FailSrc{R: bytes.NewReader(file), N: int64(j)} },
						func() io.Reader { return lab.PlainReader{R: &lab.FailSrc{R: bytes.NewReader(file), N: int64(j)}} },
					} {
						_, err := b.build(mk())
						t.Events(1)
						if err == nil {
							t.ViolateD(b.name+"/failing-source/index-built", map[string]any{"fails_from_offset": j, "payload_offset": a.PayloadOff, "container": d.Container},
								"%s returned no error although its source failed with an I/O error at byte %d (the last section's CID ends at %d)", b.name, j, lim)
						}
					}
				}
				t.Cover("failing-source-probes")
			}
		}
	}
	// file-path and read-or-generate front-ends
	{
		idx, err := carv2.GenerateIndexFromFile(fp, append(opts, carv2.UseIndexCodec(multicodec.CarIndexSorted))...)
		judge("GenerateIndexFromFile(car-index-sorted)", "sorted", idx, err)
		if d.Container == "v1" || d.Container == "v1-nullpad" || d.Container == "v2-indexless" {
			idx, err := carv2.ReadOrGenerateIndex(bytes.NewReader(file), append(opts, carv2.UseIndexCodec(multicodec.CarMultihashIndexSorted))...)
			judge("ReadOrGenerateIndex(generate)", "mh", idx, err)
			// the same from a source that can Read and Seek and nothing else (no ReadAt, no ReadByte)
			idx, err = carv2.ReadOrGenerateIndex(c03ReadSeeker{bytes.NewReader(file)}, append(opts, carv2.UseIndexCodec(multicodec.CarMultihashIndexSorted))...)
			judge("ReadOrGenerateIndex(generate, Read+Seek only)", "mh", idx, err)
		}
		if d.Container == "v2" || d.Container == "v2-pad" {
			// an embedded index, read from a Read+Seek-only source
			if idx, err := carv2.ReadOrGenerateIndex(c03ReadSeeker{bytes.NewReader(file)}, opts...); err != nil {
				t.Violatef("ReadOrGenerateIndex(read, Read+Seek only)/valid-input/error", "ReadOrGenerateIndex on a valid %s from a Read+Seek-only source: %v", d.Container, err)
			} else if idx == nil {
				t.Violatef("ReadOrGenerateIndex(read, Read+Seek only)/nil-index", "nil index without error")
			}
			t.Cover("read-or-generate:embedded-index-from-a-read+seek-only-source")
		}
	}
	// seekable vs stream: identical serialisation, or lookup-identical when digests repeat
	for bn, m := range marsh {
		var refB []byte
		var refS string
		for _, s := range sources {
			b, ok := m[s.name]
			if !ok {
				continue
			}
			if refB == nil {
				refB, refS = b, s.name
				continue
			}
			if !bytes.Equal(b, refB) && bn != "LoadIndex(InsertionIndex)" {
				pa, ea := refcar.ParseIndex(refB)
				pb, eb := refcar.ParseIndex(b)
				if ea != nil || eb != nil || !refcar.RecordsEqual(pa.Records(), pb.Records()) {
					t.Violatef(bn+"/source-dependence/records-differ", "%s: index built from %s differs from the one built from %s", bn, s.name, refS)
				}
			}
		}
	}
	// the same sections behind a header in another (accepted) CBOR form — non-minimal integer,
	// indefinite-length array or map, other key order: offsets are where the sections ARE, not where a
	// re-encoded header would put them
	if d.Container == "v1" && d.MaxCid == 0 && d.Big == 0 && !d.Huge && len(ref.Header.Roots) > 0 && !content.NilRoots {
		rest := payload[ref.HeaderSize:]
		for _, hv := range c13LenientHeaders(ref.Header.Roots) {
			in := append(append(refcar.PutUvarint(nil, uint64(len(hv.body))), hv.body...), rest...)
			delta := uint64(len(in)) - uint64(len(payload)) // wraps for a shorter header; added below, it wraps back
			for _, plain := range []bool{false, true} {
				var src io.Reader = bytes.NewReader(in)
				if plain {
					src = lab.PlainReader{R: bytes.NewReader(in)}
				}
				idx, err := carv2.GenerateIndex(src, opts...)
				t.Events(1)
				if err != nil {
					t.Cover("lenient-header:not-accepted:" + hv.name)
					continue
				}
				t.Cover("lenient-header:" + hv.name)
				for _, sec := range ref.Sections {
					if sec.Cid.IsIdentity() && !d.StoreID {
						continue
					}
					offs, _ := getAll(idx, sec.Cid.Raw)
					found := false
					for _, o := range offs {
						if o == sec.Offset+delta {
							found = true
						}
					}
					if !found {
						t.ViolateD("GenerateIndex/lenient-header:"+hv.name+"/offset-is-not-the-section-start", map[string]any{"header_hex": lab.Hex(hv.body), "got": offs, "section_start": sec.Offset + delta},
							"GenerateIndex behind a %s header: offsets %v for a CID whose section starts at %d", hv.name, offs, sec.Offset+delta)
						break
					}
				}
			}
		}
	}
	t.Sample(map[string]any{"container": d.Container, "sections": len(ref.Sections), "indexable": len(exp.all), "store_identity": d.StoreID, "zero_eof": d.ZeroEOF, "max_cid": d.MaxCid, "null_padding": nullpad})
}

// c03Empty: a payload that holds a header and no section must index to an empty index from every source.
func c03Empty(t *mon.T, d c03Desc, r *gen.RandT, content gen.Content) {
	payload := refcar.EncodeV1(content.Roots, content.NilRoots, nil)
	file := payload
	switch d.Container {
	case "v1-nullpad":
		file = append(append([]byte{}, payload...), make([]byte, 1+r.Intn(9))...)
	case "v2":
		file = refcar.EncodeV2(payload, refcar.V2Opts{Index: refcar.BuildIndex(refcar.CodecMhIndexSorted, nil)})
	case "v2-pad":
		file = refcar.EncodeV2(payload, refcar.V2Opts{Index: refcar.BuildIndex(refcar.CodecIndexSorted, nil), DataPadding: uint64(1 + r.Intn(100)), IndexPadding: uint64(r.Intn(30))})
	case "v2-indexless":
		file = refcar.EncodeV2(payload, refcar.V2Opts{})
	}
	t.Cover("empty-payload:" + d.Container)
	t.Nontrivial()
	opts := lab.Cfg{StoreID: d.StoreID, ZeroEOF: d.Container == "v1-nullpad"}.Opts()
	probe := lab.ToCid(refcar.MakeCidV1(0x55, 0x12, gen.Bytes(r, 32)))
	for _, src := range []string{"bytes.Reader", "plain io.Reader"} {
		for _, codec := range []multicodec.Code{multicodec.CarIndexSorted, multicodec.CarMultihashIndexSorted} {
			var rd io.Reader = bytes.NewReader(file)
			if src != "bytes.Reader" {
				rd = lab.PlainReader{R: bytes.NewReader(file)}
			}
			label := fmt.Sprintf("GenerateIndex(%s) from %s", codec, src)
			idx, err := carv2.GenerateIndex(rd, append(opts, carv2.UseIndexCodec(codec))...)
			t.Events(1)
			if err != nil {
				t.Violatef(label+"/empty-payload/error", "%s fails on a valid %s whose payload holds no section: %v", label, d.Container, err)
				continue
			}
			if err := idx.GetAll(probe, func(uint64) bool { return true }); !errors.Is(err, index.ErrNotFound) {
				t.Violatef(label+"/empty-payload/not-empty", "%s: index of an empty payload answers a lookup with %v", label, err)
			}
		}
	}
}

func genC03(g *mon.G) {
	r := gen.Rand(g.Seed)
	n := g.Pick(1500, 30000)
	conts := []string{"v1", "v1-nullpad", "v2", "v2-pad", "v2-indexless"}
	for i := 0; i < n; i++ {
		d := c03Desc{Seed: r.Int63(), Container: conts[i%len(conts)], StoreID: r.Intn(2) == 0}
		if d.Container == "v1-nullpad" {
			d.ZeroEOF = r.Intn(4) != 0
		} else {
			d.ZeroEOF = r.Intn(5) == 0
		}
		if r.Intn(5) == 0 {
			d.MaxCid = []uint64{36, 40, 60, 100, 1 << 63, math.MaxUint64}[r.Intn(6)] // the last two: "no limit"
		}
		if i%16 == 7 {
			d.MaxCid, d.MaxCidAt = 0, 1+(i/16)%2 // the limit exactly at / one below the longest CID that is indexed
		}
		g.Emit(d)
	}
	for i := 0; i < g.Pick(40, 200); i++ {
		g.Emit(c03Desc{Seed: r.Int63(), Container: conts[i%len(conts)], StoreID: i%2 == 0, Empty: true})
	}
	for i := 0; i < g.Pick(2, 10); i++ {
		g.Emit(c03Desc{Seed: r.Int63(), Container: []string{"v1", "v2-indexless", "v2", "v2-pad"}[i%4], StoreID: i%2 == 0, Huge: true})
	}
	for i := 0; i < g.Pick(3, 20); i++ {
		g.Emit(c03Desc{Seed: r.Int63(), Container: []string{"v1", "v2-indexless", "v2-pad"}[i%3], StoreID: i%2 == 0, Big: []int{16500, 33000, 50000}[i%3] + r.Intn(3000)})
	}
}

func init() {
	Register(&mon.Check{
		ID:          "C03",
		Level:       "exploration",
		Rule:        "cases = seeded payloads (a few with 16k-53k tiny sections; synthetic + honest CIDs, duplicates, equal digest under two hash codes, identity with/without data, CIDv0, digest widths 0..80, identity digests of 127..300 bytes) x container {v1, null-padded v1, v2, padded v2, index-less v2} x {StoreIdentityCIDs, ZeroLengthSectionAsEOF, MaxIndexCidSize}; each is indexed by 3 builders from 7 source kinds (seekable, *os.File, plain reader, 1-byte reader, bufio.Reader and bytes.Buffer which are ByteReaders without Seek, Reader.DataReader) (+ file path and ReadOrGenerateIndex) and every index is probed with every present CID and 2-3 absent neighbours each; non-trivial = all",
		Assumptions: []string{"reference scan (refcar.DecodeV1) yields the true key → offsets multiset", "the insertion index is not an on-disk codec: digest-keyed or multihash-keyed GetAll answers are both accepted for it"},
		Gen:         genC03,
		Run:         runC03,
		MinCover: map[string]int{"failing-source-probes": 500, "fully-indexed-bit-set-but-option-off": 50, "big-payloads": 3, "payloads-with-a-section-over-8MiB": 2,
			"container:v1": 20, "container:v1-nullpad": 20, "container:v2": 20, "container:v2-pad": 20, "container:v2-indexless": 20,
			"index-built": 500, "empty-payload:v2": 3, "empty-payload:v2-pad": 3, "empty-payload:v1": 3, "cid-too-large-rejected": 10, "source:plain io.Reader": 100, "source:bufio.Reader (ByteReader, no Seek)": 100, "source:bytes.Buffer (ByteReader, no Seek)": 100, "source:Reader.DataReader": 100,
		},
	})
}
