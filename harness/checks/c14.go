package checks

import (
	"bufio"
	"bytes"
	"encoding/json"
	"fmt"
	"io"
	"os"
	"path/filepath"

	blocks "github.com/ipfs/go-block-format"
	carv2 "github.com/ipld/go-car/v2"

	"carlab/internal/gen"
	"carlab/internal/lab"
	"carlab/internal/mon"
	"carlab/internal/refcar"
)

type c14Desc struct {
	Seed       int64  `json:"seed"`
	Container  string `json:"container"` // v1 | v2 | v2-pad | v2-indexless
	MaxBlocks  int    `json:"maxblocks"`
	Random     int    `json:"random,omitempty"` // >0: that many random choice strings instead of all 2^n
	TrustedCAR bool   `json:"trusted,omitempty"`
}

// posSeeker is a seekable source that records the highest position from which bytes were delivered.
type posSeeker struct {
	rs      io.ReadSeeker
	pos     int64
	maxRead int64
	read    int64
}

func (p *posSeeker) Read(b []byte) (int, error) {
	n, err := p.rs.Read(b)
	p.pos += int64(n)
	p.read += int64(n)
	if n > 0 && p.pos > p.maxRead {
		p.maxRead = p.pos
	}
	return n, err
}
func (p *posSeeker) Seek(off int64, whence int) (int64, error) {
	n, err := p.rs.Seek(off, whence)
	if err == nil {
		p.pos = n
	}
	return n, err
}

// posByteSeeker / posBytePlain additionally offer io.ByteReader, as *bytes.Reader and bufio.Reader do:
// the library then reads varints through the source's own ReadByte.
type posByteSeeker struct{ posSeeker }

func (p *posByteSeeker) ReadByte() (byte, error) {
	var b [1]byte
	n, err := p.posSeeker.Read(b[:])
	if n == 1 {
		return b[0], nil
	}
	if err == nil {
		err = io.ErrNoProgress
	}
	return 0, err
}

type posBytePlain struct{ posPlain }

func (p *posBytePlain) ReadByte() (byte, error) {
	var b [1]byte
	n, err := p.posPlain.Read(b[:])
	if n == 1 {
		return b[0], nil
	}
	if err == nil {
		err = io.ErrNoProgress
	}
	return 0, err
}

type posPlain struct {
	r       io.Reader
	maxRead int64
}

func (p *posPlain) Read(b []byte) (int, error) {
	n, err := p.r.Read(b)
	p.maxRead += int64(n)
	return n, err
}

func runC14(t *mon.T, raw json.RawMessage) {
	var d c14Desc
	if err := json.Unmarshal(raw, &d); err != nil {
		panic(err)
	}
	r := gen.Rand(d.Seed)
	content := gen.MakeContent(r, gen.ContentOpts{MinBlocks: 1, MaxBlocks: d.MaxBlocks, MaxRoots: 3, Dups: true, Boundaries: true, Block: gen.BlockOpts{MaxSize: 300}})
	if d.Seed%4 == 1 {
		// one block whose CID is longer than MaxIndexCidSize (an option that binds index code only)
		lb := gen.LongIdentityBlock(r)
		if i := r.Intn(len(content.Blocks) + 1); len(content.Blocks) < d.MaxBlocks {
			content.Blocks = append(content.Blocks[:i], append([]refcar.Block{lb}, content.Blocks[i:]...)...)
		} else {
			content.Blocks[i%len(content.Blocks)] = lb
		}
		t.Cover("input:cid-longer-than-max-index-cid-size")
	}
	payload := refcar.EncodeV1(content.Roots, content.NilRoots, content.Blocks)
	ref, _ := refcar.DecodeV1(payload, false)
	file := payload
	zeroEOF := false
	switch d.Container {
	case "v2":
		file = refcar.EncodeV2(payload, refcar.V2Opts{Index: refcar.BuildIndex(refcar.CodecMhIndexSorted, refcar.ExpectedIndexRecords(ref, refcar.CodecMhIndexSorted, false))})
	case "v2-pad":
		file = refcar.EncodeV2(payload, refcar.V2Opts{DataPadding: uint64(1 + r.Intn(300)), IndexPadding: uint64(r.Intn(50)), Index: refcar.BuildIndex(refcar.CodecIndexSorted, refcar.ExpectedIndexRecords(ref, refcar.CodecIndexSorted, false))})
	case "v2-indexless":
		file = refcar.EncodeV2(payload, refcar.V2Opts{DataPadding: uint64(r.Intn(5))})
	case "v1-nullpad":
		// null bytes after the last section, read with ZeroLengthSectionAsEOF: whichever call reaches
		// the padding reports the clean end
		zeroEOF = true
		file = append(append([]byte{}, payload...), make([]byte, 1+r.Intn(40))...)
	case "v2-nullpad-payload":
		// the same padded payload wrapped: the padding lies inside the declared payload
		zeroEOF = true
		o := refcar.V2Opts{DataPadding: uint64(r.Intn(5))}
		if r.Intn(2) == 0 {
			o.Index = refcar.BuildIndex(refcar.CodecMhIndexSorted, refcar.ExpectedIndexRecords(ref, refcar.CodecMhIndexSorted, false))
		}
		file = refcar.EncodeV2(append(append([]byte{}, payload...), make([]byte, 1+r.Intn(40))...), o)
	}
	a, err := refcar.Decode(file, zeroEOF)
	if err != nil {
		panic(err)
	}
	if d.Container == "v2-indexless" && d.Seed%2 == 0 {
		// bytes that do not belong to the archive follow it in the source (the next message of a stream,
		// say): the header tells where the payload ends, nothing beyond may be read or parsed
		file = append(file, gen.Bytes(r, 40+r.Intn(80))...)
		t.Cover("indexless-v2-followed-by-foreign-bytes")
	}
	po := a.PayloadOff
	pend := int64(po + a.PayloadLen)
	n := len(ref.Sections)
	t.Cover("container:" + d.Container)
	t.Nontrivial()

	dir := lab.TempDir("c14")
	defer os.RemoveAll(dir)
	fp := filepath.Join(dir, "in.car")
	if err := os.WriteFile(fp, file, 0o644); err != nil {
		panic(err)
	}

	var strings []uint32
	if d.Random > 0 {
		for i := 0; i < d.Random; i++ {
			strings = append(strings, r.Uint32())
		}
	} else {
		for s := uint32(0); s < 1<<uint(n+1); s++ { // n blocks and the call that finds the end
			strings = append(strings, s)
		}
	}
	sources := []string{"bytes.Reader", "plain io.Reader", "os.File", "Reader.DataReader", "bufio.Reader", "stutter reader", "seeker, data+EOF", "seeker+ByteReader", "plain+ByteReader"}
	var opts []carv2.Option
	if d.TrustedCAR {
		opts = append(opts, carv2.WithTrustedCAR(true))
	}
	if zeroEOF {
		opts = append(opts, carv2.ZeroLengthSectionAsEOF(true))
	}
	if d.Seed%3 == 0 {
		// both read limits exactly at what the archive needs: the header limit at the header body, the
		// section limit at the longest section — every Next and SkipNext must still pass
		maxSec := uint64(0)
		for _, s := range ref.Sections {
			if l := uint64(len(s.Cid.Raw) + len(s.Data)); l > maxSec {
				maxSec = l
			}
		}
		hb, _, _ := refcar.Uvarint(payload)
		if a.Version == 2 && hb < 10 {
			hb = 10 // the pragma is read under the same limit
		}
		opts = append(opts, carv2.MaxAllowedHeaderSize(hb), carv2.MaxAllowedSectionSize(maxSec))
		t.Cover("limits-exactly-at-the-maxima")
	}
	for _, sn := range sources {
		for _, cs := range strings {
			var src io.Reader
			var maxRead func() int64
			var closer func()
			dataReaderBase := int64(0)
			switch sn {
			case "bytes.Reader":
				p := &posSeeker{rs: bytes.NewReader(file)}
				src, maxRead = p, func() int64 { return p.maxRead }
			case "plain io.Reader":
				p := &posPlain{r: bytes.NewReader(file)}
				src, maxRead = p, func() int64 { return p.maxRead }
			case "bufio.Reader":
				p := &posPlain{r: bytes.NewReader(file)}
				src, maxRead = bufio.NewReaderSize(p, 16), func() int64 { return p.maxRead - 16 } // the buffer may read ahead by its size
			case "seeker+ByteReader":
				p := &posByteSeeker{posSeeker{rs: bytes.NewReader(file)}}
				src, maxRead = p, func() int64 { return p.maxRead }
			case "plain+ByteReader":
				p := &posBytePlain{posPlain{r: bytes.NewReader(file)}}
				src, maxRead = p, func() int64 { return p.maxRead }
			case "seeker, data+EOF":
				p := &posSeeker{rs: lab.EOFSeeker{R: bytes.NewReader(file)}}
				src, maxRead = p, func() int64 { return p.maxRead }
			case "stutter reader":
				p := &posPlain{r: &lab.StutterReader{B: file}}
				src, maxRead = p, func() int64 { return p.maxRead }
			case "os.File":
				f, err := os.Open(fp)
				if err != nil {
					panic(err)
				}
				p := &posSeeker{rs: f}
				src, maxRead, closer = p, func() int64 { return p.maxRead }, func() { f.Close() }
			case "Reader.DataReader":
				rd, err := carv2.NewReader(bytes.NewReader(file))
				if err != nil {
					panic(err)
				}
				dr, err := rd.DataReader()
				if err != nil {
					panic(err)
				}
				src = dr
				dataReaderBase = int64(po) // offsets are relative to the payload for this source
			}
			c14One(t, d, sn, src, cs, n, ref, po, dataReaderBase, opts)
			if maxRead != nil && a.Version == 2 {
				if m := maxRead(); m > pend {
					t.ViolateD("v2.BlockReader/"+sn+"/read-past-payload", map[string]any{"max_position": m, "payload_end": pend, "choices": fmt.Sprintf("%0*b", n, cs)},
						"CARv2 source (%s) consumed up to byte %d, payload ends at %d", sn, m, pend)
				}
				t.Cover("v2-consumption-checked")
			}
			if closer != nil {
				closer()
			}
		}
	}
	t.Sample(map[string]any{"container": d.Container, "sections": n, "choice_strings": len(strings), "payload_off": po})
}

func c14One(t *mon.T, d c14Desc, sn string, src io.Reader, cs uint32, n int, ref *refcar.Payload, po uint64, drBase int64, opts []carv2.Option) {
	label := "v2.BlockReader(" + sn + ")"
	br, err := carv2.NewBlockReader(src, opts...)
	if err != nil {
		t.Violatef(label+"/valid-archive/rejected", "%s rejects a valid %s: %v", label, d.Container, err)
		return
	}
	isDataReader := sn == "Reader.DataReader"
	// every metadata record and block handed out is kept and looked at again at the very end:
	// what was returned for block i must still describe block i after later calls
	type kept struct {
		i    int
		meta *carv2.BlockMetadata
		cid  []byte
		data []byte
		blk  blocks.Block
	}
	var keep []kept
	defer func() {
		for _, k := range keep {
			s := ref.Sections[k.i]
			if k.meta != nil {
				wantSrc := po + s.Offset
				if isDataReader {
					wantSrc = s.Offset
				}
				if !bytes.Equal(k.meta.Cid.Bytes(), s.Cid.Raw) || k.meta.Offset != s.Offset || k.meta.SourceOffset != wantSrc || k.meta.Size != uint64(len(s.Data)) {
					t.ViolateD(label+"/SkipNext/retained-metadata-changed", map[string]any{"choices": fmt.Sprintf("%0*b", n, cs), "i": k.i},
						"%s: the metadata returned for block %d no longer describes it after later calls (it is shared state)", label, k.i)
					return
				}
			} else if !bytes.Equal(k.blk.Cid().Bytes(), s.Cid.Raw) || !bytes.Equal(k.blk.RawData(), s.Data) {
				t.ViolateD(label+"/Next/retained-block-changed", map[string]any{"choices": fmt.Sprintf("%0*b", n, cs), "i": k.i},
					"%s: the block returned for section %d changed after later calls (its bytes are shared state)", label, k.i)
				return
			}
		}
	}()
	for i := 0; i <= n; i++ {
		skip := cs&(1<<uint(i)) != 0
		op := "Next"
		if skip {
			op = "SkipNext"
		}
		t.Events(1)
		if skip {
			t.Cover("op:SkipNext:" + sn)
			m, err := br.SkipNext()
			if i == n {
				if err != io.EOF {
					t.Violatef(label+"/SkipNext/no-clean-end", "%s: SkipNext after the last block returned %v, %v", label, m, err)
				}
				return
			}
			s := ref.Sections[i]
			if err != nil {
				t.ViolateD(label+"/SkipNext/error", map[string]any{"choices": fmt.Sprintf("%0*b", n, cs), "i": i}, "%s: SkipNext #%d failed on a valid archive: %v", label, i, err)
				return
			}
			wantSrc := po + s.Offset
			if isDataReader {
				// the source handed to the block reader is the payload itself
				wantSrc = s.Offset
			}
			if !bytes.Equal(m.Cid.Bytes(), s.Cid.Raw) {
				t.Violatef(label+"/SkipNext/wrong-cid", "%s: SkipNext #%d returned CID %s", label, i, m.Cid)
				return
			}
			if m.Offset != s.Offset || m.SourceOffset != wantSrc || m.Size != uint64(len(s.Data)) {
				t.ViolateD(label+"/SkipNext/metadata", map[string]any{"choices": fmt.Sprintf("%0*b", n, cs), "i": i, "got": []uint64{m.Offset, m.SourceOffset, m.Size}, "want": []uint64{s.Offset, wantSrc, uint64(len(s.Data))}},
					"%s: SkipNext #%d metadata (Offset,SourceOffset,Size) = (%d,%d,%d), reference section table says (%d,%d,%d)", label, i, m.Offset, m.SourceOffset, m.Size, s.Offset, wantSrc, len(s.Data))
				return
			}
			keep = append(keep, kept{i: i, meta: m})
		} else {
			t.Cover("op:Next:" + sn)
			b, err := br.Next()
			if i == n {
				if err != io.EOF {
					t.Violatef(label+"/Next/no-clean-end", "%s: Next after the last block returned %v", label, err)
				}
				return
			}
			s := ref.Sections[i]
			if err != nil {
				t.ViolateD(label+"/Next/error", map[string]any{"choices": fmt.Sprintf("%0*b", n, cs), "i": i}, "%s: Next #%d failed on a valid archive: %v", label, i, err)
				return
			}
			if !bytes.Equal(b.Cid().Bytes(), s.Cid.Raw) || !bytes.Equal(b.RawData(), s.Data) {
				t.Violatef(label+"/Next/wrong-block", "%s: %s #%d returned a different block", label, op, i)
				return
			}
			keep = append(keep, kept{i: i, blk: b})
		}
	}
	_ = drBase
}

func genC14(g *mon.G) {
	r := gen.Rand(g.Seed)
	conts := []string{"v1", "v2", "v2-pad", "v2-indexless", "v1-nullpad", "v2-nullpad-payload"}
	for i := 0; i < g.Pick(180, 1500); i++ {
		g.Emit(c14Desc{Seed: r.Int63(), Container: conts[i%len(conts)], MaxBlocks: g.Pick(6, 10), TrustedCAR: r.Intn(4) == 0})
	}
	for i := 0; i < g.Pick(60, 600); i++ {
		g.Emit(c14Desc{Seed: r.Int63(), Container: conts[i%len(conts)], MaxBlocks: 25, Random: g.Pick(20, 100)})
	}
}

func init() {
	Register(&mon.Check{
		ID:          "C14",
		Level:       "exploration",
		Rule:        "cases = seeded valid archives (v1, v2, padded v2, index-less v2; mixed CID widths, 1-3 byte length varints) x ALL 2^n Next/SkipNext choice strings (n = block count ≤ 6 quick / ≤ 10 thorough) plus random strings on 25-block archives, each over 4 source kinds wrapped in position counters; events_observed = individual Next/SkipNext calls judged",
		Assumptions: []string{"reference section table gives the true offsets", "Reader.DataReader() is included as a seekable source although the property's quantifier names only bytes.Reader, plain reader and *os.File"},
		Gen:         genC14,
		Run:         runC14,
		MinCover:    map[string]int{"container:v1": 5, "container:v2-pad": 5, "container:v2-nullpad-payload": 5, "container:v1-nullpad": 5, "op:SkipNext:plain io.Reader": 100, "op:SkipNext:os.File": 100, "op:SkipNext:bytes.Reader": 100, "op:Next:Reader.DataReader": 100, "v2-consumption-checked": 100},
	})
}
