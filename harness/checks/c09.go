package checks

// C09 "Parsers are total and resource-bounded on arbitrary input".
//
// Every case is one batch of calls (entry point × input × options). The calls run in a child
// process (`carlab child c09 …`, see c09_child.go) behind an address-space and a CPU fence;
// the parent reads the child's call log, names the culprit when the child dies, derives the
// finding key from the runtime's own report, restarts a child behind the culprit and judges
// every completed call: panic, read-call budget, allocation bound, limit table.

import (
	"bufio"
	"context"
	"encoding/hex"
	"encoding/json"
	"fmt"
	"os"
	"os/exec"
	"path/filepath"
	"regexp"
	"strconv"
	"strings"
	"syscall"
	"time"

	"carlab/internal/gen"
	"carlab/internal/lab"
	"carlab/internal/mon"
)

type c09Desc struct {
	Seed  int64  `json:"seed"`
	Kind  string `json:"kind"`  // typed | mutate | fixtures | limits
	Batch int    `json:"batch"` // chunk number within the kind
	N     int    `json:"n,omitempty"`
	MH    int    `json:"mh,omitempty"` // limits: header maximum
	MS    int    `json:"ms,omitempty"` // limits: section maximum
	Dflt  bool   `json:"dflt,omitempty"`
	EPLo  int    `json:"eplo,omitempty"` // limits with defaults: entry points [EPLo, EPHi)
	EPHi  int    `json:"ephi,omitempty"`
}

const (
	c09TypedChunk   = 12
	c09MutateChunk  = 12
	c09FixtureChunk = 3
)

func c09AllEPs(b *c09Batch) {
	for i := range b.Inputs {
		for _, ep := range c09EPs {
			b.Calls = append(b.Calls, c09Call{In: i, EP: ep.name})
		}
	}
}

func c09Chunk(all []c09Input, batch, n int) []c09Input {
	lo := batch * n
	if lo >= len(all) {
		return nil
	}
	hi := lo + n
	if hi > len(all) {
		hi = len(all)
	}
	return all[lo:hi]
}

// c09BuildBatch regenerates the calls of a case from its descriptor.
func c09BuildBatch(d c09Desc) *c09Batch {
	b := &c09Batch{}
	switch d.Kind {
	case "typed":
		b.Inputs = c09Chunk(c09Typed(c09MakeBase(gen.Rand(d.Seed))), d.Batch, d.N)
		c09AllEPs(b)
	case "mutate":
		r := gen.Rand(d.Seed)
		base := c09MakeBase(r)
		for i := 0; i < d.N; i++ {
			b.Inputs = append(b.Inputs, c09Mutate(r, base))
		}
		c09AllEPs(b)
	case "fixtures":
		b.Inputs = c09Chunk(c09FixtureInputs(gen.Rand(d.Seed)), d.Batch, d.N)
		c09AllEPs(b)
	case "limits":
		b = c09LimitBatch(gen.Rand(d.Seed), d.MH, d.MS, d.Dflt)
		if d.EPHi > 0 {
			keep := map[string]bool{}
			for _, ep := range c09EPs[d.EPLo:d.EPHi] {
				keep[ep.name] = true
			}
			var calls []c09Call
			for _, c := range b.Calls {
				if keep[c.EP] {
					calls = append(calls, c)
				}
			}
			b.Calls = calls
		}
	default:
		panic("c09: unknown batch kind " + d.Kind)
	}
	return b
}

func genC09(g *mon.G) {
	r := gen.Rand(g.Seed)
	total := 0
	// exhaustive typed mutations of a few bases
	for i := 0; i < g.Pick(1, 12); i++ {
		s := r.Int63()
		n := len(c09Typed(c09MakeBase(gen.Rand(s))))
		total += n
		for b := 0; b*c09TypedChunk < n; b++ {
			g.Emit(c09Desc{Seed: s, Kind: "typed", Batch: b, N: c09TypedChunk})
		}
	}
	// fixtures and fuzz corpus
	fs := r.Int63()
	nf := len(c09FixtureInputs(gen.Rand(fs)))
	total += nf
	for b := 0; b*c09FixtureChunk < nf; b++ {
		g.Emit(c09Desc{Seed: fs, Kind: "fixtures", Batch: b, N: c09FixtureChunk})
	}
	// limit table
	ms := [][2]int{{128, 128}, {300, 300}}
	if g.Thorough() {
		ms = append(ms, [2]int{127, 127}, [2]int{16384, 16384}, [2]int{1000, 70}, [2]int{70, 1000})
	}
	for _, m := range ms {
		g.Emit(c09Desc{Seed: r.Int63(), Kind: "limits", MH: m[0], MS: m[1]})
	}
	if g.Thorough() {
		s := r.Int63()
		for lo := 0; lo < len(c09EPs); lo += 4 {
			hi := lo + 4
			if hi > len(c09EPs) {
				hi = len(c09EPs)
			}
			g.Emit(c09Desc{Seed: s, Kind: "limits", Dflt: true, EPLo: lo, EPHi: hi})
		}
	}
	// random mutations
	want := g.Pick(6000, 300000)
	for b := 0; total < want; b++ {
		g.Emit(c09Desc{Seed: r.Int63(), Kind: "mutate", Batch: b, N: c09MutateChunk})
		total += c09MutateChunk
	}
}

// ------------------------------------------------------------------ running a batch

var c09FrameRe = regexp.MustCompile(`(?m)^(github\.com/ipld/go-car\S*)\([^()\n]*\)[ \t]*$`)

// c09Frame names the innermost go-car function of a Go stack dump (no line numbers, no arguments).
func c09Frame(stack string) string {
	m := c09FrameRe.FindStringSubmatch(stack)
	if m == nil {
		return "outside-go-car"
	}
	return strings.TrimPrefix(m[1], "github.com/ipld/")
}

// c09ClassFamily names what kind of input it was (the part of the class before the container kind):
// a known allocation defect is known for the input families that reach it, not for every input.
func c09ClassFamily(class string) string {
	if i := strings.Index(class, ":"); i > 0 {
		class = class[:i]
	}
	switch class {
	case "flip", "overwrite", "splice", "random-tail", "random", "truncate",
		"fixture", "fixture-flip", "fixture-truncate", "fuzz-corpus", "fuzz-corpus-flip", "fuzz-corpus-truncate":
		return "random-mutation" // where a random mutation lands differs from seed to seed
	}
	return class
}

var c09SlugRe = regexp.MustCompile(`[^a-z0-9]+`)

func c09Slug(s string) string {
	s = strings.ToLower(s)
	s = regexp.MustCompile(`0x[0-9a-f]+|[0-9]+`).ReplaceAllString(s, "N")
	return strings.Trim(c09SlugRe.ReplaceAllString(s, "-"), "-")
}

// c09DeathKey classifies what the runtime printed before the child died.
func c09DeathKey(stderr string) (class, frame string, found bool) {
	lines := strings.Split(stderr, "\n")
	for i, l := range lines {
		switch {
		case strings.HasPrefix(l, "fatal error: "):
			msg := strings.TrimPrefix(strings.TrimPrefix(l, "fatal error: "), "runtime: ")
			return c09Slug(msg), c09Frame(strings.Join(lines[i:], "\n")), true
		case strings.HasPrefix(l, "panic: "):
			// an unrecovered panic: one raised on a goroutine the library started itself
			msg := strings.TrimPrefix(l, "panic: ")
			if j := strings.Index(msg, ":"); j > 0 && strings.HasPrefix(msg, "runtime error") {
				msg = strings.TrimSpace(msg[j+1:])
			}
			if len(msg) > 60 {
				msg = msg[:60]
			}
			return "panic-" + c09Slug(msg), c09Frame(strings.Join(lines[i:], "\n")), true
		}
	}
	return "", "", false
}

type c09Attempt struct {
	exit     int
	signal   syscall.Signal
	signaled bool
	cpu      float64
	timedOut bool
	stderr   string
	err      error
}

const (
	c09CPULimit     = 120 // seconds of CPU per child process
	c09CPULimitDflt = 900
	c09ASLimitKiB   = 4 << 20
)

func c09Spawn(exe string, args []string, stderrPath string, cpuLimit int) c09Attempt {
	ctx, cancel := context.WithTimeout(context.Background(), 5*time.Minute+time.Duration(cpuLimit)*time.Second)
	defer cancel()
	// `ulimit -t` sets the soft and the hard limit: the kernel sends SIGKILL when the CPU time is used up
	// (the Go runtime ignores the SIGXCPU of a soft limit). A failing ulimit must not go unnoticed.
	script := fmt.Sprintf(`ulimit -v %d && ulimit -t %d || exit 97; exec "$0" "$@"`, c09ASLimitKiB, cpuLimit)
	cmd := exec.CommandContext(ctx, "bash", append([]string{"-c", script, exe}, args...)...)
	cmd.SysProcAttr = &syscall.SysProcAttr{Pdeathsig: syscall.SIGKILL} // no orphan keeps spinning when the parent goes away
	for _, e := range os.Environ() {
		if strings.HasPrefix(e, "GOMEMLIMIT=") || strings.HasPrefix(e, "GOGC=") || strings.HasPrefix(e, "GOMAXPROCS=") || strings.HasPrefix(e, "GOTRACEBACK=") {
			continue
		}
		cmd.Env = append(cmd.Env, e)
	}
	cmd.Env = append(cmd.Env, "GOMAXPROCS=2")
	ef, err := os.Create(stderrPath)
	if err != nil {
		return c09Attempt{err: err}
	}
	defer ef.Close()
	cmd.Stderr = ef
	cmd.Stdout = ef
	runErr := cmd.Run()
	var a c09Attempt
	if cmd.ProcessState == nil {
		a.err = runErr
		return a
	}
	a.timedOut = ctx.Err() != nil
	a.cpu = cmd.ProcessState.UserTime().Seconds() + cmd.ProcessState.SystemTime().Seconds()
	if ws, ok := cmd.ProcessState.Sys().(syscall.WaitStatus); ok {
		a.signaled = ws.Signaled()
		if a.signaled {
			a.signal = ws.Signal()
		}
		a.exit = ws.ExitStatus()
	} else {
		a.exit = cmd.ProcessState.ExitCode()
	}
	b, _ := os.ReadFile(stderrPath)
	if len(b) > 1<<20 {
		b = b[:1<<20]
	}
	a.stderr = string(b)
	return a
}

func c09ReadResults(path string) (starts map[int]c09Res, dones map[int]c09Res, canaries []c09Res, fails []c09Res, lastStart int) {
	starts, dones = map[int]c09Res{}, map[int]c09Res{}
	lastStart = -1
	f, err := os.Open(path)
	if err != nil {
		return
	}
	defer f.Close()
	sc := bufio.NewScanner(f)
	sc.Buffer(make([]byte, 1<<20), 64<<20)
	for sc.Scan() {
		var r c09Res
		if json.Unmarshal(sc.Bytes(), &r) != nil {
			continue // a line torn by the death of the child
		}
		switch r.T {
		case "start":
			starts[r.I] = r
			lastStart = r.I
		case "done":
			dones[r.I] = r
		case "canary":
			canaries = append(canaries, r)
		case "fail":
			fails = append(fails, r)
		}
	}
	return
}

func c09TooLarge(err string) bool {
	return strings.Contains(err, "invalid header data, length of read beyond allowable maximum") ||
		strings.Contains(err, "invalid section data, length of read beyond allowable maximum") ||
		strings.Contains(err, "malformed car; header is bigger than util.MaxAllowedSectionSize")
}

func c09Detail(in c09Input, call c09Call, extra map[string]any) map[string]any {
	d := map[string]any{
		"entry_point": call.EP,
		"input_class": in.Class,
		"options":     in.Opts.String(),
		"input_len":   len(in.Data),
		"query_keys":  c09HexAll(in.Keys),
	}
	if in.Name != "" {
		d["input_file"] = in.Name
	}
	if len(in.Data) <= 4096 {
		d["input_hex"] = hex.EncodeToString(in.Data)
	} else {
		d["input_hex_prefix"] = hex.EncodeToString(in.Data[:512])
	}
	if call.Row != "" {
		d["limit_row"] = call.Row
		d["expectation"] = call.Expect
	}
	for k, v := range extra {
		d[k] = v
	}
	return d
}

func c09HexAll(bs [][]byte) []string {
	out := make([]string, len(bs))
	for i, b := range bs {
		out[i] = hex.EncodeToString(b)
	}
	return out
}

func runC09(t *mon.T, raw json.RawMessage) {
	var d c09Desc
	if err := json.Unmarshal(raw, &d); err != nil {
		panic(err)
	}
	b := c09BuildBatch(d)
	if len(b.Calls) == 0 {
		return
	}
	exe, err := os.Executable()
	if err != nil {
		t.Violatef("harness/child-failed", "os.Executable: %v", err)
		return
	}
	dir := lab.TempDir("c09")
	defer os.RemoveAll(dir)

	// batch file + input blob
	var bf c09BatchFile
	var blob []byte
	for _, in := range b.Inputs {
		bf.Inputs = append(bf.Inputs, c09FileInput{Off: int64(len(blob)), Len: int64(len(in.Data)), Keys: c09HexAll(in.Keys), Opts: in.Opts})
		blob = append(blob, in.Data...)
	}
	bf.Calls = b.Calls
	bj, _ := json.Marshal(bf)
	batchPath, blobPath, resPath := filepath.Join(dir, "batch.json"), filepath.Join(dir, "inputs.bin"), filepath.Join(dir, "results.jsonl")
	if os.WriteFile(batchPath, bj, 0o644) != nil || os.WriteFile(blobPath, blob, 0o644) != nil {
		t.Violatef("harness/child-failed", "cannot write the batch files")
		return
	}
	blob = nil

	cpuLimit := c09CPULimit
	if d.Dflt {
		cpuLimit = c09CPULimitDflt
	}
	if v, err := strconv.Atoi(os.Getenv("VERIF_C09_CPU")); err == nil && v > 0 {
		cpuLimit = v // only for testing the fence itself against a mutant that spins
	}
	t.Nontrivial()
	t.Distinct(fmt.Sprintf("%s/%d/%d/%d/%d/%v/%d", d.Kind, d.Seed, d.Batch, d.MH, d.MS, d.Dflt, d.EPLo))

	from := 0
	for attempt := 0; from < len(b.Calls); attempt++ {
		a := c09Spawn(exe, []string{"child", "c09", batchPath, blobPath, resPath, strconv.Itoa(from)}, filepath.Join(dir, fmt.Sprintf("stderr-%d.txt", attempt)), cpuLimit)
		t.Cover("child:runs")
		if a.err != nil {
			t.Violatef("harness/child-failed", "cannot run the child: %v", a.err)
			return
		}
		starts, dones, canaries, fails, last := c09ReadResults(resPath)
		for _, c := range canaries {
			if c.Out != "ok" {
				t.Violatef("harness/canary", "canary failed in the child: %s", c.Msg)
				return
			}
		}
		if len(fails) > 0 {
			t.Violatef("harness/child-failed", "child: %s", fails[0].Msg)
			return
		}
		if !a.signaled && a.exit == 0 {
			// the child believes it is done: both canaries of this run must be there
			n := 0
			for _, c := range canaries {
				if c.I == from {
					n++
				}
			}
			if n != 2 {
				t.Violatef("harness/canary", "child exited 0 with %d canary records for the run from call %d", n, from)
				return
			}
			t.CoverN("canary:ok", 2)
			break
		}
		// the child died: who was running?
		_, finished := dones[last]
		if last < from || finished {
			if a.timedOut {
				t.Inconclusive("wall-clock timeout outside any call (batch %s/%d)", d.Kind, d.Batch)
				return
			}
			t.ViolateD("harness/child-failed", map[string]any{"stderr": c09Trunc(a.stderr, 4000), "exit": a.exit, "signal": a.signal.String()},
				"child died outside any call (exit %d, signaled %v)", a.exit, a.signaled)
			return
		}
		call := b.Calls[last]
		in := b.Inputs[call.In]
		extra := map[string]any{"stderr": c09Trunc(a.stderr, 6000), "exit_status": a.exit, "child_cpu_s": a.cpu}
		if a.signaled {
			extra["signal"] = a.signal.String()
		}
		class, frame, found := c09DeathKey(a.stderr)
		switch {
		case a.timedOut:
			t.Inconclusive("wall-clock timeout in %s on class %s (batch %s/%d call %d)", call.EP, in.Class, d.Kind, d.Batch, last)
		case found && strings.HasPrefix(class, "hang-"):
			t.Cover("death:hang")
			t.ViolateD("hang/"+call.EP+"/all-goroutines-blocked", c09Detail(in, call, extra),
				"%s does not terminate: every goroutine of the call is blocked on a channel or mutex with nothing left to wake it (input class %s, %s)", call.EP, in.Class, in.Opts)
		case found:
			t.Cover("death:" + class)
			t.ViolateD("fatal/"+class+"/"+frame, c09Detail(in, call, extra),
				"%s killed the process: fatal %s in %s (input class %s, %s)", call.EP, class, frame, in.Class, in.Opts)
		case a.signaled && (a.signal == syscall.SIGXCPU || a.signal == syscall.SIGKILL) && a.cpu >= float64(cpuLimit)-2:
			if a.cpu-starts[last].CPU >= float64(cpuLimit)/2 {
				t.Cover("death:cpu-limit")
				t.ViolateD(call.EP+"/"+in.Class+"/cpu-limit-exceeded", c09Detail(in, call, extra),
					"%s did not terminate: the call alone used %.0f s of CPU before the %d s fence killed the process (input class %s)", call.EP, a.cpu-starts[last].CPU, cpuLimit, in.Class)
			} else {
				t.Inconclusive("CPU fence hit by the batch as a whole, not by one call (%s/%d)", d.Kind, d.Batch)
			}
		default:
			t.Cover("death:unexplained")
			t.ViolateD("fatal/unexplained-death/"+call.EP, c09Detail(in, call, extra),
				"%s: the process died without a runtime report (exit %d, signaled %v %v) on input class %s", call.EP, a.exit, a.signaled, a.signal, in.Class)
		}
		from = last + 1
	}

	// judge the completed calls
	_, dones, _, _, _ := c09ReadResults(resPath)
	t.Events(len(dones))
	for i, call := range b.Calls {
		res, ok := dones[i]
		if !ok {
			continue
		}
		in := b.Inputs[call.In]
		ep := c09EPByName(call.EP)
		t.Cover("class:" + in.Class)
		switch res.Out {
		case "ok":
			t.Cover("ep:" + call.EP + ":ok")
		case "err":
			t.Cover("ep:" + call.EP + ":err")
		}
		if in.Opts.Hdr == 0 {
			t.Cover("opts:default-limits")
		} else {
			t.Cover("opts:small-limits")
		}
		if in.Opts.ZeroEOF {
			t.Cover("opts:zero-length-section-as-eof")
		}
		bound := c09Bound(ep.root, in.Opts, len(in.Data))
		extra := map[string]any{"outcome": res.Out, "error": res.Err, "alloc_bytes": res.Alloc, "alloc_bound": bound, "read_calls": res.Reads}

		if res.Out == "panic" {
			extra["panic"] = res.Panic
			extra["stack"] = c09Trunc(res.Stack, 5000)
			t.Cover("panic")
			t.ViolateD("panic/"+c09Frame(res.Stack), c09Detail(in, call, extra),
				"%s panicked: %s (input class %s, %s)", call.EP, res.Panic, in.Class, in.Opts)
			continue
		}
		if res.Budget {
			t.ViolateD(call.EP+"/"+in.Class+"/read-budget-exceeded", c09Detail(in, call, extra),
				"%s made more than %d read calls on a %d-byte input (class %s)", call.EP, 1000*(len(in.Data)+64), len(in.Data), in.Class)
		}
		if res.NoProgress {
			t.ViolateD(call.EP+"/"+in.Class+"/no-progress", c09Detail(in, call, extra),
				"%s delivered more items than the %d-byte input has bytes (class %s)", call.EP, len(in.Data), in.Class)
		}
		if res.Alloc > bound {
			key := "alloc-exceeds-bound/" + res.Site + "/" + c09ClassFamily(in.Class)
			if res.Site == "" {
				key = call.EP + "/" + in.Class + "/alloc-exceeds-bound"
			}
			extra["dominant_allocation_site"] = res.Site
			t.Cover("alloc-exceeds-bound")
			t.ViolateD(key, c09Detail(in, call, extra),
				"%s allocated %d bytes on a %d-byte input, bound %d (site %s, class %s, %s)", call.EP, res.Alloc, len(in.Data), bound, res.Site, in.Class, in.Opts)
		}
		if call.Row == "" {
			continue
		}
		// limit table
		t.Cover("limit:" + call.Row + ":" + call.Expect)
		tooLarge := res.Out == "err" && c09TooLarge(res.Err)
		bad := func(symptom, format string, a ...any) {
			t.ViolateD(call.EP+"/"+call.Row+"/"+symptom, c09Detail(in, call, extra), "%s, limit row %s (%s): %s", call.EP, call.Row, in.Opts, fmt.Sprintf(format, a...))
		}
		switch call.Expect {
		case "accept":
			if tooLarge {
				bad("rejected", "exactly at the maximum but rejected: %s", res.Err)
			} else if res.Out != "ok" {
				bad("other-error", "valid archive exactly at the maximum fails: %s", res.Err)
			}
		case "not-too-large":
			if tooLarge {
				bad("rejected", "exactly at the maximum but rejected: %s", res.Err)
			}
		case "too-large-header", "too-large-section":
			if res.Out == "ok" {
				bad("accepted", "one byte over the maximum but accepted")
			} else if !tooLarge {
				bad("wrong-error", "one byte over the maximum, rejected with %q instead of the too-large error", res.Err)
			}
		case "reject-noalloc":
			if res.Out == "ok" {
				bad("accepted", "length prefix over the maximum without a body, accepted")
			} else if !tooLarge {
				bad("wrong-error", "length prefix over the maximum, rejected with %q instead of the too-large error", res.Err)
			}
			fallthrough
		case "noalloc":
			if res.Alloc >= 64<<10 {
				bad("allocated", "%d bytes allocated for a length prefix without a body", res.Alloc)
			}
		case "any":
			if tooLarge {
				t.Cover("limit:" + call.Row + ":non-buffering-rejects")
			} else {
				t.Cover("limit:" + call.Row + ":non-buffering-passes")
			}
		}
	}
	if d.Batch == 0 {
		t.Sample(map[string]any{"kind": d.Kind, "inputs": len(b.Inputs), "calls": len(b.Calls), "first_class": b.Inputs[0].Class, "first_input": lab.Hex(b.Inputs[0].Data), "first_entry_point": b.Calls[0].EP})
	}
}

func c09MinCover() map[string]int {
	m := map[string]int{"canary:ok": 2, "child:runs": 1, "opts:small-limits": 1000, "opts:default-limits": 1000, "opts:zero-length-section-as-eof": 1000}
	for _, ep := range c09EPs {
		m["ep:"+ep.name+":ok"] = 1
		m["ep:"+ep.name+":err"] = 1
	}
	for _, c := range []string{
		"valid:v1", "valid:v2", "valid:v2nx", "valid:index",
		"flip:v1", "flip:v2", "flip:index", "truncate:v1", "truncate:v2", "truncate:index", "truncate:v2-index",
		"header-len:v1", "header-len:v2", "section-len:v1", "section-len:v2", "v2-header:v2", "v2-header:v2nx",
		"index-fields:index", "index-fields:v2", "cid-digest-len:v1", "cid-digest-len:v2", "zero-section:v1", "zero-section:v2", "nested-pragma",
		"fixture", "fuzz-corpus", "random", "random-tail:v1", "overwrite:v1", "splice:v1",
		"limit:header-at-max:v1", "limit:header-at-max:v2", "limit:header-over-max:v1", "limit:header-over-max:v2",
		"limit:section-at-max:v1", "limit:section-at-max:v2", "limit:section-over-max:v1", "limit:section-over-max:v2",
		"limit:giant-header-prefix:v1", "limit:giant-header-prefix:v2", "limit:giant-section-prefix:v1", "limit:giant-section-prefix:v2",
	} {
		m["class:"+c] = 1
	}
	for _, row := range []string{
		"header-at-max:accept", "header-over-max:too-large-header", "section-at-max:accept", "section-over-max:too-large-section",
		"giant-header-prefix:reject-noalloc", "giant-section-prefix:reject-noalloc", "giant-section-prefix:noalloc",
	} {
		m["limit:"+row] = 1
	}
	return m
}

func init() {
	Register(&mon.Check{
		ID:    "C09",
		Level: "exploration",
		Rule: "cases = batches of calls (entry point × input × options) executed in a child process behind ulimit -v 4 GiB / ulimit -t; " +
			"inputs = exhaustive typed mutations of reference-built CARv1/CARv2/index files (length varints, CARv2 header fields incl. overflowing offset+size, index count/width/len/code/codec extremes, zero-length sections, nested pragmas, structural cuts), random mutations, the repository's fixtures and fuzz corpus, raw random bytes, and the limit table (header/section at M and M+1, giant prefixes without a body); " +
			"each input goes through every entry point (v2 BlockReader Next/SkipNext/Mixed × 4 sources, NewReader+Roots/DataReader/IndexReader/Inspect, ReadVersion, GenerateIndex, LoadIndex × 3 index kinds × 2 sources, ReadOrGenerateIndex, index.ReadFrom+GetAll/ForEach/Marshal, blockstore.NewReadOnly+Has/Get/GetSize/AllKeysChan+Roots, storage.OpenReadable+Has/Get/GetStream, WrapV1, ExtractV1File, ReplaceRootsInFile, root NewCarReader+Next, root LoadCar); " +
			"events_observed = completed calls; non-trivial = every batch",
		Assumptions: []string{
			"allocation = runtime.MemStats.TotalAlloc delta around the call, calls run one at a time in the child; bound = header limit + section limit + 64·len(input) + 256 KiB",
			"termination = read-call budget 1000·(len+64) on counted sources and an iteration cap on Next/Skip loops (deterministic); CPU fence only for sources that cannot be counted (files); wall clock never decides",
			"a process death is attributed to the last call logged as started; its key comes from the runtime's own report (fatal error / panic line and innermost go-car frame)",
			"limit table expectations: entry points that buffer a header/section must accept M and reject M+1 with the too-large error; entry points that skip over sections without buffering them are free to accept a large one",
		},
		Gen:         genC09,
		Run:         runC09,
		MinCover:    c09MinCover(),
		CaseTimeout: 40 * time.Minute,
		Extra:       map[string]any{"entry_points": len(c09EPs)},
	})
}
