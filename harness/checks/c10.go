package checks

import (
	"bytes"
	"encoding/json"
	"errors"
	"io"
	"math"
	"os"
	"path/filepath"
	"strings"
	"sync"
	"syscall"

	carv2 "github.com/ipld/go-car/v2"
	"github.com/multiformats/go-multicodec"

	"carlab/internal/gen"
	"carlab/internal/lab"
	"carlab/internal/mon"
	"carlab/internal/refcar"
)

type c10Desc struct {
	Seed  int64 `json:"seed"`
	Giant bool  `json:"giant,omitempty"` // a header of more than 32 MiB (over the DEFAULT header limit), wrapped under a raised limit
	Big   int   `json:"big,omitempty"`   // > 0: that many tiny sections (the index of the wrap is built from tens of thousands of records)
}

func mustWrite(p string, b []byte) {
	if err := os.WriteFile(p, b, 0o644); err != nil {
		panic(err)
	}
}
func mustRead(p string) []byte {
	b, err := os.ReadFile(p)
	if err != nil {
		panic(err)
	}
	return b
}

// c10OtherFS returns a writable directory on a filesystem other than the temporary directory's
// ("" when there is none).
var c10OtherFSOnce sync.Once
var c10OtherFSDir string

func c10OtherFS() string {
	c10OtherFSOnce.Do(func() {
		var a, b syscall.Stat_t
		if syscall.Stat(os.TempDir(), &a) != nil {
			return
		}
		for _, cand := range []string{"/dev/shm", "/run/shm", "/var/tmp"} {
			if syscall.Stat(cand, &b) == nil && b.Dev != a.Dev {
				if d, err := os.MkdirTemp(cand, "carlab-probe-"); err == nil {
					os.RemoveAll(d)
					c10OtherFSDir = cand
					return
				}
			}
		}
	})
	return c10OtherFSDir
}

// c10Giant: a CARv1 whose header (34 identity roots of 1 MiB) is larger than the default
// MaxAllowedHeaderSize; the caller raises the limit, and the options it passes are the ones that count.
func c10Giant(t *mon.T, d c10Desc) {
	r := gen.Rand(d.Seed)
	var roots [][]byte
	for i := 0; i < 34; i++ {
		dg := make([]byte, 1<<20)
		dg[0], dg[len(dg)-1] = byte(i), byte(r.Intn(256))
		roots = append(roots, refcar.MakeCidV1(0x55, 0x00, dg))
	}
	b1 := gen.HonestBlock(r, gen.BlockOpts{Size: -1, MaxSize: 100, NoIdentity: true})
	x := refcar.EncodeV1(roots, false, []refcar.Block{b1})
	t.Nontrivial()
	t.Cover("input:header-over-32MiB")
	var out bytes.Buffer
	err := carv2.WrapV1(bytes.NewReader(x), &out, carv2.MaxAllowedHeaderSize(64<<20))
	t.Events(1)
	if err != nil {
		t.Violatef("WrapV1(header over the default limit, limit raised)/valid-input/error", "WrapV1 with MaxAllowedHeaderSize(64 MiB) of a CARv1 whose header has %d bytes failed: %v", len(x)-len(refcar.EncodeSection(b1.Cid, b1.Data)), err)
		return
	}
	o := out.Bytes()
	want := append(append([]byte{}, refcar.Pragma...), refcar.V2Header{DataOffset: 51, DataSize: uint64(len(x)), IndexOffset: 51 + uint64(len(x))}.Bytes()...)
	if len(o) < len(want)+len(x) || !bytes.Equal(o[:len(want)], want) || !bytes.Equal(o[len(want):len(want)+len(x)], x) {
		t.Violatef("WrapV1(header over the default limit, limit raised)/container/bytes-differ", "output is not pragma, header(51,%d,%d), unmodified source", len(x), 51+len(x))
	}
}

func runC10(t *mon.T, raw json.RawMessage) {
	var d c10Desc
	if err := json.Unmarshal(raw, &d); err != nil {
		panic(err)
	}
	if d.Giant {
		c10Giant(t, d)
		return
	}
	r := gen.Rand(d.Seed)
	content := gen.MakeContent(r, gen.ContentOpts{MinBlocks: 0, MaxBlocks: 8, MaxRoots: 4, Dups: true, Synthetic: true, Boundaries: true, Block: gen.BlockOpts{MaxSize: 300}})
	if d.Big > 0 {
		content.Blocks = content.Blocks[:0]
		for i := 0; i < d.Big; i++ {
			dg := gen.Bytes(r, []int{32, 32, 20, 64}[i%4])
			content.Blocks = append(content.Blocks, refcar.Block{Cid: refcar.MakeCidV1(0x55, []uint64{0x12, 0x13}[i%2], dg), Data: []byte{byte(i), byte(i >> 8)}})
		}
		t.Cover("input:tens-of-thousands-of-sections")
	}
	storeID := r.Intn(2) == 0
	sorted := r.Intn(2) == 0
	if !storeID && r.Intn(4) == 0 {
		// an identity CID longer than MaxIndexCidSize: wrapping indexes no identity CID by default, so no limit applies
		i := r.Intn(len(content.Blocks) + 1)
		content.Blocks = append(content.Blocks[:i], append([]refcar.Block{gen.LongIdentityBlock(r)}, content.Blocks[i:]...)...)
		t.Cover("input:identity-cid-longer-than-max-index-cid-size")
	}
	x := refcar.EncodeV1(content.Roots, content.NilRoots, content.Blocks)
	ref, _ := refcar.DecodeV1(x, false)
	dir := lab.TempDir("c10")
	defer os.RemoveAll(dir)
	t.Nontrivial()

	// ---------------- wrap
	var wopts []carv2.Option
	codec := uint64(refcar.CodecMhIndexSorted)
	if sorted {
		wopts = append(wopts, carv2.UseIndexCodec(multicodec.CarIndexSorted))
		codec = refcar.CodecIndexSorted
	}
	if storeID {
		wopts = append(wopts, carv2.StoreIdentityCIDs(true))
	}
	if len(ref.Sections) > 0 && len(x)%2 == 0 {
		// the section limit of the readers, exactly at the longest section of x: wrapping reads x
		maxSec := uint64(0)
		for _, s := range ref.Sections {
			if l := uint64(len(s.Cid.Raw) + len(s.Data)); l > maxSec {
				maxSec = l
			}
		}
		wopts = append(wopts, carv2.MaxAllowedSectionSize(maxSec))
		t.Cover("wrap:section-limit-exactly-at-the-longest-section")
	}
	if len(x)%5 == 2 {
		// "no limit" spelled as the largest value the option takes
		wopts = append(wopts, carv2.MaxAllowedHeaderSize([]uint64{math.MaxUint64, 1 << 63}[len(x)%2]))
		t.Cover("wrap:header-limit-at-the-top-of-the-integer-range")
	}
	checkWrap := func(api string, out []byte) {
		t.Events(1)
		want := append(append([]byte{}, refcar.Pragma...), refcar.V2Header{DataOffset: 51, DataSize: uint64(len(x)), IndexOffset: 51 + uint64(len(x))}.Bytes()...)
		want = append(want, x...)
		if len(out) < len(want) || !bytes.Equal(out[:len(want)], want) {
			t.Violatef(api+"/container/bytes-differ", "%s: output does not start with pragma ‖ header(51,%d,%d) ‖ unmodified source; first difference at %d", api, len(x), 51+len(x), lab.FirstDiff(out, want))
			return
		}
		pi, err := refcar.ParseIndex(out[len(want):])
		if err != nil {
			t.Violatef(api+"/index/unparseable", "%s: appended index does not parse: %v", api, err)
			return
		}
		if pi.Size != len(out)-len(want) {
			t.Violatef(api+"/index/trailing-bytes", "%s: %d bytes follow the index", api, len(out)-len(want)-pi.Size)
		}
		exp := refcar.ExpectedIndexRecords(ref, codec, storeID && api != "WrapV1File")
		wantCodec := codec
		if api == "WrapV1File" { // takes no options
			wantCodec = refcar.CodecMhIndexSorted
			exp = refcar.ExpectedIndexRecords(ref, wantCodec, false)
		}
		if pi.Codec != wantCodec {
			t.Violatef(api+"/index/codec", "%s: index codec %#x, want %#x", api, pi.Codec, wantCodec)
		} else if !refcar.RecordsEqual(pi.Records(), exp) {
			t.Violatef(api+"/index/records-differ", "%s: index records differ from a reference scan of the source", api)
		} else if err := pi.CheckCanonical(); err != nil {
			t.Violatef(api+"/index/order", "%s: %v", api, err)
		}
	}
	var wrapped []byte
	{
		var out bytes.Buffer
		var wsrc io.ReadSeeker = bytes.NewReader(x)
		if len(x)%3 == 0 {
			wsrc = lab.EOFSeeker{R: bytes.NewReader(x)} // the last bytes come together with io.EOF
			t.Cover("wrap:source-returns-data+EOF")
		} else if len(x)%3 == 1 {
			wsrc = &lab.StutterSeeker{R: bytes.NewReader(x)} // every other Read returns (0, nil)
			t.Cover("wrap:source-stutters")
		}
		if err := carv2.WrapV1(wsrc, &out, wopts...); err != nil {
			t.Violatef("WrapV1/valid-input/error", "WrapV1 failed: %v", err)
		} else {
			checkWrap("WrapV1", out.Bytes())
			wrapped = out.Bytes()
			t.Cover("wrap")
		}
		src, dst := filepath.Join(dir, "src.car"), filepath.Join(dir, "wrapped.car")
		if od := c10OtherFS(); od != "" && len(x)%4 == 1 {
			// the destination lies on another filesystem than the temporary directory (and the source)
			if sub, err := os.MkdirTemp(od, "carlab-c10-"); err == nil {
				defer os.RemoveAll(sub)
				dst = filepath.Join(sub, "wrapped.car")
				t.Cover("wrapfile-destination-on-another-filesystem")
			}
		}
		mustWrite(src, x)
		if r.Intn(2) == 0 {
			mustWrite(dst, gen.Bytes(r, len(x)*2+500)) // destination pre-exists and is larger
			t.Cover("wrapfile-over-larger-file")
		}
		if err := carv2.WrapV1File(src, dst); err != nil {
			t.Violatef("WrapV1File/valid-input/error", "WrapV1File failed: %v", err)
		} else {
			checkWrap("WrapV1File", mustRead(dst))
			if !bytes.Equal(mustRead(src), x) {
				t.Violatef("WrapV1File/source/modified", "WrapV1File modified its source")
			}
		}
	}

	// a null-padded source wrapped with ZeroLengthSectionAsEOF: the whole source (padding included) is the
	// payload, the index covers the sections before the padding
	{
		padded := append(append([]byte{}, x...), make([]byte, 2+r.Intn(70))...)
		var out bytes.Buffer
		var psrc io.ReadSeeker = bytes.NewReader(padded)
		if len(padded)%2 == 0 {
			psrc = &lab.StutterSeeker{R: bytes.NewReader(padded)} // a (0, nil) read must not pass for a zero length byte
		}
		err := carv2.WrapV1(psrc, &out, append(append([]carv2.Option{}, wopts...), carv2.ZeroLengthSectionAsEOF(true))...)
		t.Events(1)
		t.Cover("wrap-null-padded-source")
		if err != nil {
			t.Violatef("WrapV1(null-padded,ZeroLengthSectionAsEOF)/valid-input/error", "WrapV1 failed: %v", err)
		} else {
			o := out.Bytes()
			want := append(append([]byte{}, refcar.Pragma...), refcar.V2Header{DataOffset: 51, DataSize: uint64(len(padded)), IndexOffset: 51 + uint64(len(padded))}.Bytes()...)
			want = append(want, padded...)
			if len(o) < len(want) || !bytes.Equal(o[:len(want)], want) {
				t.Violatef("WrapV1(null-padded,ZeroLengthSectionAsEOF)/container/bytes-differ", "output does not start with pragma ‖ header(51,%d,%d) ‖ unmodified source; first difference at %d", len(padded), 51+len(padded), lab.FirstDiff(o, want))
			} else if pi, perr := refcar.ParseIndex(o[len(want):]); perr != nil || !refcar.RecordsEqual(pi.Records(), refcar.ExpectedIndexRecords(ref, codec, storeID)) {
				t.Violatef("WrapV1(null-padded,ZeroLengthSectionAsEOF)/index/records-differ", "index of the wrapped null-padded source differs from a reference scan (%v)", perr)
			}
		}
	}

	// ---------------- extract
	v2variants := map[string][]byte{}
	if wrapped != nil {
		v2variants["wrap(x)"] = wrapped
	}
	idxb := refcar.BuildIndex(refcar.CodecMhIndexSorted, refcar.ExpectedIndexRecords(ref, refcar.CodecMhIndexSorted, false))
	v2variants["padded+index"] = refcar.EncodeV2(x, refcar.V2Opts{DataPadding: uint64(1 + r.Intn(4000)), IndexPadding: uint64(r.Intn(100)), Index: idxb})
	v2variants["indexless"] = refcar.EncodeV2(x, refcar.V2Opts{DataPadding: uint64(r.Intn(3))})
	v2variants["index-nopad"] = refcar.EncodeV2(x, refcar.V2Opts{Index: idxb})
	for vn, v2 := range v2variants {
		for _, state := range []string{"absent", "larger-existing", "smaller-existing", "in-place", "in-place-alias-path", "in-place-symlink", "in-place-hardlink"} {
			src := filepath.Join(dir, "e-src.car")
			dst := filepath.Join(dir, "e-dst.car")
			os.Remove(dst)
			mustWrite(src, v2)
			switch state {
			case "larger-existing":
				mustWrite(dst, gen.Bytes(r, len(x)+1+r.Intn(5000)))
			case "smaller-existing":
				if len(x) < 2 {
					continue
				}
				mustWrite(dst, gen.Bytes(r, r.Intn(len(x))))
			case "in-place":
				dst = src
			case "in-place-alias-path":
				dst = filepath.Dir(src) + "/./" + filepath.Base(src) // the same file under another spelling
			case "in-place-symlink":
				dst = filepath.Join(dir, "e-link.car")
				os.Remove(dst)
				if err := os.Symlink(src, dst); err != nil {
					panic(err)
				}
			case "in-place-hardlink":
				dst = filepath.Join(dir, "e-hard.car")
				os.Remove(dst)
				if err := os.Link(src, dst); err != nil {
					panic(err)
				}
			}
			err := carv2.ExtractV1File(src, dst)
			t.Events(1)
			t.Cover("extract:" + state)
			key := "ExtractV1File/" + vn + "/" + state
			if err != nil {
				t.Violatef(key+"/error", "ExtractV1File(%s, %s) failed: %v", vn, state, err)
				continue
			}
			got := mustRead(dst)
			if !bytes.Equal(got, x) {
				t.Violatef(key+"/payload-differs", "ExtractV1File(%s, %s) produced %d bytes, payload has %d; first difference at %d", vn, state, len(got), len(x), lab.FirstDiff(got, x))
			}
			if !strings.HasPrefix(state, "in-place") && !bytes.Equal(mustRead(src), v2) {
				t.Violatef(key+"/source-modified", "ExtractV1File modified its source")
			}
		}
	}
	// Reader.DataReader is the payload, byte for byte, for every reader it hands out: a data reader that is
	// part-way through stays where its caller left it while the same Reader serves Roots(), Inspect() and
	// further data readers
	{
		forms := map[string][]byte{"v1": x}
		for vn, v2 := range v2variants {
			forms[vn] = v2
		}
		for vn, f := range forms {
			rd, err := carv2.NewReader(bytes.NewReader(f))
			if err != nil {
				t.Violatef("Reader.DataReader/"+vn+"/error", "NewReader(%s) failed: %v", vn, err)
				continue
			}
			dr1, err := rd.DataReader()
			if err != nil {
				t.Violatef("Reader.DataReader/"+vn+"/error", "DataReader(%s) failed: %v", vn, err)
				continue
			}
			head := make([]byte, r.Intn(len(x)+1))
			if _, err := io.ReadFull(dr1, head); err != nil {
				t.Violatef("Reader.DataReader/"+vn+"/error", "reading %d payload bytes of %s failed: %v", len(head), vn, err)
				continue
			}
			rd.Roots()
			if r.Intn(2) == 0 {
				rd.Inspect(r.Intn(2) == 0)
			}
			dr2, err2 := rd.DataReader()
			var got2 []byte
			if err2 == nil {
				part := make([]byte, r.Intn(len(x)+1))
				io.ReadFull(dr2, part)
				got2 = part
			}
			rest, rerr := io.ReadAll(dr1)
			if err2 == nil {
				rest2, _ := io.ReadAll(dr2)
				got2 = append(got2, rest2...)
			}
			t.Events(2)
			t.Cover("data-reader-used-across-other-calls-on-its-reader")
			if got := append(head, rest...); rerr != nil || !bytes.Equal(got, x) {
				t.Violatef("Reader.DataReader/"+vn+"/payload-differs", "a data reader of %s read in two parts with Roots()/Inspect()/DataReader() called in between gave %d bytes (err %v), payload has %d; first difference at %d", vn, len(got), rerr, len(x), lab.FirstDiff(got, x))
			}
			if err2 != nil || !bytes.Equal(got2, x) {
				t.Violatef("Reader.DataReader/"+vn+"/second-reader-differs", "a second data reader of %s gave %d bytes (err %v), payload has %d", vn, len(got2), err2, len(x))
			}
		}
	}
	// a CARv1 source is refused and the destination is not touched
	{
		src, dst := filepath.Join(dir, "v1src.car"), filepath.Join(dir, "v1dst.car")
		mustWrite(src, x)
		sentinel := gen.Bytes(r, 77)
		mustWrite(dst, sentinel)
		err := carv2.ExtractV1File(src, dst)
		if !errors.Is(err, carv2.ErrAlreadyV1) {
			t.Violatef("ExtractV1File/v1-source/not-refused", "ExtractV1File on a CARv1 returned %v", err)
		} else if !bytes.Equal(mustRead(dst), sentinel) || !bytes.Equal(mustRead(src), x) {
			t.Violatef("ExtractV1File/v1-source/files-touched", "ExtractV1File on a CARv1 changed a file")
		}
		t.Events(1)
	}

	// ---------------- replace roots
	curHeader := refcar.EncodeHeader(content.Roots, content.NilRoots)
	type cand struct {
		label string
		roots [][]byte
		nilr  bool
	}
	var cands []cand
	// same count, CIDs of the same lengths (permuted / regenerated)
	same := make([][]byte, len(content.Roots))
	for i, rt := range content.Roots {
		nb := append([]byte{}, rt...)
		if len(nb) > 4 {
			nb[len(nb)-1] ^= 0x55 // other digest, same length
		}
		same[i] = nb
	}
	cands = append(cands, cand{"same-size", same, false})
	cands = append(cands, cand{"one-more-root", append(append([][]byte{}, content.Roots...), refcar.MakeCidV1(0x55, 0x12, gen.Bytes(r, 32))), false})
	if len(content.Roots) > 0 {
		cands = append(cands, cand{"one-root-fewer", content.Roots[:len(content.Roots)-1], false})
		longer := append([][]byte{}, content.Roots...)
		longer[0] = refcar.MakeCidV1(0x55, 0x13, gen.Bytes(r, 64))
		cands = append(cands, cand{"longer-cid", longer, false})
	}
	cands = append(cands, cand{"nil-roots", nil, true}, cand{"empty-roots", [][]byte{}, false})
	files := map[string][]byte{"v1": x, "v2-padded": v2variants["padded+index"], "v2-indexless": v2variants["indexless"]}
	storedHdrLen := map[string]int{}
	if len(content.Roots) > 0 && !content.NilRoots {
		// the same payload behind a header that is not in the writer's canonical form (the readers accept
		// it): what counts is the length of the header that is IN THE FILE
		for _, hv := range c13LenientHeaders(content.Roots) {
			h := append(refcar.PutUvarint(nil, uint64(len(hv.body))), hv.body...)
			files["v1 with "+hv.name] = append(append([]byte{}, h...), x[len(curHeader):]...)
			storedHdrLen["v1 with "+hv.name] = len(h)
		}
	}
	for fn, orig := range files {
		for _, c := range cands {
			valid := true
			for _, rt := range c.roots {
				if _, err := lab.TryCid(rt); err != nil {
					valid = false
				}
			}
			if !valid {
				continue
			}
			p := filepath.Join(dir, "rr.car")
			mustWrite(p, orig)
			newHeader := refcar.EncodeHeader(c.roots, c.nilr)
			err := carv2.ReplaceRootsInFile(p, lab.ToCids(c.roots, c.nilr))
			got := mustRead(p)
			t.Events(1)
			key := "ReplaceRootsInFile/" + fn
			inFile := len(curHeader)
			if l, ok := storedHdrLen[fn]; ok {
				inFile = l
				t.Cover("replace-roots:non-canonical-header-in-file")
			}
			if len(newHeader) == inFile {
				t.Cover("replace-roots:same-size")
				if err != nil {
					t.Violatef(key+"/same-size/error", "ReplaceRootsInFile(%s) with a header of identical length failed: %v", c.label, err)
					continue
				}
				want := append([]byte{}, orig...)
				if _, lenient := storedHdrLen[fn]; lenient {
					copy(want, newHeader)
				} else {
					a, _ := refcar.Decode(orig, false)
					copy(want[a.PayloadOff:], newHeader)
				}
				if !bytes.Equal(got, want) {
					t.Violatef(key+"/same-size/bytes-differ", "ReplaceRootsInFile(%s): file differs from the original with the header spliced in, at byte %d", c.label, lab.FirstDiff(got, want))
				}
			} else {
				t.Cover("replace-roots:different-size")
				if err == nil {
					t.Violatef(key+"/different-size/accepted", "ReplaceRootsInFile(%s) succeeded although the header length changes from %d to %d", c.label, inFile, len(newHeader))
				}
				if !bytes.Equal(got, orig) {
					t.Violatef(key+"/different-size/file-modified", "ReplaceRootsInFile(%s) failed (%v) but modified the file at byte %d", c.label, err, lab.FirstDiff(got, orig))
				}
			}
		}
	}
	t.Sample(map[string]any{"payload_bytes": len(x), "sections": len(ref.Sections), "roots": len(content.Roots), "wrap_codec": codec, "store_identity": storeID})
}

func genC10(g *mon.G) {
	r := gen.Rand(g.Seed)
	for i := 0; i < g.Pick(600, 10000); i++ {
		g.Emit(c10Desc{Seed: r.Int63()})
	}
	g.Emit(c10Desc{Seed: r.Int63(), Giant: true})
	for i := 0; i < g.Pick(2, 8); i++ {
		g.Emit(c10Desc{Seed: r.Int63(), Big: []int{16500, 33000, 50000}[i%3] + r.Intn(3000)})
	}
}

func init() {
	Register(&mon.Check{
		ID:          "C10",
		Level:       "exploration",
		Rule:        "cases = seeded CARv1 payloads x; per case: WrapV1 (option matrix) and WrapV1File (fresh and over a larger file), ExtractV1File of 4 CARv2 renderings (wrap(x), padded+index, index-less, index without padding) into 7 destination states (absent, larger, smaller, in place, and in place through another spelling of the path, a symlink and a hard link), Reader.DataReader of x and of each rendering read in two parts with Roots()/Inspect()/a second DataReader() on the same Reader in between (both readers must give x), WrapV1 of a null-padded source with ZeroLengthSectionAsEOF, ExtractV1File of a CARv1, ReplaceRootsInFile on v1/padded v2/index-less v2 with 5-6 replacement root lists of equal and different encoded size; pure byte comparisons",
		Assumptions: []string{"reference encoder (refcar) for CARv2 renderings and spliced headers"},
		Gen:         genC10,
		Run:         runC10,
		MinCover:    map[string]int{"wrap": 50, "extract:in-place": 50, "extract:larger-existing": 50, "replace-roots:same-size": 50, "replace-roots:different-size": 50, "wrapfile-over-larger-file": 10, "input:tens-of-thousands-of-sections": 2, "input:header-over-32MiB": 1, "wrap-null-padded-source": 50, "extract:in-place-symlink": 50, "extract:in-place-hardlink": 50},
	})
}
