package checks

import (
	"bytes"
	"encoding/json"
	"fmt"
	"os"
	"path/filepath"

	blocks "github.com/ipfs/go-block-format"
	"github.com/ipfs/go-cid"
	"github.com/ipld/go-car/v2/blockstore"
	"github.com/ipld/go-car/v2/storage"

	"carlab/internal/gen"
	"carlab/internal/iofault"
	"carlab/internal/lab"
	"carlab/internal/mon"
	"carlab/internal/refcar"
)

type c12Desc struct {
	Seed   int64   `json:"seed"`
	API    string  `json:"api"` // blockstore | storage
	Cfg    lab.Cfg `json:"cfg"`
	N      int     `json:"n"`
	Random int     `json:"random,omitempty"` // >0: that many random interruption strings instead of all 3^(n+1)
	Kind   string  `json:"kind"`             // interrupt | mismatch
	Roots  int     `json:"roots,omitempty"`  // >0: that many roots (header-size arithmetic at the CBOR width boundaries)
	Big    int     `json:"big,omitempty"`    // >0: the first block's data has this many bytes (sections around the default 8 MiB read limit)
	V0Twin bool    `json:"v0twin,omitempty"` // blocks: a CIDv0 block, its dag-pb CIDv1 twin (same multihash), another block, the CIDv0 block again
}

// c12Session abstracts "a file that can be opened for writing again and again".
type c12Session struct {
	api     string
	path    string
	mf      *iofault.MemFile
	bs      *blockstore.ReadWrite
	sc      *storage.StorageCar
	fresh   bool
	eager   bool
	notrunc bool
	// batchWith, when set, makes every put of the blockstore API a PutMany of [*batchWith, block]
	batchWith *refcar.Block
}

func (s *c12Session) open(roots []cid.Cid, cfg lab.Cfg) error {
	var err error
	if s.mf != nil {
		s.mf.EagerEOF = s.eager // a backend whose ReadAt reports io.EOF with the last full read (legal)
	}
	if s.api == "blockstore" {
		s.bs, err = blockstore.OpenReadWrite(s.path, roots, cfg.Opts()...)
		return err
	}
	var target storage.ReaderAtWriterAt = s.mf
	if s.notrunc && cfg.V1 {
		// a CARv1 session never truncates: a backend without Truncate must do (for CARv2 the library
		// documents that it needs one)
		target = onlyAt{s.mf}
	}
	if s.fresh {
		s.fresh = false
		s.sc, err = storage.NewReadableWritable(target, roots, cfg.Opts()...)
		return err
	}
	s.sc, err = storage.OpenReadableWritable(target, roots, cfg.Opts()...)
	return err
}
func (s *c12Session) put(b refcar.Block) error {
	if s.api == "blockstore" && s.batchWith != nil {
		// the block arrives in a batch behind blocks that are skipped (an identity block, not stored under the
		// default options of these configurations, and — once stored — the session's first block again)
		return s.bs.PutMany(bg, []blocks.Block{lab.ToBlock(*s.batchWith), lab.ToBlock(b)})
	}
	if s.api == "blockstore" {
		return s.bs.Put(bg, lab.ToBlock(b))
	}
	return s.sc.Put(bg, string(b.Cid), b.Data)
}
func (s *c12Session) finalize() error {
	if s.api == "blockstore" {
		return s.bs.Finalize()
	}
	return s.sc.Finalize()
}
func (s *c12Session) discard() {
	if s.api == "blockstore" {
		s.bs.Discard()
	}
	s.sc = nil // a storage CAR has no Discard: the object is simply dropped, as a crashed process would
}
func (s *c12Session) bytes() []byte {
	if s.api == "blockstore" {
		return mustRead(s.path)
	}
	return s.mf.Bytes()
}
func (s *c12Session) reset() {
	if s.api == "blockstore" {
		os.Remove(s.path)
	} else {
		s.mf = iofault.New(nil)
		s.mf.NoLog = true
		s.fresh = true
	}
}

func runC12(t *mon.T, raw json.RawMessage) {
	var d c12Desc
	if err := json.Unmarshal(raw, &d); err != nil {
		panic(err)
	}
	r := gen.Rand(d.Seed)
	cfg := d.Cfg
	content := gen.MakeContent(r, gen.ContentOpts{MinBlocks: d.N, MaxBlocks: d.N, MinRoots: 0, MaxRoots: 3, Synthetic: true, Block: gen.BlockOpts{MaxSize: 150}})
	if d.Roots > 0 {
		// a header of a particular shape: d.Roots roots (23/24/25: the CBOR array head grows at 24), the
		// first one an identity CID of exactly 23 bytes (the CBOR byte-string head grows at 24)
		content.Roots = [][]byte{refcar.MakeCidV1(0x55, 0x00, gen.Bytes(r, 19))}
		for len(content.Roots) < d.Roots {
			content.Roots = append(content.Roots, refcar.MakeCidV1(0x55, 0x12, gen.Bytes(r, 32)))
		}
		content.NilRoots = false
		t.Cover("header-shape:many-roots")
	}
	blks := content.Blocks
	if cfg.MaxCid == 1 {
		// MaxIndexCidSize exactly at the longest CID the session stores: what every Put accepts, a
		// reopening must accept too
		cfg.MaxCid = 0
		for _, b := range blks {
			if sc, _, _ := refcar.SplitCid(b.Cid); (!sc.IsIdentity() || cfg.StoreID) && uint64(len(b.Cid)) > cfg.MaxCid {
				cfg.MaxCid = uint64(len(b.Cid))
			}
		}
		if cfg.MaxCid > 0 {
			t.Cover("cid-limit-exactly-at-the-longest-stored-cid")
		}
	}
	if d.Big > 0 && len(blks) > 0 {
		big := make([]byte, d.Big)
		for i := 0; i < len(big); i += 4093 {
			big[i] = byte(i>>12) | 1
		}
		blks[0].Data = big // writers put no bound on the block size; a resumed session must cope with what it wrote
		t.Cover("big-section")
	}
	if len(blks) >= 2 && r.Intn(2) == 0 {
		blks[len(blks)-1] = blks[0] // re-put of an earlier block: must stay de-duplicated across a reopen
	}
	blks = blks[:d.N]
	if d.V0Twin && len(blks) >= 3 {
		// the two spellings of one multihash: distinct keys when whole CIDs are the keys, one key otherwise;
		// whichever holds, what a reopened session takes for a duplicate must be what the uninterrupted one does
		dg := gen.Bytes(r, 32)
		v0 := refcar.Block{Cid: refcar.MakeCidV0(dg), Data: gen.Bytes(r, 40)}
		v1 := refcar.Block{Cid: refcar.MakeCidV1(0x70, 0x12, dg), Data: v0.Data}
		blks[0], blks[1], blks[len(blks)-1] = v0, v1, v0
		if d.Seed&8 == 0 {
			blks[0], blks[1], blks[len(blks)-1] = v1, v0, v1
		}
		t.Cover("cidv0-and-its-cidv1-twin-put-and-put-again")
	}
	roots := lab.ToCids(content.Roots, content.NilRoots)
	dir := lab.TempDir("c12")
	defer os.RemoveAll(dir)
	s := &c12Session{api: d.API, path: filepath.Join(dir, "s.car"), eager: d.Seed&1 == 0, notrunc: d.Seed&2 == 0}
	if s.notrunc && d.API == "storage" && cfg.V1 {
		t.Cover("storage-v1-on-a-backend-without-truncate")
	}
	if s.eager && d.API == "storage" {
		t.Cover("storage-backend-with-eager-eof")
	}
	if d.API == "blockstore" && d.Seed&4 == 0 && len(blks) >= 2 && !cfg.AllowDup {
		s.batchWith = &blks[0] // de-duplicated from the second batch on: a skipped block ahead of a written one
		t.Cover("blockstore-puts-as-batches-with-a-skipped-block")
	}
	t.Cover("api:" + d.API)
	t.Cover("cfg:" + cfg.Short())
	key := func(k string) string { return d.API + "/" + k }

	// uninterrupted reference run
	s.reset()
	if err := s.open(roots, cfg); err != nil {
		t.Violatef(key("open/error"), "open failed: %v", err)
		return
	}
	for _, b := range blks {
		if err := s.put(b); err != nil {
			t.Violatef(key("put/error"), "put failed: %v", err)
			return
		}
	}
	finRefused := false
	if err := s.finalize(); err != nil {
		if !cfg.NoIdx {
			t.Violatef(key("finalize/error"), "finalize failed: %v", err)
			return
		}
		// a session opened WithoutIndex: the library refuses to finalize it. Interrupted sessions must
		// then be refused alike and leave the same bytes; if Finalize does succeed, the usual rules apply
		finRefused = true
		s.discard()
		t.Cover("without-index:finalize-refused")
	}
	want := s.bytes()
	t.Nontrivial()

	if d.Kind == "mismatch" {
		c12Mismatch(t, d, s, r, roots, content, cfg, blks, want)
		return
	}

	// interruption strings over {0: continue, 1: Discard+reopen, 2: Finalize+reopen} at each of the n+1 gaps
	gaps := d.N + 1
	total := 1
	for i := 0; i < gaps; i++ {
		total *= 3
	}
	var plans []int
	if d.Random > 0 {
		for i := 0; i < d.Random; i++ {
			plans = append(plans, r.Intn(total))
		}
	} else {
		for p := 0; p < total; p++ {
			plans = append(plans, p)
		}
	}
	for _, plan := range plans {
		str := make([]int, gaps)
		x := plan
		for i := range str {
			str[i] = x % 3
			x /= 3
		}
		s.reset()
		if err := s.open(roots, cfg); err != nil {
			t.Violatef(key("open/error"), "open failed: %v", err)
			return
		}
		ok := true
		interrupt := func(g int) bool {
			switch str[g] {
			case 1:
				s.discard()
				t.Cover("interrupt:discard")
			case 2:
				if err := s.finalize(); err != nil {
					if !finRefused {
						t.ViolateD(key("finalize-before-reopen/error"), map[string]any{"plan": str}, "Finalize before reopen failed: %v", err)
						return false
					}
					s.discard() // refused like the uninterrupted session's: the file stays as it is
				} else if finRefused {
					t.ViolateD(key("without-index/finalize-succeeds-only-when-interrupting"), map[string]any{"plan": str}, "Finalize is refused at the end of the uninterrupted session and accepted as an interruption")
					return false
				}
				t.Cover("interrupt:finalize")
			default:
				return true
			}
			if err := s.open(roots, cfg); err != nil {
				t.ViolateD(key("reopen/same-roots-and-options/rejected"), map[string]any{"plan": str, "gap": g, "cfg": cfg.String()},
					"reopening with the same roots and options after %s at gap %d failed: %v", []string{"", "Discard", "Finalize"}[str[g]], g, err)
				return false
			}
			return true
		}
		if !interrupt(0) {
			continue
		}
		for i, b := range blks {
			if err := s.put(b); err != nil {
				t.ViolateD(key("put-after-reopen/error"), map[string]any{"plan": str}, "put #%d failed: %v", i, err)
				ok = false
				break
			}
			if !interrupt(i + 1) {
				ok = false
				break
			}
		}
		if !ok {
			continue
		}
		if err := s.finalize(); err != nil {
			if !finRefused {
				t.ViolateD(key("final-finalize/error"), map[string]any{"plan": str}, "final Finalize failed: %v", err)
				continue
			}
			s.discard()
		} else if finRefused {
			t.ViolateD(key("without-index/final-finalize-succeeds-only-after-an-interruption"), map[string]any{"plan": str}, "the final Finalize is refused in the uninterrupted session and accepted in an interrupted one")
			continue
		}
		got := s.bytes()
		t.Events(1)
		if !bytes.Equal(got, want) {
			t.ViolateD(key("interrupted-session/bytes-differ"), map[string]any{"plan": str, "cfg": cfg.String(), "n": d.N},
				"interruption string %v: final file differs from the uninterrupted session's at byte %d (%d vs %d bytes)", str, lab.FirstDiff(got, want), len(got), len(want))
		}
	}
	t.CoverN("interruption-strings", len(plans))
	t.Sample(map[string]any{"api": d.API, "cfg": cfg.String(), "n": d.N, "strings": len(plans), "final_bytes": len(want)})
}

// c12Mismatch: every single-field mismatch on reopen must be rejected and leave the file untouched.
func c12Mismatch(t *mon.T, d c12Desc, s *c12Session, r *gen.RandT, roots []cid.Cid, content gen.Content, cfg lab.Cfg, blks []refcar.Block, finalized []byte) {
	key := func(k string) string { return d.API + "/" + k }
	other := lab.ToCid(refcar.MakeCidV1(0x55, 0x12, gen.Bytes(r, 32)))
	type mm struct {
		label string
		roots []cid.Cid
		cfg   lab.Cfg
	}
	var ms []mm
	if len(roots) > 0 {
		rep := append([]cid.Cid{}, roots...)
		rep[r.Intn(len(rep))] = other
		ms = append(ms, mm{"root-replaced", rep, cfg})
		ms = append(ms, mm{"root-removed", append([]cid.Cid{}, roots[:len(roots)-1]...), cfg})
	}
	ms = append(ms, mm{"root-added", append(append([]cid.Cid{}, roots...), other), cfg})
	if !cfg.V1 {
		c2 := cfg
		c2.DataPad = cfg.DataPad + 1 + uint64(r.Intn(9))
		ms = append(ms, mm{"data-padding-larger", roots, c2})
		c5 := cfg
		c5.DataPad = cfg.DataPad + uint64(len(finalized)) + 4096 // the requested data offset lies beyond the end of the file
		ms = append(ms, mm{"data-padding-beyond-the-file", roots, c5})
		if cfg.DataPad > 0 {
			c3 := cfg
			c3.DataPad = cfg.DataPad - 1
			ms = append(ms, mm{"data-padding-smaller", roots, c3})
		}
	}
	c4 := cfg
	c4.V1 = !cfg.V1
	c4.DataPad, c4.IndexPad = 0, 0
	ms = append(ms, mm{"wrong-version", roots, c4})

	// two file states: finalized, and unfinalized (discarded after the puts)
	states := map[string][]byte{"finalized": finalized}
	s.reset()
	if err := s.open(roots, cfg); err == nil {
		for _, b := range blks {
			_ = s.put(b)
		}
		s.discard()
		states["unfinalized"] = s.bytes()
	}
	for sn, before := range states {
		for _, m := range ms {
			// install the file state
			if s.api == "blockstore" {
				mustWrite(s.path, before)
			} else {
				s.mf = iofault.New(before)
				s.mf.NoLog = true
				s.fresh = false
			}
			err := s.open(m.roots, m.cfg)
			t.Events(1)
			t.Cover("mismatch:" + m.label)
			if err == nil {
				s.discard()
				// an unfinalized CARv2 carries no padding information in its (zeroed) header: a different
				// padding can only be detected if the payload header does not parse at the other offset.
				t.ViolateD(key("reopen/"+m.label+"/"+sn+"/accepted"), map[string]any{"cfg": cfg.String(), "other_cfg": m.cfg.String()}, "reopening a %s file with %s was accepted", sn, m.label)
				continue
			}
			after := s.bytes()
			if !bytes.Equal(after, before) {
				t.ViolateD(key("reopen/"+m.label+"/"+sn+"/file-modified"), map[string]any{"cfg": cfg.String()}, "rejected reopen (%s, %s file) changed the file at byte %d (error was: %v)", m.label, sn, lab.FirstDiff(after, before), err)
			}
		}
	}
	t.Sample(map[string]any{"kind": "mismatch", "api": d.API, "cfg": cfg.String(), "mismatches": len(ms)})
}

func genC12(g *mon.G) {
	r := gen.Rand(g.Seed)
	cfgs := []lab.Cfg{{}, {DataPad: 9, IndexPad: 3}, {V1: true}, {StoreID: true, Sorted: true}, {WholeCID: true, AllowDup: true}, {DataPad: 1413, StoreID: true, WholeCID: true}, {V1: true, DataPad: 300}, {MaxSec: 64}, {MaxCid: 1}, {NoIdx: true}}
	if g.Thorough() {
		cfgs = append(cfgs, lab.Cfg{V1: true, StoreID: true}, lab.Cfg{IndexPad: 1024, Sorted: true}, lab.Cfg{V1: true, AllowDup: true, WholeCID: true}, lab.Cfg{DataPad: 1, ZeroEOF: true})
	}
	maxN := g.Pick(3, 5)
	for _, api := range []string{"blockstore", "storage"} {
		for _, cfg := range cfgs {
			for n := 0; n <= maxN; n++ {
				for rep := 0; rep < g.Pick(1, 3); rep++ {
					g.Emit(c12Desc{Seed: r.Int63(), API: api, Cfg: cfg, N: n, Kind: "interrupt"})
				}
			}
			if !cfg.AllowDup && !cfg.WholeCID && cfg.DataPad <= 9 && !cfg.StoreID {
				for _, big := range []int{8<<20 - 36, 8<<20 + 1} { // a section of exactly / just over the default section limit of the readers
					g.Emit(c12Desc{Seed: r.Int63(), API: api, Cfg: cfg, N: 2, Kind: "interrupt", Big: big})
				}
			}
			if cfg.WholeCID || (cfg.DataPad == 0 && !cfg.V1 && cfg.MaxSec == 0 && cfg.MaxCid == 0) {
				for _, n := range []int{3, 4} {
					for rep := 0; rep < g.Pick(1, 3); rep++ {
						g.Emit(c12Desc{Seed: r.Int63(), API: api, Cfg: cfg, N: n, Kind: "interrupt", V0Twin: true})
					}
				}
			}
			if cfg.DataPad <= 9 && !cfg.AllowDup {
				for _, nr := range []int{1, 23, 24, 25} {
					g.Emit(c12Desc{Seed: r.Int63(), API: api, Cfg: cfg, N: 2, Kind: "interrupt", Roots: nr})
				}
			}
			for rep := 0; rep < g.Pick(4, 40); rep++ {
				g.Emit(c12Desc{Seed: r.Int63(), API: api, Cfg: cfg, N: 1 + r.Intn(4), Kind: "mismatch"})
			}
			for rep := 0; rep < g.Pick(2, 40); rep++ {
				g.Emit(c12Desc{Seed: r.Int63(), API: api, Cfg: cfg, N: 6 + r.Intn(10), Random: g.Pick(20, 100), Kind: "interrupt"})
			}
		}
	}
	_ = fmt.Sprint
}

func init() {
	Register(&mon.Check{
		ID:          "C12",
		Level:       "exploration",
		Rule:        "interrupt cases: for a put list of n blocks (n ≤ 3 quick / ≤ 5 thorough) ALL 3^(n+1) strings over {continue, Discard+reopen, Finalize+reopen} at the n+1 operation boundaries (random strings for n = 6..15), x 6 (quick) / 10 (thorough) option configurations x {blockstore.OpenReadWrite on a file, storage.OpenReadableWritable on a memfile}; final bytes must equal the uninterrupted session's; directed sessions put a CIDv0 block, its dag-pb CIDv1 twin and the first of them again (all 3^(n+1) strings, whole-CID and multihash keyed configurations); some sessions hold one section of exactly / just over 8 MiB (the readers' default section limit, which does not bind writers). mismatch cases: every single-field mismatch (root replaced/removed/added, data padding larger/smaller/larger than the whole file, wrong version) on a finalized and on an unfinalized file must be rejected with the file byte-identical afterwards",
		Assumptions: []string{"byte equality only; permuted roots are not a mismatch (documented)", "a storage CAR has no Discard: dropping the object models it"},
		Gen:         genC12,
		Run:         runC12,
		MinCover:    map[string]int{"interruption-strings": 1000, "interrupt:discard": 500, "interrupt:finalize": 500, "mismatch:root-replaced": 10, "mismatch:root-added": 10, "mismatch:data-padding-larger": 10, "mismatch:data-padding-beyond-the-file": 10, "mismatch:wrong-version": 10, "api:blockstore": 10, "api:storage": 10, "big-section": 4, "header-shape:many-roots": 8, "storage-backend-with-eager-eof": 10, "storage-v1-on-a-backend-without-truncate": 3},
	})
}
