package checks

import (
	"bufio"
	"bytes"
	"encoding/json"
	"errors"
	"fmt"
	"io"
	"os"
	"path/filepath"
	"testing/iotest"

	blocks "github.com/ipfs/go-block-format"
	carv2 "github.com/ipld/go-car/v2"
	"github.com/ipld/go-car/v2/blockstore"
	"github.com/ipld/go-car/v2/index"
	"github.com/multiformats/go-multicodec"
	"github.com/multiformats/go-multihash"

	"carlab/internal/gen"
	"carlab/internal/lab"
	"carlab/internal/mon"
	"carlab/internal/refcar"
)

type c11Desc struct {
	Seed  int64  `json:"seed"`
	Kind  string `json:"kind"` // records | session
	Perms int    `json:"perms,omitempty"`
	Bulk  int    `json:"bulk,omitempty"` // records: this many further sha2-256 records (one bucket of more than 1 MiB)
	Big   int    `json:"big,omitempty"`  // session: number of tiny distinct blocks (large in-memory index at Finalize)
}

type c11Rec struct {
	cid []byte
	off uint64
}

func codecOf(sorted bool) (multicodec.Code, uint64) {
	if sorted {
		return multicodec.CarIndexSorted, refcar.CodecIndexSorted
	}
	return multicodec.CarMultihashIndexSorted, refcar.CodecMhIndexSorted
}

// refRecords converts to reference records for the codec (code dropped for the digest-only codec).
func refRecords(recs []c11Rec, refCodec uint64) []refcar.IndexRecord {
	var out []refcar.IndexRecord
	for _, rc := range recs {
		c, _, _ := refcar.SplitCid(rc.cid)
		ir := refcar.IndexRecord{Digest: c.Digest, Offset: rc.off}
		if refCodec == refcar.CodecMhIndexSorted {
			ir.Code = c.MhCode
		}
		out = append(out, ir)
	}
	return out
}

func hasDupDigestInBucket(recs []refcar.IndexRecord) bool {
	seen := map[string]bool{}
	for _, r := range recs {
		k := fmt.Sprintf("%d/%x", r.Code, r.Digest)
		if seen[k] {
			return true
		}
		seen[k] = true
	}
	return false
}

func getAll(idx index.Index, raw []byte) ([]uint64, error) {
	var got []uint64
	err := idx.GetAll(lab.ToCid(raw), func(o uint64) bool { got = append(got, o); return true })
	return sortedU64(got), err
}

func forEachRecs(idx index.Index) ([]refcar.IndexRecord, bool, error) {
	it, ok := idx.(index.IterableIndex)
	if !ok {
		return nil, false, nil
	}
	var got []refcar.IndexRecord
	err := it.ForEach(func(mh multihash.Multihash, off uint64) error {
		code, n, err := refcar.Uvarint(mh)
		if err != nil {
			return err
		}
		l, n2, err := refcar.Uvarint(mh[n:])
		if err != nil {
			return err
		}
		if l != uint64(len(mh)-n-n2) {
			return fmt.Errorf("ForEach yields a malformed multihash %x: declared digest length %d, %d bytes follow", []byte(mh), l, len(mh)-n-n2)
		}
		got = append(got, refcar.IndexRecord{Code: code, Digest: append([]byte{}, mh[n+n2:]...), Offset: off})
		return nil
	})
	return got, true, err
}

func runC11(t *mon.T, raw json.RawMessage) {
	var d c11Desc
	if err := json.Unmarshal(raw, &d); err != nil {
		panic(err)
	}
	if d.Kind == "session" {
		c11Session(t, d)
		return
	}
	r := gen.Rand(d.Seed)
	// record multiset
	n := 1 + r.Intn(14)
	var recs []c11Rec
	for i := 0; i < n; i++ {
		c := gen.SyntheticCid(r)
		off := uint64(r.Int63())
		switch r.Intn(5) {
		case 0:
			off = uint64(r.Intn(1000))
		case 1:
			off = 1<<63 - 1 - uint64(r.Intn(3))
		}
		recs = append(recs, c11Rec{c, off})
		if r.Intn(4) == 0 { // same digest, other offset (duplicate block)
			recs = append(recs, c11Rec{c, uint64(r.Int63())})
		}
		if sc, _, _ := refcar.SplitCid(c); len(sc.Digest) > 0 && r.Intn(3) == 0 {
			// near-collisions in the same bucket: same code and width, digest differing in ONE byte at a
			// seeded position (often late), so that entries share long prefixes — ordering and binary
			// search must still be exact (identity CIDs and non-cryptographic hashes look like this)
			for k := 0; k < 1+r.Intn(3); k++ {
				nd := append([]byte{}, sc.Digest...)
				nd[r.Intn(len(nd))] ^= byte(1 + r.Intn(255))
				recs = append(recs, c11Rec{refcar.MakeCidV1(sc.Codec, sc.MhCode, nd), uint64(r.Int63())})
			}
			t.Cover("multisets-with-shared-digest-prefixes")
		}
		if i == 0 && r.Intn(8) == 0 {
			// more than 64 distinct digest widths in one table (identity digests can have any length;
			// the digest-only codec pools the widths of all hash codes)
			w0 := r.Intn(20)
			for w := w0; w < w0+66+r.Intn(30); w++ {
				recs = append(recs, c11Rec{refcar.MakeCidV1(0x55, 0x00, gen.Bytes(r, w)), uint64(r.Int63())})
			}
			t.Cover("multisets-with-more-than-64-widths")
		}
		if r.Intn(5) == 0 { // same digest under another hash code
			sc, _, _ := refcar.SplitCid(c)
			recs = append(recs, c11Rec{refcar.MakeCidV1(0x55, sc.MhCode^0x1, sc.Digest), uint64(r.Int63())})
		}
	}
	if r.Intn(6) == 0 {
		// a digest longer than the DEFAULT MaxIndexCidSize (a user option; identity digests have any length)
		w := []int{2040, 2041, 2048, 2049, 3000, 5000}[r.Intn(6)]
		recs = append(recs, c11Rec{refcar.MakeCidV1(0x55, 0x00, gen.Bytes(r, w)), uint64(r.Int63())})
		t.Cover("multisets-with-a-digest-over-2KiB")
	}
	if d.Bulk > 0 {
		// one bucket far larger than any read buffer, with other buckets and hash codes before and after it
		for i := 0; i < d.Bulk; i++ {
			recs = append(recs, c11Rec{refcar.MakeCidV1(0x55, 0x12, gen.Bytes(r, 32)), uint64(r.Int63())})
		}
		recs = append(recs, c11Rec{refcar.MakeCidV1(0x55, 0x13, gen.Bytes(r, 64)), 7}, c11Rec{refcar.MakeCidV1(0x55, 0x11, gen.Bytes(r, 20)), 9},
			c11Rec{refcar.MakeCidV1(0x55, 0xb220, gen.Bytes(r, 32)), 11}, c11Rec{refcar.MakeCidV1(0x55, 0x00, gen.Bytes(r, 70)), 13})
		t.Cover("multisets-with-a-bucket-over-1MiB")
	}
	t.Nontrivial()
	var probes [][]byte
	probeRecs := recs
	if len(probeRecs) > 120 {
		probeRecs = append(append([]c11Rec{}, recs[:60]...), recs[len(recs)-60:]...)
	}
	for _, rc := range probeRecs {
		probes = append(probes, rc.cid)
		sc, _, _ := refcar.SplitCid(rc.cid)
		probes = append(probes, refcar.MakeCidV1(0x71, sc.MhCode+0x100, sc.Digest))
		if len(sc.Digest) > 0 {
			nd := append([]byte{}, sc.Digest...)
			nd[0] ^= 0x80
			probes = append(probes, refcar.MakeCidV1(0x55, sc.MhCode, nd))
		}
	}

	for _, sorted := range []bool{true, false} {
		codec, refCodec := codecOf(sorted)
		name := "car-multihash-index-sorted"
		if sorted {
			name = "car-index-sorted"
		}
		want := refRecords(recs, refCodec)
		canonical := refcar.BuildIndex(refCodec, want)
		dup := hasDupDigestInBucket(want)
		if dup {
			t.Cover("multisets-with-repeated-digest")
		}
		var firstBytes []byte
		for p := 0; p < d.Perms; p++ {
			perm := append([]c11Rec{}, recs...)
			if p > 0 {
				r.Shuffle(len(perm), func(i, j int) { perm[i], perm[j] = perm[j], perm[i] })
			}
			idx, err := index.New(codec)
			if err != nil {
				panic(err)
			}
			var load []index.Record
			for _, rc := range perm {
				load = append(load, index.Record{Cid: lab.ToCid(rc.cid), Offset: rc.off})
			}
			if err := idx.Load(load); err != nil {
				t.Violatef(name+"/Load/error", "Load failed on valid records: %v", err)
				continue
			}
			var buf bytes.Buffer
			nrep, err := index.WriteTo(idx, &buf)
			t.Events(1)
			if err != nil {
				t.Violatef(name+"/WriteTo/error", "WriteTo failed: %v", err)
				continue
			}
			if nrep != uint64(buf.Len()) {
				t.Violatef(name+"/WriteTo/reported-count", "WriteTo reported %d bytes but wrote %d", nrep, buf.Len())
			}
			pi, err := refcar.ParseIndex(buf.Bytes())
			if err != nil || pi.Size != buf.Len() {
				t.Violatef(name+"/WriteTo/unparseable", "serialized index does not parse strictly: %v (consumed %d of %d)", err, pi.Size, buf.Len())
				continue
			}
			if err := pi.CheckCanonical(); err != nil {
				t.Violatef(name+"/WriteTo/order", "serialized index is not in canonical order: %v", err)
			}
			if !refcar.RecordsEqual(pi.Records(), want) {
				t.Violatef(name+"/WriteTo/records-differ", "serialized index holds a different record multiset than was loaded (%d vs %d records)", len(pi.Records()), len(want))
				continue
			}
			// canonicalised form must not depend on the load order; raw bytes neither when no digest repeats
			if cb := refcar.BuildIndex(refCodec, pi.Records()); !bytes.Equal(cb, canonical) {
				t.Violatef(name+"/WriteTo/permutation-dependence", "canonicalised serialization depends on the load order")
			}
			if !dup && !bytes.Equal(buf.Bytes(), canonical) {
				t.Violatef(name+"/WriteTo/not-canonical", "serialization differs from the canonical reference rendering at byte %d although no digest repeats", lab.FirstDiff(buf.Bytes(), canonical))
			}
			if firstBytes == nil {
				firstBytes = buf.Bytes()
			} else if !dup && !bytes.Equal(firstBytes, buf.Bytes()) {
				t.Violatef(name+"/WriteTo/permutation-dependence", "serialized bytes depend on the load order although no digest repeats")
			}
			// round trip
			back, err := index.ReadFrom(bytes.NewReader(buf.Bytes()))
			if err != nil {
				t.Violatef(name+"/ReadFrom/error", "ReadFrom of the library's own serialization failed: %v", err)
				continue
			}
			if p%2 == 1 { // also through readers that deliver the bytes in other ways
				kinds := []struct {
					name string
					r    io.Reader
				}{
					{"plain", lab.PlainReader{R: bytes.NewReader(buf.Bytes())}},
					{"1-byte reads", lab.OneByteReader{R: bytes.NewReader(buf.Bytes())}},
					{"stutter", &lab.StutterReader{B: buf.Bytes()}},
					{"bufio(16)", bufio.NewReaderSize(lab.OneByteReader{R: bytes.NewReader(buf.Bytes())}, 16)},
					{"data+EOF", iotest.DataErrReader(bytes.NewReader(buf.Bytes()))},
				}
				var scratch *bytes.Buffer
				kinds = append(kinds, struct {
					name string
					r    io.Reader
				}{"bytes.Buffer that is reused afterwards", nil})
				k := kinds[(p/2+int(d.Seed&7))%len(kinds)]
				var backing []byte
				if k.r == nil {
					backing = append([]byte{}, buf.Bytes()...)
					scratch = bytes.NewBuffer(backing)
					k.r = scratch
				}
				back, err = index.ReadFrom(k.r)
				if scratch != nil {
					// the caller reuses its buffer (Reset + other content): the index read from it must own its memory
					scratch.Reset()
					for i := range backing {
						backing[i] = 0xA5
					}
				}
				t.Cover("readfrom-source:" + k.name)
				if err != nil {
					t.Violatef(name+"/ReadFrom("+k.name+")/error", "ReadFrom(%s reader) of the library's own serialization failed: %v", k.name, err)
					continue
				}
			}
			if back.Codec() != codec {
				t.Violatef(name+"/ReadFrom/codec", "round trip changed the codec")
			}
			for _, pr := range probes {
				a, ea := getAll(idx, pr)
				b, eb := getAll(back, pr)
				t.Events(1)
				if !u64Equal(a, b) || (ea == nil) != (eb == nil) {
					t.Violatef(name+"/round-trip/GetAll-differs", "GetAll answers differ after WriteTo→ReadFrom: %v/%v vs %v/%v", a, ea, b, eb)
					break
				}
				// and agree with the loaded multiset
				sc, _, _ := refcar.SplitCid(pr)
				var wantOffs []uint64
				for _, w := range want {
					if bytes.Equal(w.Digest, sc.Digest) && (refCodec == refcar.CodecIndexSorted || w.Code == sc.MhCode) {
						wantOffs = append(wantOffs, w.Offset)
					}
				}
				if !u64Equal(a, wantOffs) {
					t.Violatef(name+"/GetAll/offset-set-differs", "GetAll = %v, loaded records say %v", a, sortedU64(wantOffs))
					break
				}
			}
			fa, ok, ea := forEachRecs(idx)
			fb, _, eb := forEachRecs(back)
			if ok {
				if ea != nil || eb != nil || !refcar.RecordsEqual(fa, fb) {
					t.Violatef(name+"/round-trip/ForEach-differs", "ForEach differs after the round trip (%v, %v)", ea, eb)
				}
				if !refcar.RecordsEqual(fa, refRecords(recs, refcar.CodecMhIndexSorted)) {
					t.Violatef(name+"/ForEach/records-differ", "ForEach does not yield the loaded records")
				}
			}
			var again bytes.Buffer
			if _, err := index.WriteTo(back, &again); err != nil || !bytes.Equal(again.Bytes(), buf.Bytes()) {
				t.Violatef(name+"/round-trip/remarshal-differs", "re-serializing the read index is not byte-identical (%v)", err)
			}
		}
	}
	t.Sample(map[string]any{"records": len(recs), "permutations": d.Perms, "first": fmt.Sprintf("%x@%d", recs[0].cid, recs[0].off)})
}

// c11Session: flattened index of a writing session vs regenerated index of the finished payload.
func c11Session(t *mon.T, d c11Desc) {
	r := gen.Rand(d.Seed)
	content := gen.MakeContent(r, gen.ContentOpts{MinBlocks: 1, MaxBlocks: 12, MaxRoots: 2, Dups: true, Synthetic: true, Block: gen.BlockOpts{MaxSize: 120}})
	if d.Big > 0 {
		// many tiny blocks with synthetic, pairwise distinct digests of three widths and two hash codes
		content.Blocks = content.Blocks[:0]
		for i := 0; i < d.Big; i++ {
			dg := gen.Bytes(r, []int{32, 32, 20, 64}[i%4])
			content.Blocks = append(content.Blocks, refcar.Block{Cid: refcar.MakeCidV1(0x55, []uint64{0x12, 0x13}[i%2], dg), Data: []byte{byte(i), byte(i >> 8)}})
		}
		t.Cover("big-sessions")
	}
	cfg := lab.Cfg{Sorted: r.Intn(2) == 0, StoreID: r.Intn(2) == 0, AllowDup: r.Intn(3) == 0, WholeCID: r.Intn(3) == 0, DataPad: uint64(r.Intn(3) * 17)}
	if d.Big == 0 && len(content.Blocks) >= 2 && r.Intn(3) == 0 {
		// one block whose CID is over a small MaxIndexCidSize sits in the middle of the put sequence
		cfg.MaxCid = 48
		i := 1 + r.Intn(len(content.Blocks)-1)
		long := refcar.Block{Cid: refcar.MakeCidV1(0x55, 0x13, gen.Bytes(r, 64)), Data: []byte("refused")}
		var kept []refcar.Block
		for _, b := range content.Blocks {
			if len(b.Cid) <= 48 {
				kept = append(kept, b)
			}
		}
		if i > len(kept) {
			i = len(kept)
		}
		if d.Seed&1 == 0 {
			// the limit exactly at the longest CID the session does store
			var longest uint64
			for _, b := range kept {
				if sc, _, _ := refcar.SplitCid(b.Cid); (!sc.IsIdentity() || cfg.StoreID) && uint64(len(b.Cid)) > longest {
					longest = uint64(len(b.Cid))
				}
			}
			if longest > 0 {
				cfg.MaxCid = longest
				t.Cover("sessions-with-the-cid-limit-at-the-longest-stored-cid")
			}
		}
		content.Blocks = append(append(append([]refcar.Block{}, kept[:i]...), long), kept[i:]...)
	}
	dir := lab.TempDir("c11")
	defer os.RemoveAll(dir)
	p := filepath.Join(dir, "s.car")
	bs, err := blockstore.OpenReadWrite(p, lab.ToCids(content.Roots, content.NilRoots), cfg.Opts()...)
	if err != nil {
		t.Violatef("session/open/error", "OpenReadWrite: %v", err)
		return
	}
	// the session may be interrupted (Discard or Finalize, then reopened with the same roots and
	// options) up to two times: the index flattened at the end is then partly rebuilt from the file
	cuts := map[int]string{}
	if d.Big == 0 && len(content.Blocks) >= 2 {
		for k := r.Intn(3); k > 0; k-- {
			cuts[1+r.Intn(len(content.Blocks)-1)] = []string{"discard", "finalize"}[r.Intn(2)]
		}
	}
	var batch []blocks.Block
	flush := func() bool {
		for len(batch) > 0 {
			err := bs.PutMany(bg, batch)
			if err == nil {
				break
			}
			// a block of the batch is refused (its CID is over MaxIndexCidSize): the blocks before it are
			// stored, the caller carries on with the ones after it
			var tl *carv2.ErrCidTooLarge
			bad := -1
			for i, b := range batch {
				if uint64(len(b.Cid().Bytes())) > cfg.EffMaxCid() {
					bad = i
					break
				}
			}
			if !errors.As(err, &tl) || bad < 0 {
				t.Violatef("session/put/error", "PutMany: %v", err)
				return false
			}
			t.Cover("sessions-with-a-batch-refused-midway")
			batch = batch[bad+1:]
		}
		batch = nil
		return true
	}
	for i, b := range content.Blocks {
		if how, ok := cuts[i]; ok {
			if !flush() {
				return
			}
			if how == "discard" {
				bs.Discard()
			} else if err := bs.Finalize(); err != nil {
				t.Violatef("session/finalize/error", "Finalize (interruption): %v", err)
				return
			}
			if bs, err = blockstore.OpenReadWrite(p, lab.ToCids(content.Roots, content.NilRoots), cfg.Opts()...); err != nil {
				t.Violatef("session/reopen/error", "OpenReadWrite on the session's own file after %s: %v", how, err)
				return
			}
			t.Cover("sessions-resumed-after-" + how)
		}
		batch = append(batch, lab.ToBlock(b))
	}
	if !flush() {
		return
	}
	if ii, ok := bs.Index().(*index.InsertionIndex); ok && r.Intn(2) == 0 {
		// the caller flattens the session's index itself, in the OTHER codec, before finalizing: each
		// Flatten answers for the codec it was asked for
		other := multicodec.CarIndexSorted
		if cfg.Sorted {
			other = multicodec.CarMultihashIndexSorted
		}
		if fl, err := ii.Flatten(other); err != nil {
			t.Violatef("session/Flatten(other codec)/error", "%v", err)
		} else if fl.Codec() != other {
			t.Violatef("session/Flatten(other codec)/wrong-codec", "Flatten(%v) returned an index of codec %v", other, fl.Codec())
		}
		t.Cover("sessions-flattened-in-the-other-codec-first")
	}
	if err := bs.Finalize(); err != nil {
		t.Violatef("session/finalize/error", "Finalize: %v", err)
		return
	}
	file := mustRead(p)
	a, err := refcar.Decode(file, false)
	if err != nil || a.IndexBytes == nil {
		t.Violatef("session/finalize/undecodable", "finalized file does not decode: %v", err)
		return
	}
	t.Nontrivial()
	t.Cover("sessions")
	codec, refCodec := codecOf(cfg.Sorted)
	// regeneration runs under the session's own options (a CID limit the session accepted must not refuse its file)
	genOpts := []carv2.Option{carv2.UseIndexCodec(codec), carv2.StoreIdentityCIDs(cfg.StoreID)}
	if cfg.MaxCid > 0 {
		genOpts = append(genOpts, carv2.MaxIndexCidSize(cfg.MaxCid))
	}
	regen, err := carv2.GenerateIndex(bytes.NewReader(file[a.PayloadOff:a.PayloadOff+a.PayloadLen]), genOpts...)
	if err != nil {
		t.Violatef("session/GenerateIndex/error", "GenerateIndex over the finished payload: %v", err)
		return
	}
	// the same index must come out when the WHOLE container is given instead of its payload
	if whole, err := carv2.GenerateIndex(bytes.NewReader(file), genOpts...); err != nil {
		t.Violatef("session/GenerateIndex(whole file)/error", "GenerateIndex over the finished file: %v", err)
	} else {
		var wb, pb bytes.Buffer
		_, _ = index.WriteTo(whole, &wb)
		_, _ = index.WriteTo(regen, &pb)
		if !bytes.Equal(wb.Bytes(), pb.Bytes()) {
			t.Violatef("session/regenerate/whole-file-vs-payload-differ", "the index regenerated from the whole CARv2 differs from the one regenerated from its payload at byte %d", lab.FirstDiff(wb.Bytes(), pb.Bytes()))
		}
	}
	var rb bytes.Buffer
	if _, err := index.WriteTo(regen, &rb); err != nil {
		t.Violatef("session/WriteTo/error", "%v", err)
		return
	}
	// regeneration must not depend on how the payload is delivered: sources that can hand out single
	// bytes but cannot seek (bufio.Reader, bytes.Buffer), and a plain reader
	pl := file[a.PayloadOff : a.PayloadOff+a.PayloadLen]
	for k, src := range []io.Reader{bufio.NewReaderSize(bytes.NewReader(pl), 16+int(d.Seed&63)), bytes.NewBuffer(append([]byte{}, pl...)), lab.PlainReader{R: bytes.NewReader(pl)}} {
		nm := []string{"bufio.Reader", "bytes.Buffer", "plain io.Reader"}[k]
		other, oerr := carv2.GenerateIndex(src, genOpts...)
		if oerr != nil {
			t.Violatef("session/GenerateIndex("+nm+")/error", "GenerateIndex over the finished payload from a %s: %v", nm, oerr)
			continue
		}
		var ob bytes.Buffer
		_, _ = index.WriteTo(other, &ob)
		if !bytes.Equal(ob.Bytes(), rb.Bytes()) {
			t.Violatef("session/regenerate/source-dependence", "the index regenerated from a %s differs from the one regenerated from a bytes.Reader at byte %d", nm, lab.FirstDiff(ob.Bytes(), rb.Bytes()))
		}
		t.Cover("regenerated-from:" + nm)
	}
	flat, err := index.ReadFrom(bytes.NewReader(a.IndexBytes))
	if err != nil {
		t.Violatef("session/ReadFrom/error", "embedded (flattened) index unreadable: %v", err)
		return
	}
	if flat.Codec() != codec {
		t.Violatef("session/finalize/index-codec", "the finalized file carries an index of codec %v, the session was opened for %v", flat.Codec(), codec)
		return
	}
	for _, s := range a.Payload.Sections {
		x, ex := getAll(flat, s.Cid.Raw)
		y, ey := getAll(regen, s.Cid.Raw)
		t.Events(1)
		if !u64Equal(x, y) || (ex == nil) != (ey == nil) {
			t.Violatef("session/flatten-vs-regenerate/GetAll-differs", "flattened session index and regenerated index answer differently for %x: %v vs %v", s.Cid.Raw, x, y)
			return
		}
	}
	want := refcar.ExpectedIndexRecords(a.Payload, refCodec, cfg.StoreID)
	if !hasDupDigestInBucket(want) {
		t.Cover("sessions-without-repeated-digest")
		if !bytes.Equal(a.IndexBytes, rb.Bytes()) {
			t.Violatef("session/flatten-vs-regenerate/bytes-differ", "no two sections share a digest, yet flattened and regenerated index differ at byte %d", lab.FirstDiff(a.IndexBytes, rb.Bytes()))
		}
	} else {
		t.Cover("sessions-with-repeated-digest")
	}
	t.Sample(map[string]any{"kind": "session", "cfg": cfg.String(), "sections": len(a.Payload.Sections)})
}

func genC11(g *mon.G) {
	r := gen.Rand(g.Seed)
	for i := 0; i < g.Pick(800, 12000); i++ {
		g.Emit(c11Desc{Seed: r.Int63(), Kind: "records", Perms: g.Pick(8, 24)})
	}
	for i := 0; i < g.Pick(2, 10); i++ {
		g.Emit(c11Desc{Seed: r.Int63(), Kind: "records", Perms: 2, Bulk: []int{27000, 53000, 30000}[i%3] + r.Intn(3000)})
	}
	for i := 0; i < g.Pick(400, 8000); i++ {
		g.Emit(c11Desc{Seed: r.Int63(), Kind: "session"})
	}
	// sessions whose in-memory index is large when it is flattened (tens of thousands of records)
	for i := 0; i < g.Pick(3, 24); i++ {
		g.Emit(c11Desc{Seed: r.Int63(), Kind: "session", Big: []int{17000, 40000, 70000}[i%3] + r.Intn(5000)})
	}
}

func init() {
	Register(&mon.Check{
		ID:          "C11",
		Level:       "exploration",
		Rule:        "cases = (a) seeded record multisets (8 hash codes, digest widths 0..80, a few with more than 64 distinct widths in one table, repeated digests with distinct offsets and under other hash codes, digests differing in a single late byte (shared prefixes), offsets up to 2^63-1) loaded in 8 (quick) / 24 (thorough) permutations into both on-disk codecs: reported byte count, strict reference parse, bucket/entry order, multiset equality, permutation invariance, ReadFrom round trip (seekable, plain, 1-byte, stutter, small bufio and data+EOF readers) with identical GetAll/ForEach and byte-identical re-marshal; (b) writing sessions (1-12 blocks, interrupted by Discard/Finalize and resumed up to twice, plus a few with 17k-75k tiny blocks so that the in-memory index is large when flattened) whose embedded (flattened) index is compared with GenerateIndex over the finished payload",
		Assumptions: []string{"reference index parser/builder (refcar)", "order among entries sharing one digest is left open by the format and is canonicalised before comparison"},
		Gen:         genC11,
		Run:         runC11,
		MinCover:    map[string]int{"multisets-with-repeated-digest": 20, "multisets-with-shared-digest-prefixes": 50, "sessions": 50, "sessions-without-repeated-digest": 10, "sessions-with-repeated-digest": 5, "big-sessions": 3, "multisets-with-a-digest-over-2KiB": 20, "sessions-with-the-cid-limit-at-the-longest-stored-cid": 5, "multisets-with-a-bucket-over-1MiB": 2, "multisets-with-more-than-64-widths": 20, "sessions-with-a-batch-refused-midway": 20, "sessions-resumed-after-discard": 20, "sessions-resumed-after-finalize": 20},
	})
}
