package checks

// C17 — Extraction never writes outside the chosen output directory.
//
// Every case builds a hostile UnixFS DAG (hand-assembled dag-pb, so that shapes no
// honest builder emits are possible), writes it as a CAR with the reference
// encoder, and runs the real `car extract` binary inside a sandbox:
//
//	T/                      scratch root (snapshot root)
//	T/p0/p1/S/              sandbox parent; two padding levels so that even a purely
//	                        lexical ../../.. escape still lands inside T
//	T/p0/p1/S/out/          the output directory given to the tool (empty or pre-populated)
//	T/p0/p1/S/outlink       -> out (used by the "output directory named through a symlink" mode)
//	T/p0/p1/S/victim.txt    sentinel file
//	T/p0/p1/S/victimdir/file sentinel file in a sentinel directory
//	T/p0/p1/S/work/         cwd of the tool
//	T/p0/p1/S/in.car        the archive
//
// Oracle: the recursive snapshot of T *excluding S/out* (names, types, sizes,
// sha256, link targets, permission bits) is identical before and after.
// Absolute link targets and absolute entry names only ever point inside T.

import (
	"bytes"
	"encoding/json"
	"fmt"
	"io"
	"math/rand"
	"os"
	"path"
	"path/filepath"
	"sort"
	"strings"
	"time"

	"github.com/ipfs/go-unixfsnode/data/builder"
	dagpb "github.com/ipld/go-codec-dagpb"

	"carlab/internal/gen"
	"carlab/internal/lab"
	"carlab/internal/mon"
	"carlab/internal/refcar"
)

type c17Desc struct {
	Seed  int64  `json:"seed"`
	Shape string `json:"shape"`
	Dir   string `json:"dir"` // empty | populated
}

// ---------------------------------------------------------------- DAG model

type hNode struct {
	Kind    string // raw | file | chunked | dir | hamt | builthamt | symlink | nodata | badtype | metadata | garbage
	Content []byte
	Target  string
	Entries []hEntry
	Missing bool // the block is referenced but absent from the archive
}

type hEntry struct {
	Name   string
	NoName bool
	Node   *hNode
}

type hCase struct {
	Label string // hostile feature class (first part of every finding key of the case)
	Roots []*hNode
	Paths []string // candidate -p arguments
	Note  string
}

type hEnv struct {
	r *rand.Rand
	T string // scratch root
	S string // sandbox parent
	n int    // unique-name counter
}

func (e *hEnv) uniq(prefix string) string {
	e.n++
	return fmt.Sprintf("%s%d", prefix, e.n)
}

func (e *hEnv) content(tag string) []byte {
	e.n++
	return []byte(fmt.Sprintf("%s-%d-%x\n", tag, e.n, e.r.Int63()))
}

// file draws one of the three on-disk representations of a regular file.
func (e *hEnv) file(tag string) *hNode {
	c := e.content(tag)
	switch e.r.Intn(4) {
	case 3:
		// the link is an identity CID: the file's bytes travel inside the link, no block is stored
		if len(c) > 60 {
			c = c[:60]
		}
		return &hNode{Kind: "idraw", Content: c}
	case 0:
		return &hNode{Kind: "raw", Content: c}
	case 1:
		return &hNode{Kind: "file", Content: c}
	}
	return &hNode{Kind: "chunked", Content: append(c, gen.Bytes(e.r, 40+e.r.Intn(200))...)}
}

func hSym(target string) *hNode         { return &hNode{Kind: "symlink", Target: target} }
func hDir(ents ...hEntry) *hNode        { return &hNode{Kind: "dir", Entries: ents} }
func hEnt(name string, n *hNode) hEntry { return hEntry{Name: name, Node: n} }

// benign returns well-formed filler entries with names no hostile generator uses.
func (e *hEnv) benign() []hEntry {
	var out []hEntry
	for i := 0; i < 1+e.r.Intn(2); i++ {
		out = append(out, hEnt(e.uniq("keep")+".txt", e.file("keep")))
	}
	if e.r.Intn(2) == 0 {
		out = append(out, hEnt(e.uniq("sub"), hDir(hEnt("inner.txt", e.file("inner")))))
	}
	return out
}

// up returns "../" repeated so that, from an entry depth levels below out/, the
// result names S itself.
func up(depth int) string { return strings.Repeat("../", depth+1) }

// encode stores the node's blocks and returns its CID.
func (n *hNode) encode(b *dagB) []byte {
	var c []byte
	switch n.Kind {
	case "idraw":
		c = refcar.MakeCidV1(0x55, 0x00, n.Content)
	case "raw":
		c = b.putRaw(n.Content)
	case "file":
		c = b.putPB(encodePBNode(nil, ufsDataMsg{Type: ufsFile, Data: n.Content, HasData: true, FileSize: uint64(len(n.Content)), HasSize: true, Mtime: 978307200, HasMtime: len(n.Content)%2 == 0}.encode()))
	case "chunked":
		var links []pbLinkSpec
		var sizes []uint64
		step := len(n.Content)/3 + 1
		for off := 0; off < len(n.Content); off += step {
			end := off + step
			if end > len(n.Content) {
				end = len(n.Content)
			}
			var leaf []byte
			if len(n.Entries) > 0 && off == step { // one chunk replaced by a (possibly missing) child
				leaf = n.Entries[0].Node.encode(b)
			} else {
				leaf = b.putRaw(n.Content[off:end])
			}
			links = append(links, pbLinkSpec{Hash: leaf, Name: "", Tsize: uint64(end - off)})
			sizes = append(sizes, uint64(end-off))
		}
		c = b.putPB(encodePBNode(links, ufsDataMsg{Type: ufsFile, FileSize: uint64(len(n.Content)), HasSize: true, BlockSizes: sizes}.encode()))
	case "dir", "nodata":
		var links []pbLinkSpec
		for _, e := range n.Entries {
			links = append(links, pbLinkSpec{Hash: e.Node.encode(b), Name: e.Name, NoName: e.NoName, Tsize: 1})
		}
		if n.Kind == "nodata" {
			c = b.putPB(encodePBNode(links, nil))
		} else {
			c = b.putPB(encodePBNode(links, ufsDataMsg{Type: ufsDirectory}.encode()))
		}
	case "hamt":
		// hand-assembled single shard: iteration only looks at the name length (2 hex
		// digits + name = value, exactly 2 = child shard), so any prefix will do.
		var links []pbLinkSpec
		for i, e := range n.Entries {
			name := fmt.Sprintf("%02X", i%256) + e.Name
			if e.Node.Kind == "hamt" && e.Name == "" {
				name = fmt.Sprintf("%02X", i%256)
			}
			links = append(links, pbLinkSpec{Hash: e.Node.encode(b), Name: name, Tsize: 1})
		}
		bf := make([]byte, 32)
		for i := range bf {
			bf[i] = 0xff
		}
		c = b.putPB(encodePBNode(links, ufsDataMsg{Type: ufsHAMTShard, Data: bf, HasData: true, HashType: 0x22, Fanout: 256, HasHamt: true}.encode()))
	case "builthamt":
		ents := make([]dagpb.PBLink, 0, len(n.Entries))
		for _, e := range n.Entries {
			l, err := builderEntry(e.Name, e.Node.encode(b))
			if err != nil {
				panic(err)
			}
			ents = append(ents, l)
		}
		l, _, err := builder.BuildUnixFSShardedDirectory(256, 0x22, ents, b.linkSystem())
		if err != nil {
			panic(fmt.Sprintf("c17: builder refuses the sharded directory: %v", err))
		}
		c = []byte(l.Binary())
	case "symlink":
		// with UnixFS 1.5 metadata (mode, mtime): an extractor that restores it must not follow the link
		c = b.putPB(encodePBNode(nil, ufsDataMsg{Type: ufsSymlink, Data: []byte(n.Target), HasData: true, Mtime: 978307200, HasMtime: len(n.Target)%2 == 0}.encode()))
	case "badtype":
		c = b.putPB(encodePBNode(nil, ufsDataMsg{Type: 9, Data: n.Content, HasData: true}.encode()))
	case "metadata":
		c = b.putPB(encodePBNode(nil, ufsDataMsg{Type: ufsMetadata, Data: n.Content, HasData: true}.encode()))
	case "garbage":
		c = b.putPB(append([]byte{0xff, 0xff, 0xff}, n.Content...))
	default:
		panic("c17: unknown node kind " + n.Kind)
	}
	if n.Missing {
		b.drop(c)
	}
	return c
}

// describe renders the DAG shape with the sandbox path abstracted.
func (n *hNode) describe(env *hEnv, name string, indent int, out *[]string) {
	if len(*out) > 60 {
		return
	}
	abs := func(s string) string {
		s = strings.ReplaceAll(s, env.S, "$S")
		s = strings.ReplaceAll(s, env.T, "$T")
		if len(s) > 70 {
			s = fmt.Sprintf("%s…(%d bytes)", s[:50], len(s))
		}
		return s
	}
	line := strings.Repeat("  ", indent) + fmt.Sprintf("%q: %s", abs(name), n.Kind)
	if n.Kind == "symlink" {
		line += fmt.Sprintf(" -> %q", abs(n.Target))
	}
	if n.Missing {
		line += " [block missing]"
	}
	*out = append(*out, line)
	for _, e := range n.Entries {
		nm := e.Name
		if e.NoName {
			nm = "<no Name field>"
		}
		e.Node.describe(env, nm, indent+1, out)
	}
}

// ---------------------------------------------------------------- shapes

// A shape yields the hostile entries of one directory that sits depth levels
// below out/ plus -p candidates (relative to that directory).
type c17Shape struct {
	label string
	// wrote: this class is expected to get past parsing and write under out/ at least
	// once per run (MinCover "wrote:<label>").
	wrote bool
	dir   func(e *hEnv, depth int) (ents []hEntry, paths []string)
	// whole builds the complete case instead (several roots, special roots).
	whole func(e *hEnv) hCase
}

// kinds of object a hostile name can be attached to
func (e *hEnv) anyObject(depth int) *hNode {
	switch e.r.Intn(4) {
	case 0:
		return hDir(hEnt("file", e.file("indir")), hEnt("victim.txt", e.file("indir")))
	case 1:
		return hSym(e.escTarget(depth))
	}
	return e.file("hostile")
}

// escTarget draws a symlink target that leaves out/ (but never T) or stays inside.
func (e *hEnv) escTarget(depth int) string {
	ts := []string{
		filepath.Join(e.S, "victim.txt"),
		up(depth) + "victim.txt",
		filepath.Join(e.S, "victimdir"),
		up(depth) + "victimdir",
		filepath.Join(e.S, "created-by-escape"),
		filepath.Join(e.S, "victimdir", "newsub"),
		"..",
		up(depth),
		e.S,
		e.T,
		"sub1", "keep1.txt", ".",
		filepath.Join(e.S, "out"),
		filepath.Join(e.S, "out.old"),
		up(depth) + "out.old",
		filepath.Join(e.S, "out.old", "victim.txt"),
	}
	return ts[e.r.Intn(len(ts))]
}

// fileTarget draws a target through which a later write would create or modify a
// file outside out/.
func (e *hEnv) fileTarget(depth int) string {
	ts := []string{
		filepath.Join(e.S, "victim.txt"),
		up(depth) + "victim.txt",
		filepath.Join(e.S, "victimdir", "file"),
		up(depth) + "victimdir/file",
		filepath.Join(e.S, "created-by-escape"),
		up(depth) + "created-by-escape",
		filepath.Join(e.S, "victimdir", "created-by-escape"),
		filepath.Join(e.S, "in.car"),
		filepath.Join(e.S, "out.old", "victim.txt"),
		up(depth) + "out.old/created-by-escape",
	}
	return ts[e.r.Intn(len(ts))]
}

func (e *hEnv) dirTarget(depth int) string {
	ts := []string{
		filepath.Join(e.S, "victimdir"),
		up(depth) + "victimdir",
		"..",
		up(depth),
		e.S,
		filepath.Join(e.S, "victimdir", "newsub"),
		filepath.Join(e.S, "newdir-by-escape"),
		filepath.Join(e.S, "work"),
		filepath.Join(e.S, "out.old"),
		up(depth) + "out.old",
		filepath.Join(e.S, "out.old"),
		up(depth) + "out.old/sub",
		filepath.Join(e.S, "sealed"),
		up(depth) + "sealed",
		filepath.Join(e.S, "victimdir", "etc"),
	}
	return ts[e.r.Intn(len(ts))]
}

// respell returns another spelling that path.Join cleans to the same entry.
func (e *hEnv) respell(name string) string {
	switch e.r.Intn(8) {
	case 0:
		return "./" + name
	case 1:
		return name + "/"
	case 2:
		return name + "/."
	case 3:
		return "q/../" + name
	case 4:
		return "//" + name
	}
	return name
}

func namedShape(label string, wrote bool, names func(e *hEnv, depth int) []string) c17Shape {
	return c17Shape{label: label, wrote: wrote, dir: func(e *hEnv, depth int) ([]hEntry, []string) {
		ns := names(e, depth)
		k := 1 + e.r.Intn(2)
		var ents []hEntry
		var paths []string
		for i := 0; i < k; i++ {
			nm := ns[e.r.Intn(len(ns))]
			ents = append(ents, hEnt(nm, e.anyObject(depth)))
			paths = append(paths, nm)
		}
		return ents, paths
	}}
}

var c17Pool = []string{"x", "d", "a", "unknown", "nest"}

func c17Shapes() []c17Shape {
	long := func(n int) string { return strings.Repeat("L", n) }
	return []c17Shape{
		namedShape("dot-dot name", true, func(e *hEnv, d int) []string { return []string{".."} }),
		namedShape("dot name", true, func(e *hEnv, d int) []string { return []string{"."} }),
		namedShape("name with dot-dot segments", true, func(e *hEnv, d int) []string {
			return []string{"../x", "../victim.txt", up(d) + "victim.txt", up(d) + "victimdir/file", "../../x", "../../../x", "a/../../victim.txt",
				"../out/../victim.txt", "x/../../victim.txt", "..//victim.txt", "./../victim.txt", up(d) + "created-by-name", "../victimdir"}
		}),
		namedShape("absolute name", true, func(e *hEnv, d int) []string {
			return []string{filepath.Join(e.S, "victim.txt"), filepath.Join(e.S, "victimdir", "file"), filepath.Join(e.T, "abs-created"),
				"/" + filepath.Join(e.S, "victim.txt"), filepath.Join(e.S, "victimdir"), filepath.Join(e.S, "abs-created")}
		}),
		{label: "empty name", wrote: true, dir: func(e *hEnv, d int) ([]hEntry, []string) {
			ent := hEnt("", e.anyObject(d))
			ent.NoName = e.r.Intn(2) == 0
			return []hEntry{ent}, nil
		}},
		namedShape("very long name", true, func(e *hEnv, d int) []string {
			return []string{long(255), long(256), long(5000), strings.Repeat("l/", 300) + "x", strings.Repeat("../", 3) + long(300), long(255) + "/" + long(255)}
		}),
		namedShape("unicode or control bytes in name", true, func(e *hEnv, d int) []string {
			return []string{"ünï-ço∂é", "日本語", "é", "‮gnp.exe", "nul\x00byte", "new\nline", "..\\victim.txt", "\xff\xfe", "tab\tname", " ", "..\x00", "x\x00/../../victim.txt", "‥", "．．"}
		}),
		// separators: with and without an earlier real directory of that name
		{label: "name with separator", wrote: true, dir: func(e *hEnv, d int) ([]hEntry, []string) {
			switch e.r.Intn(4) {
			case 0:
				return []hEntry{hEnt("a", hDir(hEnt("f.txt", e.file("a")))), hEnt("a/b", e.anyObject(d+1)), hEnt("a/b/c", e.file("abc"))}, []string{"a/b", "a"}
			case 1:
				return []hEntry{hEnt("a/b", e.anyObject(d+1))}, []string{"a/b"}
			case 2:
				return []hEntry{hEnt("a", hDir()), hEnt("a/../../victim.txt", e.file("sep")), hEnt("a/", e.file("sep"))}, []string{"a"}
			}
			return []hEntry{hEnt("a", e.file("a-file")), hEnt("a/b", e.file("under-file"))}, []string{"a/b"}
		}},
		{label: "symlink entry created through an earlier symlink", wrote: true, dir: func(e *hEnv, d int) ([]hEntry, []string) {
			// l -> a directory outside; then an entry l/<name> that is itself a SYMLINK (creating a link
			// follows the links in the path leading to it), and one in a sub-directory naming ../<name>
			l := e.uniq("l")
			ents := []hEntry{hEnt(l, hSym(e.dirTarget(d))), hEnt(l+"/planted", hSym(e.escTarget(d))), hEnt(l+"/planted2", hSym("anything"))}
			if e.r.Intn(2) == 0 {
				ents = append(ents, hEnt("sub", hDir(hEnt("../"+l+"/planted3", hSym("x")))))
			}
			return ents, []string{l, l + "/planted"}
		}},
		{label: "name with separator through symlink", wrote: true, dir: func(e *hEnv, d int) ([]hEntry, []string) {
			t := e.dirTarget(d)
			ents := []hEntry{hEnt("d", hSym(t))}
			for _, nm := range []string{"d/file", "d/victim.txt", "d/created-by-escape", "d/victimdir/file", "d/newsub/x", "d/etc/cron.d/job", "d/etc/passwd", "d/etc/newdir/inner.txt", "d/cron.d/job", "d/victimdir/etc/passwd"} {
				if e.r.Intn(2) == 0 {
					ents = append(ents, hEnt(nm, e.anyObject(d+1)))
				}
			}
			if len(ents) == 1 {
				ents = append(ents, hEnt("d/file", e.file("through")))
			}
			return ents, []string{"d/file", "d"}
		}},
		{label: "name with several separators through symlink into an existing tree", wrote: true, dir: func(e *hEnv, d int) ([]hEntry, []string) {
			// every intermediate component of the later names exists below the link's target
			t := []string{filepath.Join(e.S, "victimdir"), up(d) + "victimdir"}[e.r.Intn(2)]
			// the tool stops at the first entry it refuses: which hostile name comes first is drawn
			hostile := []hEntry{hEnt("d/etc/cron.d/job", e.file("job")), hEnt("d/etc/passwd", e.file("passwd")), hEnt("d/planted-by-escape/x.txt", e.file("x"))}
			e.r.Shuffle(len(hostile), func(i, j int) { hostile[i], hostile[j] = hostile[j], hostile[i] })
			ents := append([]hEntry{hEnt("d", hSym(t))}, hostile...)
			if e.r.Intn(2) == 0 {
				ents = append(ents, hEnt("d/etc/newdir", hDir(hEnt("inner.txt", e.file("inner")))))
			}
			return ents, []string{"d"}
		}},
		{label: "symlinks named like the temporary sibling of a later file", wrote: true, dir: func(e *hEnv, d int) ([]hEntry, []string) {
			// an extractor that writes "<name><suffix>" first and renames it must vet that name too
			nm := e.uniq("doc")
			var ents []hEntry
			for _, suf := range []string{".partial", ".tmp", ".part", "~", ".new", ".download", ".swp", ".bak", ".temp", ".0"} {
				ents = append(ents, hEnt(nm+suf, hSym(e.fileTarget(d))))
			}
			ents = append(ents, hEnt(nm, e.file("over")), hEnt("zz-"+nm, e.file("pad")))
			return ents, []string{nm}
		}},
		{label: "name unknown", wrote: true, dir: func(e *hEnv, d int) ([]hEntry, []string) {
			return []hEntry{hEnt("unknown", e.anyObject(d))}, []string{"unknown"}
		}},
		{label: "escaping symlink, unique name", wrote: true, dir: func(e *hEnv, d int) ([]hEntry, []string) {
			var ents []hEntry
			var paths []string
			for i := 0; i < 1+e.r.Intn(4); i++ {
				nm := e.uniq("lnk")
				t := e.escTarget(d)
				switch e.r.Intn(8) {
				case 0:
					t = "/" // only ever under a name nothing else refers to
					nm = e.uniq("rootlink")
				case 1:
					t = strings.Repeat("t", 5000)
				case 2:
					t = ""
				}
				ents = append(ents, hEnt(nm, hSym(t)))
				paths = append(paths, nm)
			}
			return ents, paths
		}},
		{label: "same-name symlink-then-file", wrote: true, dir: func(e *hEnv, d int) ([]hEntry, []string) {
			nm := c17Pool[e.r.Intn(3)]
			if e.r.Intn(4) == 0 { // through a chain of two links
				return []hEntry{hEnt("y", hSym(e.fileTarget(d))), hEnt(nm, hSym("y")), hEnt(e.respell(nm), e.file("over"))}, []string{nm}
			}
			// either entry may be spelled otherwise (./f, q/../f, f/.): the same place all the same
			return []hEntry{hEnt(e.respell(nm), hSym(e.fileTarget(d))), hEnt(e.respell(nm), e.file("over"))}, []string{nm}
		}},
		{label: "same-name symlink-then-file, target looks local but runs through another symlink", wrote: true, dir: func(e *hEnv, d int) ([]hEntry, []string) {
			// hop 1: a link to a directory above out/; hop 2: a link whose target has neither a leading
			// separator nor a dot-dot segment but starts with hop 1; then a file under hop 2's name
			nm := c17Pool[e.r.Intn(3)]
			hop := e.uniq("hop")
			via := strings.TrimSuffix(up(d), "/")
			if e.r.Intn(3) == 0 {
				via = e.S
			}
			rest := []string{"victim.txt", "created-by-escape", "victimdir/file", "victimdir/created-by-escape", "out.old/victim.txt"}[e.r.Intn(5)]
			ents := []hEntry{hEnt(hop, hSym(via)), hEnt(nm, hSym(hop+"/"+rest)), hEnt(e.respell(nm), e.file("over"))}
			if e.r.Intn(3) == 0 { // three hops
				hop2 := e.uniq("hop")
				ents = []hEntry{hEnt(hop, hSym(via)), hEnt(hop2, hSym(hop)), hEnt(nm, hSym("./"+hop2+"/"+rest)), hEnt(e.respell(nm), e.file("over"))}
			}
			return ents, []string{nm}
		}},
		{label: "same-name symlink-then-directory", wrote: true, dir: func(e *hEnv, d int) ([]hEntry, []string) {
			nm := c17Pool[e.r.Intn(3)]
			inner := hDir(hEnt("file", e.file("indir")), hEnt("victim.txt", e.file("indir")), hEnt("newsub", hDir(hEnt("deep.txt", e.file("deep")))))
			tgt := e.dirTarget(d)
			if e.r.Intn(4) == 0 {
				tgt = up(d) + "OUT/" + nm // the same path as the entry's own, up to letter case
			}
			return []hEntry{hEnt(nm, hSym(tgt)), hEnt(e.respell(nm), inner)}, []string{nm, nm + "/file"}
		}},
		{label: "same-name symlink-then-symlink", wrote: true, dir: func(e *hEnv, d int) ([]hEntry, []string) {
			nm := c17Pool[e.r.Intn(3)]
			return []hEntry{hEnt(nm, hSym(e.dirTarget(d))), hEnt(e.respell(nm), hSym(e.fileTarget(d)))}, []string{nm}
		}},
		{label: "same-name, symlink last", wrote: true, dir: func(e *hEnv, d int) ([]hEntry, []string) {
			nm := c17Pool[e.r.Intn(3)]
			var first *hNode
			if e.r.Intn(2) == 0 {
				first = e.file("first")
			} else {
				first = hDir(hEnt("file", e.file("indir")))
			}
			return []hEntry{hEnt(nm, first), hEnt(e.respell(nm), hSym(e.escTarget(d))), hEnt(nm+"/file", e.file("after"))}, []string{nm}
		}},
		{label: "same-name files and directories", wrote: true, dir: func(e *hEnv, d int) ([]hEntry, []string) {
			nm := c17Pool[e.r.Intn(3)]
			obj := func() *hNode {
				if e.r.Intn(2) == 0 {
					return e.file("dup")
				}
				return hDir(hEnt("file", e.file("indir")))
			}
			return []hEntry{hEnt(nm, obj()), hEnt(e.respell(nm), obj()), hEnt(nm, obj())}, []string{nm}
		}},
		{label: "missing blocks", wrote: true, dir: func(e *hEnv, d int) ([]hEntry, []string) {
			mf := e.file("missing")
			mf.Missing = true
			md := hDir(hEnt("file", e.file("indir")))
			md.Missing = true
			leaf := &hNode{Kind: "raw", Content: e.content("missing-chunk"), Missing: true}
			ch := &hNode{Kind: "chunked", Content: gen.Bytes(e.r, 300), Entries: []hEntry{{Node: leaf}}}
			ms := hSym(e.fileTarget(d))
			ms.Missing = true
			ents := []hEntry{hEnt("gone.txt", mf), hEnt("gonedir", md), hEnt("x", ms), hEnt("x", e.file("after-missing-link")), hEnt("../victim.txt", mf)}
			if e.r.Intn(2) == 0 {
				ents = append(ents, hEnt("holes.bin", ch))
			}
			e.r.Shuffle(len(ents), func(i, j int) { ents[i], ents[j] = ents[j], ents[i] })
			return ents, []string{"gone.txt", "x"}
		}},
		{label: "non-UnixFS and malformed nodes", wrote: true, dir: func(e *hEnv, d int) ([]hEntry, []string) {
			all := []hEntry{
				hEnt("nodata", &hNode{Kind: "nodata", Entries: []hEntry{hEnt("../victim.txt", e.file("nd"))}}),
				hEnt("badtype", &hNode{Kind: "badtype", Content: []byte("x")}),
				hEnt("meta", &hNode{Kind: "metadata", Content: []byte("x")}),
				hEnt("garbage", &hNode{Kind: "garbage", Content: []byte("zz")}),
			}
			return []hEntry{all[e.r.Intn(len(all))]}, []string{"nodata"}
		}},
		{label: "sharded directory, hostile names", wrote: true, whole: func(e *hEnv) hCase {
			// honest HAMT from go-unixfsnode's builder: unique hostile names, lookups by -p work
			names := []string{"..", ".", "../victim.txt", "a/b", filepath.Join(e.S, "victim.txt"), "../../x", "unknown", "ünï", strings.Repeat("L", 300), "a", "../victimdir/file", "x/", "./y"}
			e.r.Shuffle(len(names), func(i, j int) { names[i], names[j] = names[j], names[i] })
			names = names[:3+e.r.Intn(5)]
			sh := &hNode{Kind: "builthamt"}
			for i := 0; i < 3; i++ {
				sh.Entries = append(sh.Entries, hEnt(e.uniq("keep")+".txt", e.file("keep")))
			}
			for _, nm := range names {
				sh.Entries = append(sh.Entries, hEnt(nm, e.anyObject(0)))
			}
			if e.r.Intn(2) == 0 {
				return hCase{Roots: []*hNode{sh}, Paths: names}
			}
			sh2 := *sh
			sh2.Entries = nil
			for _, en := range sh.Entries { // one level down: targets computed for depth 0 still stay inside S
				sh2.Entries = append(sh2.Entries, en)
			}
			return hCase{Roots: []*hNode{hDir(append(e.benign(), hEnt("shard", &sh2))...)}, Paths: []string{"shard", "shard/" + names[0]}}
		}},
		{label: "sharded directory, same-name symlink-then-file", wrote: true, whole: func(e *hEnv) hCase {
			// hand-assembled shard: repeated names, a nested child shard
			nm := c17Pool[e.r.Intn(3)]
			child := &hNode{Kind: "hamt", Entries: []hEntry{hEnt(e.uniq("keep")+".txt", e.file("keep")), hEnt(nm, e.file("over"))}}
			var ents []hEntry
			ents = append(ents, hEnt(e.uniq("keep")+".txt", e.file("keep")), hEnt(nm, hSym(e.fileTarget(0))))
			if e.r.Intn(2) == 0 {
				ents = append(ents, hEnt(e.respell(nm), e.file("over")))
			} else {
				ents = append(ents, hEntry{Name: "", Node: child})
			}
			return hCase{Roots: []*hNode{{Kind: "hamt", Entries: ents}}, Paths: []string{nm}}
		}},
		{label: "sharded directory, missing shard", wrote: true, whole: func(e *hEnv) hCase {
			child := &hNode{Kind: "hamt", Entries: []hEntry{hEnt("../victim.txt", e.file("over"))}, Missing: true}
			ents := []hEntry{hEnt(e.uniq("keep")+".txt", e.file("keep")), {Name: "", Node: child}, hEnt("..", e.file("dd")), hEnt(e.uniq("keep")+".txt", e.file("keep"))}
			return hCase{Roots: []*hNode{{Kind: "hamt", Entries: ents}}}
		}},
		{label: "same-name symlink-then-file across roots", wrote: true, whole: func(e *hEnv) hCase {
			nm := c17Pool[e.r.Intn(3)]
			depth := e.r.Intn(2)
			r1 := []hEntry{hEnt(nm, hSym(e.fileTarget(depth)))}
			r2 := []hEntry{hEnt(e.respell(nm), e.file("over"))}
			if depth == 1 {
				r1 = []hEntry{hEnt("nest", hDir(r1...))}
				r2 = []hEntry{hEnt("nest", hDir(r2...))}
				nm = "nest/" + nm
			}
			roots := []*hNode{hDir(append(e.benign(), r1...)...), hDir(append(r2, e.benign()...)...)}
			if e.r.Intn(3) == 0 {
				roots = append(roots[:1], append([]*hNode{hDir(e.benign()...)}, roots[1:]...)...)
			}
			return hCase{Roots: roots, Paths: []string{nm}}
		}},
		{label: "temporary-sibling symlinks in one root, the file in a later root", wrote: true, whole: func(e *hEnv) hCase {
			nm := e.uniq("doc")
			var r1 []hEntry
			for _, suf := range []string{".partial", ".tmp", ".part", "~", ".new", ".download", ".swp", ".bak", ".temp", ".0"} {
				r1 = append(r1, hEnt(nm+suf, hSym(e.fileTarget(0))))
			}
			return hCase{Roots: []*hNode{hDir(append(e.benign(), r1...)...), hDir(append([]hEntry{hEnt(nm, e.file("over"))}, e.benign()...)...)}, Paths: []string{nm}}
		}},
		{label: "same-name symlink-then-directory across roots", wrote: true, whole: func(e *hEnv) hCase {
			nm := c17Pool[e.r.Intn(3)]
			inner := hDir(hEnt("file", e.file("indir")), hEnt("victim.txt", e.file("indir")), hEnt("newsub", hDir(hEnt("deep.txt", e.file("deep")))))
			return hCase{Roots: []*hNode{hDir(append(e.benign(), hEnt(nm, hSym(e.dirTarget(0))))...), hDir(hEnt(nm, inner))}, Paths: []string{nm, nm + "/file"}}
		}},
		{label: "symlink named unknown then file root", wrote: true, whole: func(e *hEnv) hCase {
			f := e.file("root-file")
			if f.Kind == "raw" {
				f.Kind = "file" // a raw root is skipped by the tool
			}
			return hCase{Roots: []*hNode{hDir(append(e.benign(), hEnt("unknown", hSym(e.fileTarget(0))))...), f}, Paths: []string{"unknown"}}
		}},
		{label: "several roots", wrote: true, whole: func(e *hEnv) hCase {
			var roots []*hNode
			mk := []func() *hNode{
				func() *hNode { return hDir(e.benign()...) },
				func() *hNode { return &hNode{Kind: "raw", Content: e.content("raw-root")} },
				func() *hNode { return &hNode{Kind: "file", Content: e.content("file-root")} },
				func() *hNode { return &hNode{Kind: "chunked", Content: gen.Bytes(e.r, 400)} },
				func() *hNode { return hSym(e.escTarget(0)) },
				func() *hNode { return hDir(hEnt("..", e.file("dd")), hEnt("unknown", hDir(hEnt("f", e.file("f"))))) },
				func() *hNode { n := hDir(e.benign()...); n.Missing = true; return n },
				func() *hNode { return hDir(hEnt("unknown", hSym(e.escTarget(0))), hEnt("../victim.txt", e.file("v"))) },
				func() *hNode {
					return &hNode{Kind: "nodata", Entries: []hEntry{hEnt("../victim.txt", e.file("nd")), hEnt("x", e.file("nd"))}}
				},
			}
			roots = append(roots, mk[0]())
			for i := 0; i < 2+e.r.Intn(4); i++ {
				roots = append(roots, mk[e.r.Intn(len(mk))]())
			}
			if e.r.Intn(3) == 0 {
				roots = append(roots, roots[0]) // the same root twice
			}
			return hCase{Roots: roots, Paths: []string{"unknown", "x"}}
		}},
		{label: "symlink entry named like the output root, then further roots", wrote: false, whole: func(e *hEnv) hCase {
			// a symlink entry named "..", "." or "x/.." resolves to the output directory itself; what is
			// extracted by the later roots must still land inside it
			nm := []string{"..", ".", "x/..", "./", "a/../.."}[e.r.Intn(5)]
			first := hDir(hEnt(nm, hSym(e.dirTarget(0))))
			if e.r.Intn(3) == 0 {
				first.Entries = append(first.Entries, e.benign()...)
			}
			second := hDir(hEnt("victim.txt", e.file("after-root-swap")), hEnt("file", e.file("after-root-swap")), hEnt("created-by-escape", e.file("after-root-swap")),
				hEnt("sub", hDir(hEnt("planted.txt", e.file("after-root-swap")))))
			roots := []*hNode{first, second}
			if e.r.Intn(3) == 0 {
				roots = append(roots, &hNode{Kind: "file", Content: e.content("file-root-after-swap")})
			}
			return hCase{Roots: roots, Paths: []string{"victim.txt", "sub"}}
		}},
		{label: "raw, file or symlink root", wrote: true, whole: func(e *hEnv) hCase {
			switch e.r.Intn(5) {
			case 0:
				return hCase{Roots: []*hNode{{Kind: "raw", Content: e.content("raw-root")}}, Note: "raw root"}
			case 1:
				return hCase{Roots: []*hNode{hSym(e.fileTarget(0))}, Note: "symlink root"}
			case 2:
				return hCase{Roots: []*hNode{{Kind: "chunked", Content: gen.Bytes(e.r, 500)}}, Paths: []string{"../victim.txt"}, Note: "chunked file root"}
			case 3:
				return hCase{Roots: []*hNode{{Kind: "nodata", Entries: []hEntry{hEnt("../victim.txt", e.file("nd")), hEnt("ok.txt", e.file("nd"))}}}, Note: "dag-pb root without Data"}
			}
			return hCase{Roots: []*hNode{{Kind: "file", Content: e.content("file-root")}}, Paths: []string{"x"}, Note: "file root"}
		}},
		// two or three name-level features in one tree (no deliberate re-use of a symlink's name:
		// those have their own classes, so a finding stays attributable)
		{label: "combined hostile names", wrote: true, whole: func(e *hEnv) hCase {
			names := []string{"..", ".", "../victim.txt", "a/b", filepath.Join(e.S, "victim.txt"), "", "unknown", "ünï", strings.Repeat("L", 300), "../../x", "a", "d", "x/../../victim.txt", "nul\x00"}
			var build func(depth int) *hNode
			used := map[string]bool{}
			build = func(depth int) *hNode {
				n := hDir(e.benign()...)
				for i := 0; i < 2+e.r.Intn(4); i++ {
					nm := names[e.r.Intn(len(names))]
					var obj *hNode
					switch {
					case depth < 2 && e.r.Intn(3) == 0:
						obj = build(depth + 1)
					case e.r.Intn(3) == 0 && !used[fmt.Sprint(depth, nm)]:
						nm = e.uniq("lnk")
						obj = hSym(e.escTarget(depth))
					default:
						obj = e.file("combo")
					}
					used[fmt.Sprint(depth, nm)] = true
					n.Entries = append(n.Entries, hEnt(nm, obj))
				}
				return n
			}
			return hCase{Roots: []*hNode{build(0)}, Paths: []string{"a", "d", "unknown"}}
		}},
	}
}

// build materialises a shape for one sandbox.
func (s c17Shape) build(e *hEnv) hCase {
	if s.whole != nil {
		c := s.whole(e)
		c.Label = s.label
		return c
	}
	depth := e.r.Intn(3)
	if depth > 1 {
		depth = 0
	}
	hostile, paths := s.dir(e, depth)
	before, after := e.benign(), []hEntry(nil)
	if e.r.Intn(2) == 0 {
		after = e.benign()
	}
	var root *hNode
	if depth == 0 {
		root = hDir(append(append(before, hostile...), after...)...)
	} else {
		root = hDir(append(append(before, hEnt("nest", hDir(append(e.benign(), hostile...)...))), after...)...)
		for i := range paths {
			paths[i] = "nest/" + paths[i]
		}
		paths = append(paths, "nest")
	}
	return hCase{Label: s.label, Roots: []*hNode{root}, Paths: paths}
}

// c17Collision replays, on the DAG model only, the order in which the tool visits
// entries, and reports whether a symbolic link is followed by a regular file whose
// name cleans to the same path (the one way a later write can pass through an earlier
// link). Shapes that plant this on purpose carry their own label; any other shape in
// which it arises by chance is relabelled with the planted class, so that a finding
// key always names the feature that is actually present in the failing DAG.
func c17Collision(hc hCase) string {
	links := map[string]int{} // cleaned path -> index of the root that created the link
	found := ""
	note := func(kind string) {
		if found == "" {
			found = kind
		}
	}
	var walk func(n *hNode, at string, root int)
	walk = func(n *hNode, at string, root int) {
		if n.Missing {
			return
		}
		switch n.Kind {
		case "dir", "hamt", "builthamt", "nodata":
			if n.Kind == "builthamt" { // iteration order is the hash order: take both orders
				for _, e := range n.Entries {
					if e.Node.Kind == "symlink" && !e.Node.Missing && path.Join(at, e.Name) != "/" {
						links[path.Join(at, e.Name)] = root
					}
				}
			}
			for _, e := range n.Entries {
				p := path.Join(at, e.Name)
				if e.Node.Kind == "hamt" && e.Name == "" && n.Kind == "hamt" {
					p = at // child shard
				}
				switch e.Node.Kind {
				case "symlink":
					// a name that cleans to the output directory itself can never become a link
					if _, ok := links[p]; !ok && !e.Node.Missing && p != "/" {
						links[p] = root
					}
				case "raw", "file", "chunked":
					if r0, ok := links[p]; ok {
						if r0 != root {
							note("same-name symlink-then-file across roots")
						} else {
							note("same-name symlink-then-file")
						}
					}
				default:
					if n.Kind != "nodata" || at == "/" {
						walk(e.Node, p, root)
					}
				}
			}
		}
	}
	for i, r := range hc.Roots {
		switch r.Kind {
		case "file", "chunked":
			if _, ok := links["/unknown"]; ok && !r.Missing {
				note("symlink named unknown then file root")
			}
		default:
			walk(r, "/", i)
		}
	}
	return found
}

var c17Planted = map[string]bool{
	"same-name symlink-then-file": true, "same-name symlink-then-file across roots": true,
	"symlink named unknown then file root": true, "sharded directory, same-name symlink-then-file": true,
}

// ---------------------------------------------------------------- sandbox

type c17Box struct {
	T, S, Out string
}

func c17MakeBox(r *rand.Rand, state string) c17Box {
	T := lab.TempDir("c17")
	S := filepath.Join(T, "p0", "p1", "S")
	b := c17Box{T: T, S: S, Out: filepath.Join(S, "out")}
	must := func(err error) {
		if err != nil {
			panic(err)
		}
	}
	must(os.MkdirAll(b.Out, 0o755))
	must(os.MkdirAll(filepath.Join(S, "work"), 0o755))
	must(os.MkdirAll(filepath.Join(T, "p0", "tmp"), 0o755)) // TMPDIR of the tool: watched like everything else outside out/
	must(os.MkdirAll(filepath.Join(S, "victimdir"), 0o755))
	for _, nm := range c17Pool { // S/OUT/<name>: equal to out/<name> up to letter case, and outside
		must(os.MkdirAll(filepath.Join(S, "OUT", nm), 0o755))
	}
	must(os.WriteFile(filepath.Join(S, "victim.txt"), []byte("sentinel: must never change\n"), 0o644))
	must(os.WriteFile(filepath.Join(S, "victimdir", "file"), []byte("sentinel in a directory\n"), 0o600))
	// a deeper sentinel tree (entry names with several separators find every intermediate component there)
	must(os.MkdirAll(filepath.Join(S, "victimdir", "etc", "cron.d"), 0o755))
	must(os.WriteFile(filepath.Join(S, "victimdir", "etc", "passwd"), []byte("sentinel below two directories\n"), 0o644))
	// a sentinel directory that lacks an owner permission bit (a read-only tree someone left behind)
	must(os.MkdirAll(filepath.Join(S, "sealed"), 0o755))
	must(os.WriteFile(filepath.Join(S, "sealed", "file"), []byte("sentinel in a sealed directory\n"), 0o400))
	must(os.Chmod(filepath.Join(S, "sealed"), 0o500))
	must(os.Symlink("out", filepath.Join(S, "outlink")))
	// a sibling whose path has the output directory's path as a *string* prefix (out vs out.old)
	must(os.MkdirAll(filepath.Join(S, "out.old", "sub"), 0o755))
	must(os.WriteFile(filepath.Join(S, "out.old", "victim.txt"), []byte("sentinel in out.old\n"), 0o644))
	must(os.WriteFile(filepath.Join(S, "out.old", "file"), []byte("sentinel in out.old\n"), 0o644))
	must(os.WriteFile(filepath.Join(T, "p0", "outer.txt"), []byte("outer sentinel\n"), 0o644))
	if state == "populated" {
		must(os.WriteFile(filepath.Join(b.Out, "old.txt"), []byte("old\n"), 0o644))
		must(os.MkdirAll(filepath.Join(b.Out, "oldsub"), 0o755))
		must(os.WriteFile(filepath.Join(b.Out, "oldsub", "inner.txt"), []byte("old inner\n"), 0o644))
		must(os.Symlink("oldsub", filepath.Join(b.Out, "inlink")))
		must(os.Symlink(filepath.Join(b.Out, "oldsub", "inner.txt"), filepath.Join(b.Out, "inabs")))
		// names the hostile DAGs use, pre-existing as file, directory or inward link
		for _, nm := range c17Pool {
			switch r.Intn(8) {
			case 0:
				must(os.WriteFile(filepath.Join(b.Out, nm), []byte("pre-existing\n"), 0o644))
			case 1:
				must(os.MkdirAll(filepath.Join(b.Out, nm), 0o755))
			case 2:
				must(os.Symlink("oldsub", filepath.Join(b.Out, nm)))
			case 3:
				must(os.Symlink("old.txt", filepath.Join(b.Out, nm)))
			}
		}
	}
	return b
}

// ---------------------------------------------------------------- the case

func runC17(t *mon.T, raw json.RawMessage) {
	var d c17Desc
	if err := json.Unmarshal(raw, &d); err != nil {
		panic(err)
	}
	var shape *c17Shape
	for _, s := range c17Shapes() {
		if s.label == d.Shape {
			s := s
			shape = &s
		}
	}
	if shape == nil {
		panic("c17: unknown shape " + d.Shape)
	}
	t.Cover("class:" + d.Shape)
	t.Cover("dirstate:" + d.Dir)

	// modes: always -f and stdin; one of the three ways of naming the output directory;
	// -p variants when the shape offers paths.
	pick := gen.Rand(d.Seed ^ 0x17)
	modes := []string{"-f", "stdin", []string{"cwd", "relative-outdir", "outdir-via-symlink", "outdir-dotdot-behind-symlink"}[pick.Intn(4)], "-f -p", "stdin -p"}
	pIdx := pick.Intn(1 << 20)
	verbose := pick.Intn(4) == 0

	wroteAny := false
	for _, mode := range modes {
		// the same seed gives the same shape in every sandbox of the case
		r := gen.Rand(d.Seed)
		box := c17MakeBox(gen.Rand(d.Seed^0x5a17), d.Dir)
		func() {
			defer os.RemoveAll(box.T)
			env := &hEnv{r: r, T: box.T, S: box.S}
			hc := shape.build(env)
			if !c17Planted[hc.Label] {
				if l := c17Collision(hc); l != "" {
					hc.Note = strings.TrimSpace(hc.Note + " (drawn as \"" + hc.Label + "\"; relabelled: a link is followed by a file of the same cleaned name)")
					hc.Label = l
					if mode == "-f" {
						t.Cover("relabelled-by-structure")
					}
				}
			}
			b := newDagB()
			var roots [][]byte
			for _, rn := range hc.Roots {
				roots = append(roots, rn.encode(b))
			}
			carBytes := refcar.EncodeV1(roots, false, b.blocks)
			carPath := filepath.Join(box.S, "in.car")
			if err := os.WriteFile(carPath, carBytes, 0o644); err != nil {
				panic(err)
			}

			args := []string{"extract"}
			if verbose {
				args = append(args, "-v")
			}
			var stdin []byte
			cwd := filepath.Join(box.S, "work")
			pArg := ""
			if strings.HasSuffix(mode, "-p") {
				var usable []string
				for _, p := range hc.Paths {
					if !strings.ContainsRune(p, 0) { // exec cannot pass a NUL byte in an argument
						usable = append(usable, p)
					}
				}
				if len(usable) == 0 {
					return
				}
				pArg = usable[pIdx%len(usable)]
				args = append(args, "-p", pArg)
			}
			switch mode {
			case "-f", "-f -p":
				args = append(args, "-f", carPath, box.Out)
			case "stdin", "stdin -p":
				stdin = carBytes
				args = append(args, box.Out)
			case "cwd":
				cwd = box.Out
				args = append(args, "-f", carPath)
			case "relative-outdir":
				args = append(args, "-f", "../in.car", "../out")
			case "outdir-via-symlink":
				args = append(args, "-f", carPath, filepath.Join(box.S, "outlink"))
			case "outdir-dotdot-behind-symlink":
				// the output directory is named as <link>/.. where the link leads to a directory inside out/:
				// the operating system resolves that to out/ (a lexical clean-up would make it work/)
				anchor := filepath.Join(box.Out, ".anchor")
				if err := os.MkdirAll(anchor, 0o755); err != nil {
					panic(err)
				}
				hop := filepath.Join(box.S, "work", "hop")
				os.Remove(hop)
				if err := os.Symlink(filepath.Join("..", "out", ".anchor"), hop); err != nil {
					panic(err)
				}
				args = append(args, "-f", carPath, hop+"/..")
			}

			before, err := snapshotTree(box.T, box.Out)
			if err != nil {
				panic(err)
			}
			outBefore, err := snapshotTree(box.Out)
			if err != nil {
				panic(err)
			}
			var sin io.Reader
			if stdin != nil {
				sin = bytes.NewReader(stdin)
			}
			// the tool's temporary files, if it makes any, go inside the watched sandbox
			res := runCarEnv(cwd, []string{"TMPDIR=" + filepath.Join(box.T, "p0", "tmp")}, sin, 60*time.Second, args...)
			if res.TimedOut {
				t.Inconclusive("car extract did not finish within the watchdog (shape %q, mode %s)", d.Shape, mode)
				return
			}
			if res.StartErr != nil {
				t.Inconclusive("car binary could not be started: %v", res.StartErr)
				return
			}
			after, err := snapshotTree(box.T, box.Out)
			if err != nil {
				panic(err)
			}
			outAfter, err := snapshotTree(box.Out)
			if err != nil && os.IsNotExist(err) {
				// the output directory itself is gone: its entry lives in its parent, which is outside
				t.ViolateD("car-extract/"+keyPart(d.Shape)+"/output-directory-itself-removed", map[string]any{"args": strings.ReplaceAll(quoteArgs(args), box.T, "$T"), "exit": res.Exit, "stderr": res.Stderr},
					"car extract removed the output directory it was given (shape %q, mode %s)", d.Shape, mode)
				return
			}
			if err != nil {
				panic(err)
			}
			t.Events(1)
			t.Cover("extractions")
			t.Cover("mode:" + mode)
			t.Cover(fmt.Sprintf("exit:%d", res.Exit))
			inside := diffSnapshots(outBefore, outAfter, false)
			if len(inside) > 0 {
				wroteAny = true
				t.Cover("extractions-that-wrote-under-out")
				t.Cover("wrote:" + d.Shape)
				t.Cover("wrote-dirstate:" + d.Dir)
				t.Cover("wrote-mode:" + mode)
				for _, x := range inside {
					if x.After != nil && x.After.Type == "symlink" && x.Change == "created" {
						t.Cover("symlinks-created-under-out")
						break
					}
				}
			}
			if strings.Contains(res.Stderr, "redirect through symlinks") {
				t.Cover("tool-refused:redirect-through-symlink")
			}

			var shapeDesc []string
			for i, rn := range hc.Roots {
				rn.describe(env, fmt.Sprintf("<root %d>", i), 0, &shapeDesc)
			}
			abstract := func(s string) string {
				return strings.ReplaceAll(strings.ReplaceAll(s, box.S, "$S"), box.T, "$T")
			}
			abstractAll := func(l []string) []string {
				for i := range l {
					l[i] = abstract(l[i])
				}
				return l
			}
			argsShown := make([]string, len(args))
			for i, a := range args {
				argsShown[i] = abstract(a)
			}

			outside := diffSnapshots(before, after, true)
			if len(outside) > 0 {
				// one violation per symptom class of the case
				bySym := map[string][]snapDiff{}
				for _, x := range outside {
					sym := ""
					switch x.Change {
					case "created":
						sym = "created-outside"
					case "deleted":
						sym = "deleted-outside"
					case "content-changed":
						sym = "sentinel-modified"
					case "type-changed":
						sym = "sentinel-replaced"
					case "target-changed":
						sym = "link-retargeted-outside"
					case "mode-changed":
						sym = "mode-changed-outside"
					case "mtime-changed":
						sym = "mtime-changed-outside"
					}
					bySym[sym] = append(bySym[sym], x)
				}
				syms := make([]string, 0, len(bySym))
				for k := range bySym {
					syms = append(syms, k)
				}
				sort.Strings(syms)
				for _, sym := range syms {
					x := bySym[sym][0]
					t.ViolateD("car-extract/"+keyPart(hc.Label)+"/"+sym, map[string]any{
						"mode": mode, "dir_state": d.Dir, "args": argsShown, "cwd": abstract(cwd), "exit": res.Exit,
						"stderr": abstract(res.Stderr), "dag": shapeDesc, "changes_outside_out": outside,
						"out_after": abstractAll(listing(outAfter, 30)), "car_hex": fmt.Sprintf("%x", carBytes),
					}, "car %s (output directory %s) %s %q outside the output directory; DAG class: %s",
						quoteArgs(argsShown), d.Dir, map[string]string{"created-outside": "created", "deleted-outside": "deleted", "sentinel-modified": "overwrote",
							"sentinel-replaced": "replaced", "link-retargeted-outside": "retargeted", "mode-changed-outside": "changed the mode of", "mtime-changed-outside": "changed the modification time of"}[sym],
						"$T/"+x.Path, hc.Label)
				}
			}
			if mode == "-f" && d.Dir == "empty" {
				t.Sample(map[string]any{"class": hc.Label, "note": hc.Note, "dir_state": d.Dir, "args": argsShown, "exit": res.Exit, "stderr": abstract(res.Stderr),
					"dag": shapeDesc, "out_after": abstractAll(listing(outAfter, 25)), "blocks": len(b.blocks), "roots": len(roots)})
			}
		}()
	}
	if wroteAny {
		t.Nontrivial()
	}
}

func genC17(g *mon.G) {
	r := gen.Rand(g.Seed)
	shapes := c17Shapes()
	per := g.Pick(6, 90)       // DAGs per shape
	for i := 0; i < per; i++ { // shapes interleaved, so that the evidence samples show different classes
		for _, s := range shapes {
			seed := r.Int63()
			for _, st := range []string{"empty", "populated"} {
				g.Emit(c17Desc{Seed: seed, Shape: s.label, Dir: st})
			}
		}
	}
}

func init() {
	min := map[string]int{
		"dirstate:empty": 50, "dirstate:populated": 50,
		"wrote-dirstate:empty": 30, "wrote-dirstate:populated": 30,
		"mode:-f": 100, "mode:stdin": 100, "mode:-f -p": 30, "mode:stdin -p": 30,
		"mode:cwd": 5, "mode:relative-outdir": 5, "mode:outdir-via-symlink": 5,
		"wrote-mode:-f": 50, "wrote-mode:stdin": 50, "wrote-mode:-f -p": 10, "wrote-mode:stdin -p": 10,
		"extractions-that-wrote-under-out":      400,
		"symlinks-created-under-out":            40,
		"tool-refused:redirect-through-symlink": 5,
	}
	for _, s := range c17Shapes() {
		min["class:"+s.label] = 2
		if s.wrote {
			min["wrote:"+s.label] = 1
		}
	}
	Register(&mon.Check{
		ID:    "C17",
		Level: "exploration",
		Rule: "cases = (seeded hostile UnixFS DAG of one feature class, output directory empty | pre-populated); each case runs the real `car extract` binary in fresh sandboxes in up to 5 ways " +
			"(-f, stdin, one of {cwd as output, relative output dir, output dir named through a symlink}, -f -p <entry>, stdin -p <entry>); oracle = recursive snapshot " +
			"(names, types, sizes, sha256, link targets, permission bits) of the scratch root excluding out/ is identical before and after; events_observed = extractions run; " +
			"non-trivial = at least one extraction of the case got past parsing and created or changed something under out/",
		Assumptions: []string{
			"absolute link targets / absolute entry names point inside the scratch root only, and relative ones climb at most to it, so a real escape damages sentinels only",
			"the snapshot does not follow symbolic links and does not compare timestamps",
			"the archive itself (S/in.car) is part of the snapshot",
		},
		Gen: genC17, Run: runC17, MinCover: min,
		CaseTimeout: 8 * time.Minute,
	})
}
