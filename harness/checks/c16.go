package checks

import (
	"bytes"
	"encoding/json"
	"fmt"
	"os"
	"path/filepath"
	"strings"

	blocks "github.com/ipfs/go-block-format"
	"github.com/ipfs/go-cid"
	"github.com/ipld/go-car/v2/blockstore"
	"github.com/ipld/go-car/v2/storage"
	"github.com/ipld/go-car/v2/storage/deferred"

	"carlab/internal/gen"
	"carlab/internal/iofault"
	"carlab/internal/lab"
	"carlab/internal/mon"
	"carlab/internal/refcar"
)

type c16Desc struct {
	Seed    int64     `json:"seed"`
	Target  string    `json:"target"` // storage-rw | storage-stream | deferred-stream | blockstore | blockstore-many
	Cfg     lab.Cfg   `json:"cfg"`
	AllK    bool      `json:"allk,omitempty"`  // every byte count, not only {0, mid, len-1}
	Pairs   bool      `json:"pairs,omitempty"` // also pairs of faults
	OnlyOrd int       `json:"only_ord,omitempty"`
	OnlyK   int       `json:"only_k,omitempty"`
	Kernel  *c16KDesc `json:"kernel,omitempty"` // hook-independent variant: the kernel makes the fault (RLIMIT_FSIZE)
}

// c16Sess is one store under a fault plan.
type c16Sess struct {
	target string
	mf     *iofault.MemFile
	tap    *iofault.FileTap
	f      *os.File
	path   string
	bs     *blockstore.ReadWrite
	sc     storage.WritableCar
	scr    *storage.StorageCar
	dw     *deferred.DeferredCarWriter

	pathTap bool
	roFirst bool
}

func (s *c16Sess) writes() int {
	if s.tap != nil {
		return s.tap.Writes()
	}
	return s.mf.Writes()
}
func (s *c16Sess) faulted() int {
	if s.tap != nil {
		return s.tap.Faulted
	}
	return s.mf.Faulted
}

func c16Open(target, dir string, roots []cid.Cid, cfg lab.Cfg, faults []iofault.Fault) (*c16Sess, error) {
	s := &c16Sess{target: target}
	var err error
	switch target {
	case "storage-rw":
		s.mf = iofault.New(nil)
		s.mf.SetFaults(faults)
		s.scr, err = storage.NewReadableWritable(s.mf, roots, cfg.Opts()...)
		s.sc = s.scr
	case "storage-rw-truncate-fails":
		// the Truncate that would remove the partial bytes of a failed write fails in the same outage:
		// the store either refuses to go on, or goes on correctly
		s.mf = iofault.New(nil)
		s.mf.TruncateFailsAfterFault = 1
		s.mf.SetFaults(faults)
		s.scr, err = storage.NewReadableWritable(s.mf, roots, cfg.Opts()...)
		s.sc = s.scr
	case "storage-rw-notrunc":
		// a ReaderAt/WriterAt that cannot be truncated: partial bytes of a failed write cannot be removed
		s.mf = iofault.New(nil)
		s.mf.SetFaults(faults)
		s.scr, err = storage.NewReadableWritable(onlyAt{s.mf}, roots, cfg.Opts()...)
		s.sc = s.scr
	case "storage-stream":
		s.mf = iofault.New(nil)
		s.mf.SetFaults(faults)
		s.sc, err = storage.NewWritable(iofault.PlainWriter{M: s.mf}, roots, cfg.Opts()...)
	case "deferred-stream":
		s.mf = iofault.New(nil)
		s.mf.SetFaults(faults)
		c2 := cfg
		c2.V1 = false
		s.dw = deferred.NewDeferredCarWriterForStream(iofault.PlainWriter{M: s.mf}, roots, c2.Opts()...)
	case "deferred-path":
		// the library opens the file itself: the tap is attached by name
		s.path = filepath.Join(dir, "dp.car")
		os.Remove(s.path)
		s.tap = iofault.TapPath(s.path)
		s.tap.SetFaults(faults)
		s.pathTap = true
		s.dw = deferred.NewDeferredCarWriterForPath(s.path, roots, cfg.Opts()...)
	case "storage-rw-resumed":
		// the session resumes a file an earlier session left behind (discarded, or finalized when the
		// configuration says Sorted): the blocks of that session are acknowledged blocks too
		s.mf = iofault.New(c16FirstGen(roots, cfg))
		s.mf.SetFaults(faults)
		s.scr, err = storage.OpenReadableWritable(s.mf, roots, cfg.Opts()...)
		s.sc = s.scr
	case "blockstore-resumed":
		s.path = filepath.Join(dir, "bsr.car")
		if werr := os.WriteFile(s.path, c16FirstGen(roots, cfg), 0o644); werr != nil {
			panic(werr)
		}
		s.f, err = os.OpenFile(s.path, os.O_RDWR, 0o666)
		if err != nil {
			panic(err)
		}
		s.tap = iofault.Tap(s.f)
		s.tap.SetFaults(faults)
		s.roFirst = len(faults) > 0 && faults[0].Keep%2 == 0
		s.bs, err = blockstore.OpenReadWriteFile(s.f, roots, cfg.Opts()...)
	case "blockstore", "blockstore-many":
		s.path = filepath.Join(dir, "bs.car")
		os.Remove(s.path)
		s.f, err = os.OpenFile(s.path, os.O_RDWR|os.O_CREATE, 0o666)
		if err != nil {
			panic(err)
		}
		s.tap = iofault.Tap(s.f)
		s.tap.SetFaults(faults)
		s.roFirst = len(faults) > 0 && faults[0].Keep%2 == 0
		s.bs, err = blockstore.OpenReadWriteFile(s.f, roots, cfg.Opts()...)
	}
	return s, err
}

// c16Pre: the blocks of the earlier session that a "-resumed" target starts from.
func c16Pre() []refcar.Block {
	var out []refcar.Block
	for _, d := range [][]byte{[]byte("first generation, block one"), bytes.Repeat([]byte("first generation, block two "), 9)} {
		h, _ := refcar.Hash(0x12, d)
		out = append(out, refcar.Block{Cid: refcar.MakeCidV1(0x55, 0x12, h), Data: d})
	}
	return out
}

// c16FirstGen writes that earlier session (fault-free, on a memfile) and returns the file it left.
func c16FirstGen(roots []cid.Cid, cfg lab.Cfg) []byte {
	mf := iofault.New(nil)
	mf.NoLog = true
	sc, err := storage.NewReadableWritable(mf, roots, cfg.Opts()...)
	if err != nil {
		panic(err)
	}
	for _, b := range c16Pre() {
		if err := sc.Put(bg, string(b.Cid), b.Data); err != nil {
			panic(err)
		}
	}
	if cfg.Sorted {
		if err := sc.Finalize(); err != nil {
			panic(err)
		}
	}
	return mf.Bytes()
}

func (s *c16Sess) put(b refcar.Block) error {
	switch {
	case s.bs != nil:
		return s.bs.Put(bg, lab.ToBlock(b))
	case s.dw != nil:
		return s.dw.Put(bg, string(b.Cid), b.Data)
	}
	return s.sc.Put(bg, string(b.Cid), b.Data)
}
func (s *c16Sess) has(b refcar.Block) (bool, error, bool) { // third result: lookup available
	switch {
	case s.bs != nil:
		h, err := s.bs.Has(bg, lab.ToCid(b.Cid))
		return h, err, true
	case s.dw != nil:
		h, err := s.dw.Has(bg, string(b.Cid))
		return h, err, true
	case s.scr != nil:
		h, err := s.scr.Has(bg, string(b.Cid))
		return h, err, true
	}
	if sc, ok := s.sc.(*storage.StorageCar); ok {
		h, err := sc.Has(bg, string(b.Cid))
		return h, err, true
	}
	return false, nil, false
}
func (s *c16Sess) finalize() error {
	switch {
	case s.bs != nil:
		if s.roFirst {
			return s.bs.FinalizeReadOnly() // leaves the store open for reads: a later Finalize is a legal call
		}
		return s.bs.Finalize()
	case s.dw != nil:
		return s.dw.Close()
	}
	return s.sc.Finalize()
}

// finalizeAgain is the caller's second attempt after a failed finalization.
func (s *c16Sess) finalizeAgain() error {
	switch {
	case s.bs != nil:
		return s.bs.Finalize()
	case s.dw != nil:
		return s.dw.Close()
	}
	return s.sc.Finalize()
}

func (s *c16Sess) bytes() []byte {
	if s.mf != nil {
		return s.mf.Bytes()
	}
	return mustRead(s.path)
}
func (s *c16Sess) close() {
	if s.pathTap {
		iofault.UntapPath(s.path)
	}
	if s.f != nil {
		iofault.Untap(s.f)
		s.f.Close()
	}
}

// c16Run executes one faulted session and judges it. It returns the number of writes seen (for the fault-free run).
func c16Run(t *mon.T, d c16Desc, dir string, roots []cid.Cid, rootsRaw [][]byte, blks []refcar.Block, faults []iofault.Fault, retry bool) int {
	cfg := d.Cfg
	label := d.Target
	phaseOf := "open"
	detail := map[string]any{"faults": fmt.Sprint(faults), "cfg": cfg.String(), "blocks": len(blks), "retry": retry}
	viol := func(key, format string, a ...any) {
		t.ViolateD(label+"/"+key, detail, format, a...)
	}
	m := &lab.Model{Cfg: cfg}
	var maybe []refcar.Block
	s, err := c16Open(d.Target, dir, roots, cfg, faults)
	defer s.close()
	fired := s.faulted()
	if err != nil {
		if fired == 0 {
			viol("open/error-without-fault", "open failed without an injected fault: %v", err)
		}
		t.Cover("fault-in:open")
		return s.writes()
	}
	if fired > 0 {
		viol("open/fault-swallowed", "the writer failed during open but open returned no error")
		return s.writes()
	}
	if strings.HasSuffix(d.Target, "-resumed") {
		for _, b := range c16Pre() {
			m.Put(b)
		}
		t.Cover("sessions-resuming-an-earlier-file")
	}
	allLaterOK := true
	sawFault := false
	step := func(name string, err error) (faultedHere bool) {
		now := s.faulted()
		faultedHere = now > fired
		fired = now
		if faultedHere {
			sawFault = true
			t.Cover("fault-in:" + name)
			if err == nil {
				viol(name+"/fault-swallowed", "the underlying writer returned an error/short write during %s but the call returned nil", name)
			}
		} else if err != nil {
			if sawFault {
				allLaterOK = false // sticky error after an earlier fault: second clause vacuous
				t.Cover("later-call-failed-after-fault")
			} else {
				viol(name+"/error-without-fault", "%s failed without an injected fault: %v", name, err)
			}
		}
		return
	}
	putOne := func(b refcar.Block) {
		phaseOf = "put"
		decide := m.Decide(b)
		err := s.put(b)
		f := step("put", err)
		if err == nil {
			if decide == lab.Stored {
				m.Put(b)
			}
			return
		}
		if f || sawFault {
			// the failed block must not be reported as stored (unless an equal key was stored earlier)
			adm, _ := m.Lookup(b.Cid)
			if has, herr, ok := s.has(b); ok && herr == nil && has && len(adm) == 0 {
				viol("put.failed/reported-as-stored", "Put failed (%v) but Has reports the block as stored", err)
			}
			t.Events(1)
		}
	}
	if d.Target == "blockstore-many" {
		// one PutMany: blocks before the failing one may or may not end up in the archive
		var l []blocks.Block
		for _, b := range blks {
			l = append(l, lab.ToBlock(b))
		}
		err := s.bs.PutMany(bg, l)
		f := step("putmany", err)
		if err == nil {
			for _, b := range blks {
				m.Put(b)
			}
		} else if f {
			maybe = append(maybe, blks...)
		}
	} else {
		for i, b := range blks {
			before := fired
			putOne(b)
			if fired > before && retry {
				t.Cover("retried-failed-put")
				putOne(b)
			}
			_ = i
		}
	}
	phaseOf = "finalize"
	ferr := s.finalize()
	ff := step("finalize", ferr)
	if ferr != nil || ff {
		allLaterOK = false
		if retry {
			// the caller finalizes again: only an error, or a complete archive, will do
			if rerr := s.finalizeAgain(); rerr == nil {
				t.Cover("finalize-retried-and-succeeded")
				allLaterOK = true
			} else {
				t.Cover("finalize-retried-and-refused")
			}
		}
	}
	_ = phaseOf
	if !sawFault {
		// fault-free run (or the fault position was never reached)
		t.Cover("sessions-without-fault")
	}
	if !allLaterOK {
		t.Cover("second-clause-vacuous")
		return s.writes()
	}
	// every call after the fault succeeded: the archive must be well-formed and hold exactly the acknowledged blocks
	file := s.bytes()
	t.Events(1)
	a, err := refcar.Decode(file, false)
	if err != nil {
		viol("final-archive/not-well-formed", "every call after the fault succeeded, but the finalized archive does not decode: %v", err)
		return s.writes()
	}
	var got []refcar.Block
	for _, sec := range a.Payload.Sections {
		got = append(got, refcar.Block{Cid: sec.Cid.Raw, Data: sec.Data})
	}
	want := m.Sections
	if len(maybe) > 0 {
		// accept any prefix-closed subset of the maybe set: compare only that nothing outside it appears
		okset := map[string]bool{}
		for _, b := range maybe {
			okset[string(b.Cid)+"|"+string(b.Data)] = true
		}
		for _, g := range got {
			if !okset[string(g.Cid)+"|"+string(g.Data)] {
				viol("final-archive/unknown-block", "the archive holds a block that was never put")
			}
		}
	} else if !seqEqual(got, want) {
		viol("final-archive/blocks-differ-from-acknowledged", "finalized archive holds %d blocks %v, acknowledged were %d %v", len(got), seqSummary(got), len(want), seqSummary(want))
		return s.writes()
	}
	if !lab.CidsEqual(lab.ToCids(a.Payload.Header.Roots, false), rootsRaw) {
		viol("final-archive/roots", "roots differ")
	}
	if a.Version == 2 {
		pi, err := refcar.ParseIndex(a.IndexBytes)
		if err != nil {
			viol("final-archive/index-unparseable", "index does not parse: %v", err)
		} else {
			if !refcar.RecordsEqual(pi.Records(), refcar.ExpectedIndexRecords(a.Payload, pi.Codec, true)) {
				viol("final-archive/index-records", "index does not resolve exactly the stored sections")
			}
			if pi.Size != len(a.IndexBytes) {
				viol("final-archive/trailing-bytes-after-index", "%d bytes of a failed write remain after the index", len(a.IndexBytes)-pi.Size)
			}
		}
		if a.V2.DataOffset != 51+cfg.DataPad || a.V2.IndexOffset != a.V2.DataOffset+a.V2.DataSize+cfg.IndexPad {
			viol("final-archive/header", "header fields inconsistent with the options: %+v", a.V2)
		}
	}
	if sawFault {
		t.Cover("archives-judged-after-fault")
	}
	return s.writes()
}

func runC16(t *mon.T, raw json.RawMessage) {
	var d c16Desc
	if err := json.Unmarshal(raw, &d); err != nil {
		panic(err)
	}
	if d.Kernel != nil {
		kb, _ := json.Marshal(d.Kernel)
		runC16Kernel(t, kb)
		return
	}
	r := gen.Rand(d.Seed)
	content := gen.MakeContent(r, gen.ContentOpts{MinBlocks: 1, MaxBlocks: 5, MinRoots: 1, MaxRoots: 2, Dups: true, Block: gen.BlockOpts{MaxSize: 120}})
	roots := lab.ToCids(content.Roots, false)
	dir := lab.TempDir("c16")
	defer os.RemoveAll(dir)
	t.Nontrivial()
	t.Cover("target:" + d.Target)

	// fault-free run: learn the write calls and their lengths
	var lens []int
	{
		s, err := c16Open(d.Target, dir, roots, d.Cfg, nil)
		if err != nil {
			t.Violatef(d.Target+"/open/error-without-fault", "open failed: %v", err)
			return
		}
		for _, b := range content.Blocks {
			if err := s.put(b); err != nil {
				t.Violatef(d.Target+"/put/error-without-fault", "put failed: %v", err)
			}
		}
		if err := s.finalize(); err != nil {
			t.Violatef(d.Target+"/finalize/error-without-fault", "finalize failed: %v", err)
		}
		var evs []iofault.Event
		if s.tap != nil {
			evs = s.tap.Events()
		} else {
			evs = s.mf.Events()
		}
		for _, e := range evs {
			if e.Kind == iofault.KWriteAt || e.Kind == iofault.KWrite {
				lens = append(lens, len(e.Data))
			}
		}
		if s.tap != nil && !(s.dw != nil && d.Cfg.V1) && d.Target != "blockstore-resumed" {
			// the traced pragma write is not a hooked write (not faultable): drop it
			lens = lens[1:]
		}
		s.close()
		// trace completeness: replaying the recorded events must give the file
		if s.tap != nil {
			var initial []byte
			if d.Target == "blockstore-resumed" {
				initial = c16FirstGen(roots, d.Cfg) // a resumed session writes no pragma and starts from the earlier file
			}
			img := iofault.Image(initial, evs, len(evs), -1)
			if !bytes.Equal(img, mustRead(s.path)) {
				t.Violatef("harness/trace-incomplete", "replaying the hook trace does not reproduce the file: the trace misses writes")
				return
			}
			t.Cover("trace-completeness-checked")
		}
	}
	runs := 0
	for ord, l := range lens {
		if d.OnlyOrd > 0 && ord != d.OnlyOrd-1 {
			continue
		}
		ks := []int{0}
		if l > 1 {
			ks = append(ks, l/2, l-1)
		}
		if d.AllK {
			ks = ks[:0]
			for k := 0; k < l; k++ {
				ks = append(ks, k)
			}
		}
		for _, k := range ks {
			if d.OnlyOrd > 0 && d.OnlyK > 0 && k != d.OnlyK-1 {
				continue
			}
			for _, retry := range []bool{false, true} {
				c16Run(t, d, dir, roots, content.Roots, content.Blocks, []iofault.Fault{{At: ord, Keep: k}}, retry)
				runs++
			}
		}
		// the retry of the failed call fails as well, at one of ITS writes, with bytes accepted (an outage
		// that lasts): the second undo must do what the first did
		for j := 1; j <= 3; j++ {
			c16Run(t, d, dir, roots, content.Roots, content.Blocks, []iofault.Fault{{At: ord, Keep: l / 2}, {At: ord + j, Keep: 40}}, true)
			runs++
		}
		t.Cover("retry-fails-too")
		if d.Pairs {
			for j := 0; j < 3; j++ {
				o2 := ord + 1 + r.Intn(len(lens)+2)
				c16Run(t, d, dir, roots, content.Roots, content.Blocks, []iofault.Fault{{At: ord, Keep: 0}, {At: o2, Keep: r.Intn(3)}}, r.Intn(2) == 0)
				runs++
			}
		}
	}
	t.CoverN("faulted-sessions", runs)
	t.Sample(map[string]any{"target": d.Target, "cfg": d.Cfg.String(), "blocks": len(content.Blocks), "write_calls": len(lens), "write_lengths": lens, "faulted_sessions": runs})
}

func genC16(g *mon.G) {
	r := gen.Rand(g.Seed)
	targets := []string{"storage-rw", "storage-stream", "deferred-stream", "blockstore", "blockstore-many", "deferred-path", "storage-rw-notrunc", "blockstore-resumed", "storage-rw-resumed", "storage-rw-truncate-fails"}
	for i := 0; i < g.Pick(150, 1500); i++ {
		tg := targets[i%len(targets)]
		cfg := lab.Cfg{StoreID: r.Intn(2) == 0, Sorted: r.Intn(2) == 0}
		switch tg {
		case "storage-stream", "deferred-stream":
			cfg.V1 = true
		default:
			cfg.V1 = r.Intn(4) == 0
			if !cfg.V1 {
				cfg.DataPad = uint64(r.Intn(3) * 5)
				cfg.IndexPad = uint64(r.Intn(2) * 7)
			}
		}
		g.Emit(c16Desc{Seed: r.Int63(), Target: tg, Cfg: cfg, AllK: g.Thorough() && i%3 == 0, Pairs: g.Thorough()})
	}
	// hook-independent cross-check: the kernel cuts the write (RLIMIT_FSIZE) on an untapped blockstore
	for i := 0; i < g.Pick(120, 1500); i++ {
		cfg := lab.Cfg{V1: r.Intn(3) == 0, Sorted: r.Intn(2) == 0}
		if !cfg.V1 {
			cfg.DataPad = uint64(r.Intn(3) * 9)
		}
		k := []int{0, 1, 2, 3, 5, 20, 37, 38, 39, 40, 60, 100, 200}[r.Intn(13)]
		g.Emit(c16Desc{Target: "blockstore-kernel", Kernel: &c16KDesc{Seed: r.Int63(), Cfg: cfg, FaultAt: r.Intn(5), K: k, Retry: r.Intn(2) == 0}})
	}
}

func init() {
	Register(&mon.Check{
		ID:          "C16",
		Level:       "fault_enumeration",
		Rule:        "cases = seeded sessions (open, 1-5 puts, finalize) on 7 targets (StorageCar over a WriterAt memfile, over a WriterAt that cannot be truncated, StorageCar over a plain io.Writer, deferred stream writer, deferred writer on a path (the file the library opens itself is tapped by name), blockstore.ReadWrite through the verif write hook with Put, and with one PutMany); the fault-free run yields the list of write calls; then EVERY write call is faulted once with accepted byte counts {0, mid, len-1} (quick) or every count (a third of the thorough cases), with and without a retry of the failed block, plus fault pairs in the thorough tier. Oracles: the API call during which the writer failed must return an error; Has(failed block) must be false unless stored earlier; if all later calls succeed the finalized archive must decode strictly, hold exactly the acknowledged blocks, a matching index and consistent header. counters.faulted-sessions counts individual faulted sessions. Hook-independent cross-check: 120 (quick) / 1500 (thorough) sessions on an UNTAPPED blockstore.ReadWrite in a child process whose soft RLIMIT_FSIZE is lowered to end-of-file + k around one Put (SIGXFSZ ignored), so that the kernel itself cuts the write short / fails it with EFBIG; same oracle",
		Assumptions: []string{"fault model: a write call accepts k < len bytes and returns an error once (transient)", "for the blockstore the verif hook performs the partial write and returns the error, as a full disk would; its trace is checked for completeness against the file", "for a failing PutMany the blocks of the batch form a maybe-set", "the kernel-made faults (RLIMIT_FSIZE) need no hook at all and validate the hook-made ones"},
		Gen:         genC16,
		Run:         runC16,
		MinCover: map[string]int{"sessions-resuming-an-earlier-file": 100, "faulted-sessions": 2000, "fault-in:open": 50, "fault-in:put": 500, "fault-in:finalize": 50, "archives-judged-after-fault": 200, "retried-failed-put": 100, "trace-completeness-checked": 5,
			"target:blockstore": 5, "target:storage-stream": 5, "target:deferred-stream": 5, "target:deferred-path": 5, "target:storage-rw-notrunc": 5, "kernel:put-failed-by-kernel": 50, "kernel:archives-judged-after-fault": 30},
	})
}
