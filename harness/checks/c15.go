package checks

// C15 — Traversal writers emit exactly the visited blocks, once, with correct sizes.
//
// Events: every block load the code under test performs through the
// caller-supplied store (LinkSystem.StorageReadOpener for the v2 writers,
// ReadStore.Get for the root-module SelectiveCar, NodeGetter.Get for WriteCar)
// is logged by a recording wrapper. The expected archive is the reference
// encoding (refcar) of header(roots) followed by the DISTINCT CIDs of the load
// log of the writing traversal in first-visit order. All oracles compare output
// bytes / returned values with that.

import (
	"bytes"
	"encoding/json"
	"errors"
	"fmt"
	"math"
	"os"
	"path/filepath"
	"strings"

	"github.com/ipfs/go-cid"
	format "github.com/ipfs/go-ipld-format"
	"github.com/ipfs/go-merkledag"
	carv1 "github.com/ipld/go-car"
	carv2 "github.com/ipld/go-car/v2"
	"github.com/ipld/go-ipld-prime/datamodel"
	"github.com/ipld/go-ipld-prime/traversal"
	"github.com/multiformats/go-multicodec"

	"carlab/internal/gen"
	"carlab/internal/lab"
	"carlab/internal/mon"
	"carlab/internal/refcar"
)

type c15V2Cfg struct {
	Dup       bool   `json:"dup,omitempty"`       // AllowDuplicatePuts(true): links are re-visited
	DataPad   uint64 `json:"dpad,omitempty"`      // UseDataPadding
	IndexPad  uint64 `json:"ipad,omitempty"`      // UseIndexPadding
	Index     string `json:"index,omitempty"`     // "" = default (multihash sorted) | "sorted" | "none" (WithoutIndex)
	PBChooser bool   `json:"pbchooser,omitempty"` // WithTraversalPrototypeChooser(dag-pb aware)
}

// short labels the container layout options (the index codec does not move any offset).
func (c c15V2Cfg) short() string {
	s := "v2"
	if c.DataPad > 0 {
		s += "+dpad"
	}
	if c.IndexPad > 0 {
		s += "+ipad"
	}
	if c.Index == "none" {
		s += "+noindex"
	}
	return s
}

func (c c15V2Cfg) indexKind() string {
	switch c.Index {
	case "sorted":
		return "index-sorted"
	case "none":
		return "noindex"
	}
	return "index-multihash-sorted"
}

type c15RootCfg struct {
	Once     bool `json:"once,omitempty"`     // TraverseLinksOnlyOnce()
	TwoDags  bool `json:"twodags,omitempty"`  // a second Dag / root (never together with a budget)
	SkipRoot bool `json:"skiproot,omitempty"` // WriteCar(..., merkledag.SkipRoot())
}

type c15Desc struct {
	Seed     int64      `json:"seed"`
	Sel      string     `json:"sel"` // all | depth | fields | fields+all
	SelDepth int        `json:"seldepth,omitempty"`
	Budget   string     `json:"budget,omitempty"` // "" | exact | minus1 | half | ample | zero  (relative to the links an unbounded traversal loads)
	V2       c15V2Cfg   `json:"v2"`
	Root     c15RootCfg `json:"root"`
	Only     string     `json:"only,omitempty"` // run a single writer (replay narrowing)
}

var c15Writers = []string{
	"v2.NewSelectiveWriter.WriteTo", "v2.TraverseV1", "v2.TraverseToFile",
	"root.SelectiveCar.Write", "root.SelectiveCar.Prepare+Dump", "root.WriteCar",
}

type c15Case struct {
	budget       int64 // the MaxTraversalLinks value in force (valid when a budget is set)
	perDagBudget bool  // two Dags under one budget that each fits alone: a budget error is a violation
	t            *mon.T
	d            c15Desc
	dag          *c15Dag
	sel          datamodel.Node
	selS         string
	kind         string // selector kind label for coverage
}

func c15HasRepeat(log [][]byte) bool {
	seen := map[string]bool{}
	for _, c := range log {
		if seen[string(c)] {
			return true
		}
		seen[string(c)] = true
	}
	return false
}

func c15Shape(log [][]byte) string {
	if c15HasRepeat(log) {
		return "repeated-link"
	}
	return "distinct-loads"
}

// c15WalkShape labels WriteCar logs: the walker de-duplicates links itself, so
// a block fetched twice is not a repeated link but a re-entered root.
func c15WalkShape(log [][]byte) string {
	if c15HasRepeat(log) {
		return "block-fetched-twice"
	}
	return "distinct-loads"
}

// want returns the expected block list: distinct CIDs of the log in first-visit order.
func (c *c15Case) want(log [][]byte) []refcar.Block {
	seen := map[string]bool{}
	var out []refcar.Block
	for _, k := range log {
		if seen[string(k)] {
			continue
		}
		seen[string(k)] = true
		out = append(out, refcar.Block{Cid: k, Data: c.dag.nodes[c.dag.byCid[string(k)]].data})
	}
	return out
}

func c15LogSummary(log [][]byte) []string {
	var out []string
	for i, k := range log {
		if i >= 24 {
			out = append(out, fmt.Sprintf("…(%d total)", len(log)))
			break
		}
		out = append(out, lab.Hex(k))
	}
	return out
}

func (c *c15Case) detail(log [][]byte, extra map[string]any) map[string]any {
	m := map[string]any{
		"selector": c.selS, "dag_depth": c.dag.depth, "dag_nodes": len(c.dag.nodes), "dag_reachable": len(c.dag.reachable),
		"dag_repeated_link": c.dag.hasRepeated, "dag_shared_subtree": c.dag.hasShared, "dag_identity_link": c.dag.hasIdentity,
		"load_log": c15LogSummary(log),
	}
	for k, v := range extra {
		m[k] = v
	}
	return m
}

// onError classifies an error returned by a writer. It returns true when the
// error is the legitimate consequence of an exhausted link budget.
func (c *c15Case) onError(api, linkOpt string, err error, log [][]byte, budget int64, hasBudget bool) bool {
	t := c.t
	if c.perDagBudget && strings.Contains(err.Error(), "budget") {
		t.ViolateD(api+"/two-dags/budget-not-per-dag", c.detail(log, map[string]any{"budget": budget, "error": err.Error()}),
			"%s: budget error with MaxTraversalLinks=%d although each of the two Dags needs no more than that on its own: %v", api, budget, err)
		return false
	}
	if hasBudget && strings.Contains(err.Error(), "budget") {
		// the walker refuses a link load exactly when `budget` links were loaded before (the root load is free)
		if int64(len(log))-1 == budget {
			t.Cover("budget:exceeded")
			t.Cover("budget:exceeded:" + api)
			return true
		}
		t.ViolateD(api+"/link-budget/spurious-budget-error", c.detail(log, map[string]any{"budget": budget, "error": err.Error()}),
			"%s: budget error after %d link loads with MaxTraversalLinks=%d: %v", api, len(log)-1, budget, err)
		return false
	}
	sym := "unexpected-error"
	switch {
	case errors.Is(err, carv2.ErrSizeMismatch):
		sym = "ErrSizeMismatch"
	case errors.Is(err, carv2.ErrOffsetImpossible):
		sym = "ErrOffsetImpossible"
	}
	t.ViolateD(api+"/"+linkOpt+"+"+c15Shape(log)+"/"+sym, c.detail(log, map[string]any{"error": err.Error(), "budget": budget, "has_budget": hasBudget}),
		"%s failed on a valid request (complete DAG, valid selector %s): %v", api, c.selS, err)
	return false
}

// checkPayload: oracle (a). payload must be the reference encoding of roots +
// first-visit distinct loads. Returns the expected payload and whether it matched.
func (c *c15Case) checkPayload(api, class string, payload []byte, roots [][]byte, log [][]byte) ([]byte, bool) {
	t := c.t
	wantBlocks := c.want(log)
	want := refcar.EncodeV1(roots, false, wantBlocks)
	if bytes.Equal(payload, want) {
		return want, true
	}
	// classify
	sym := "payload-encoding"
	p, derr := refcar.DecodeV1(payload, true)
	var got []refcar.Block
	if p != nil {
		for _, s := range p.Sections {
			got = append(got, refcar.Block{Cid: s.Cid.Raw, Data: s.Data})
		}
	}
	wantSet := map[string][]byte{}
	for _, b := range wantBlocks {
		wantSet[string(b.Cid)] = b.Data
	}
	gotSet := map[string]bool{}
	dup, extra, baddata := false, false, false
	for _, b := range got {
		if gotSet[string(b.Cid)] {
			dup = true
		}
		gotSet[string(b.Cid)] = true
		if w, ok := wantSet[string(b.Cid)]; !ok {
			extra = true
		} else if !bytes.Equal(w, b.Data) {
			baddata = true
		}
	}
	missing := false
	for k := range wantSet {
		if !gotSet[k] {
			missing = true
		}
	}
	hdrOK := p != nil && p.Header.Version == 1 && len(p.Header.Roots) == len(roots)
	if hdrOK {
		for i := range roots {
			if !bytes.Equal(p.Header.Roots[i], roots[i]) {
				hdrOK = false
			}
		}
	}
	switch {
	case p == nil || !hdrOK:
		sym = "header"
	case dup:
		sym = "duplicate-block"
	case extra:
		sym = "unvisited-block"
	case missing:
		sym = "missing-block"
	case baddata:
		sym = "block-data"
	case !missing && !seqEqualCids(got, wantBlocks):
		sym = "order"
	}
	t.ViolateD(api+"/"+class+"/"+sym, c.detail(log, map[string]any{"got": seqSummary(got), "want": seqSummary(wantBlocks), "decode_error": fmt.Sprint(derr)}),
		"%s: output payload is not header + the distinct loaded blocks in first-visit order (%s): got %d sections, want %d; first difference at payload byte %d",
		api, sym, len(got), len(wantBlocks), lab.FirstDiff(payload, want))
	return want, false
}

func seqEqualCids(a, b []refcar.Block) bool {
	if len(a) != len(b) {
		return false
	}
	for i := range a {
		if !bytes.Equal(a[i].Cid, b[i].Cid) {
			return false
		}
	}
	return true
}

// checkV2 applies oracles (a) and (b) to a CARv2 output of WriteTo / TraverseToFile.
func (c *c15Case) checkV2(api, class string, out []byte, log [][]byte) bool {
	t := c.t
	cfg := c.d.V2
	cc := cfg.short()
	roots := [][]byte{c.dag.nodes[c.dag.root].cid}
	h, err := refcar.ParseV2Header(out)
	if err != nil {
		t.ViolateD(api+"/"+cc+"/not-carv2", c.detail(log, nil), "%s: output does not start with the CARv2 pragma and header: %v", api, err)
		return false
	}
	ok := true
	do := 51 + cfg.DataPad
	if h.DataOffset != do {
		t.ViolateD(api+"/"+cc+"/header-data-offset", c.detail(log, nil), "%s: header DataOffset = %d, want 51 + data padding %d", api, h.DataOffset, cfg.DataPad)
		ok = false
	}
	if uint64(len(out)) < do {
		t.ViolateD(api+"/"+cc+"/short-output", c.detail(log, nil), "%s: output has %d bytes, less than the data offset %d", api, len(out), do)
		return false
	}
	// Where does the payload end? The announced extent [DataOffset, DataOffset+DataSize) when it is the
	// expected payload; otherwise tell a longer well-formed payload (extra sections: a block-list
	// violation) from a merely wrong announced size.
	rest := out[do:]
	want := refcar.EncodeV1(roots, false, c.want(log))
	cand := rest
	if h.DataSize <= uint64(len(rest)) {
		cand = rest[:h.DataSize]
	}
	if !bytes.Equal(cand, want) {
		if !bytes.HasPrefix(rest, want) {
			c.checkPayload(api, class, cand, roots, log)
			return false
		}
		if p, derr := refcar.DecodeV1(cand, false); len(cand) > len(want) && derr == nil && p.End == uint64(len(cand)) {
			c.checkPayload(api, class, cand, roots, log)
			return false
		}
		t.ViolateD(api+"/"+class+"/header-data-size", c.detail(log, map[string]any{"announced": h.DataSize, "written": len(want)}),
			"%s: header announces DataSize %d but the payload written is %d bytes", api, h.DataSize, len(want))
		ok = false
	}
	sizeBad := !ok && h.DataOffset == do // a wrong DataSize drags IndexOffset along: one symptom per cause
	pend := do + uint64(len(want))
	if cfg.Index == "none" {
		if h.IndexOffset != 0 {
			t.ViolateD(api+"/"+cc+"/header-index-offset", c.detail(log, nil), "%s: WithoutIndex but header IndexOffset = %d", api, h.IndexOffset)
			ok = false
		}
		if uint64(len(out)) != pend {
			t.ViolateD(api+"/"+cc+"/trailing-bytes", c.detail(log, nil), "%s: WithoutIndex but %d bytes follow the payload", api, uint64(len(out))-pend)
			ok = false
		}
		return ok
	}
	io := pend + cfg.IndexPad
	if h.IndexOffset != io && !sizeBad {
		t.ViolateD(api+"/"+cc+"/header-index-offset", c.detail(log, map[string]any{"got": h.IndexOffset, "want": io}),
			"%s: header IndexOffset = %d, want DataOffset+payload+index padding = %d", api, h.IndexOffset, io)
		ok = false
	}
	if uint64(len(out)) <= io {
		t.ViolateD(api+"/"+cc+"/index-missing", c.detail(log, nil), "%s: output ends at %d, before the index at %d", api, len(out), io)
		return false
	}
	pi, err := refcar.ParseIndex(out[io:])
	if err != nil {
		t.ViolateD(api+"/"+cfg.indexKind()+"/index-unparsable", c.detail(log, nil), "%s: bytes at the expected index offset do not parse as an index: %v", api, err)
		return false
	}
	codec := uint64(refcar.CodecMhIndexSorted)
	if cfg.Index == "sorted" {
		codec = refcar.CodecIndexSorted
	}
	if pi.Codec != codec {
		t.ViolateD(api+"/"+cfg.indexKind()+"/index-codec", c.detail(log, nil), "%s: index codec %#x, want %#x", api, pi.Codec, codec)
		ok = false
	}
	if uint64(pi.Size) != uint64(len(out))-io {
		t.ViolateD(api+"/"+cc+"/trailing-bytes", c.detail(log, nil), "%s: %d bytes follow the index", api, uint64(len(out))-io-uint64(pi.Size))
		ok = false
	}
	p, err := refcar.DecodeV1(want, false)
	if err != nil {
		panic("c15: reference cannot decode its own payload: " + err.Error())
	}
	recs := pi.Records()
	// The writer indexes every section it wrote. Identity sections: the property is silent; accept either.
	if !refcar.RecordsEqual(recs, refcar.ExpectedIndexRecords(p, pi.Codec, true)) &&
		!(c.dag.hasIdentity && refcar.RecordsEqual(recs, refcar.ExpectedIndexRecords(p, pi.Codec, false))) {
		t.ViolateD(api+"/"+class+"/index-records", c.detail(log, map[string]any{"records": len(recs), "sections": len(p.Sections)}),
			"%s: index records (%d) are not one per written section (%d) at the section's payload offset", api, len(recs), len(p.Sections))
		ok = false
	}
	if ok {
		t.Cover("v2:index-checked")
	}
	return ok
}

func (c *c15Case) v2Opts(budget int64, hasBudget bool) []carv2.Option {
	cfg := c.d.V2
	var o []carv2.Option
	if cfg.Dup {
		o = append(o, carv2.AllowDuplicatePuts(true))
	}
	if cfg.DataPad > 0 {
		o = append(o, carv2.UseDataPadding(cfg.DataPad))
	}
	if cfg.IndexPad > 0 {
		o = append(o, carv2.UseIndexPadding(cfg.IndexPad))
	}
	switch cfg.Index {
	case "sorted":
		o = append(o, carv2.UseIndexCodec(multicodec.CarIndexSorted))
	case "none":
		o = append(o, carv2.WithoutIndex())
	}
	if cfg.PBChooser {
		o = append(o, carv2.WithTraversalPrototypeChooser(c15PBChooser))
	}
	if hasBudget {
		o = append(o, carv2.MaxTraversalLinks(c.budgetArg(budget)))
	}
	return o
}

// budgetArg is the value handed to MaxTraversalLinks (a uint64): the budget modes at the top of the
// range mean "no limit in practice"; the oracle's own arithmetic stays within int64.
func (c *c15Case) budgetArg(budget int64) uint64 {
	switch c.d.Budget {
	case "2^63":
		return 1 << 63
	case "max-uint64":
		return math.MaxUint64
	}
	return uint64(budget)
}

func (c *c15Case) v2LinkOpt() string {
	if c.d.V2.Dup {
		return "AllowDuplicatePuts"
	}
	return "visit-once"
}

func (c *c15Case) okCover(api string, log [][]byte, hasBudget bool) {
	t := c.t
	t.Cover("ok:" + api)
	t.Events(len(log))
	if len(log) >= 2 && api != "root.WriteCar" {
		t.Cover("multi-block:sel:" + c.kind)
	}
	if c15HasRepeat(log) {
		t.Cover("ok-with-repeated-loads:" + api)
	}
	if hasBudget && !c.perDagBudget && int64(len(log))-1 > c.budget {
		// the converse of a spurious budget error: a traversal that loaded more links than allowed
		t.ViolateD(api+"/link-budget/not-enforced", c.detail(log, map[string]any{"budget": c.budget}),
			"%s succeeded after %d link loads under MaxTraversalLinks=%d", api, len(log)-1, c.budget)
		return
	}
	if hasBudget {
		t.Cover("budget:sufficient")
		t.Cover("budget:sufficient:" + api)
	}
}

func (c *c15Case) runV2(api string) {
	t := c.t
	if c.d.Seed%5 == 0 && c.d.Budget == "" && len(c.dag.nodes) > 2 {
		// a partial DAG behind a lenient link system: one block (not the root) is absent and skipped
		g := 1 + int(uint64(c.d.Seed>>9)%uint64(len(c.dag.nodes)-1))
		if g != c.dag.root {
			c.dag.gone = g
			defer func() { c.dag.gone = 0 }()
			t.Cover("v2:partial-dag-with-skipme")
		}
	}
	chooser := traversal.LinkTargetNodePrototypeChooser(c15AnyChooser)
	if c.d.V2.PBChooser {
		chooser = c15PBChooser
	}
	var budget int64
	hasBudget := false
	if c.d.Budget != "" {
		l, err := c15RefLinkLoads(c.dag, c.sel, !c.d.V2.Dup, chooser)
		if err != nil {
			t.Inconclusive("reference walk failed (%v); budget case skipped", err)
			return
		}
		budget, hasBudget = c15ResolveBudget(c.d.Budget, l)
	}
	c.budget = budget
	opts := c.v2Opts(budget, hasBudget)
	log := &c15Log{}
	ls := c.dag.linkSystem(log)
	root := c.dag.cidOf(c.dag.root)
	roots := [][]byte{c.dag.nodes[c.dag.root].cid}
	linkOpt := c.v2LinkOpt()
	t.Cover("run:" + api)

	switch api {
	case "v2.NewSelectiveWriter.WriteTo":
		w, err := carv2.NewSelectiveWriter(bg, &ls, root, c.sel, opts...)
		pass1 := log.take()
		if err != nil {
			c.onError("v2.NewSelectiveWriter", linkOpt, err, pass1, budget, hasBudget)
			return
		}
		var buf bytes.Buffer
		n, err := w.WriteTo(lab.PlainWriter{W: &buf})
		pass2 := log.take()
		if err != nil {
			if n != int64(buf.Len()) {
				t.ViolateD(api+"/failed-traversal/returned-count", c.detail(pass2, map[string]any{"returned": n, "written": buf.Len(), "error": err.Error()}),
					"%s failed (%v) after writing %d bytes but returned %d", api, err, buf.Len(), n)
			}
			t.Cover("failed-traversal:count-checked")
			c.onError(api, linkOpt, err, pass2, budget, hasBudget)
			return
		}
		class := linkOpt + "+" + c15Shape(pass2)
		good := c.checkV2(api, class, buf.Bytes(), pass2)
		if n != int64(buf.Len()) {
			t.ViolateD(api+"/"+class+"/returned-count", c.detail(pass2, map[string]any{"returned": n, "written": buf.Len()}),
				"%s returned %d but wrote %d bytes", api, n, buf.Len())
			good = false
		}
		if len(pass1) != len(pass2) {
			t.Cover("v2:counting-and-writing-pass-loads-differ")
		}
		// the same into a FILE that already holds a preamble, its write position behind it (a destination
		// that can seek): the archive goes where the destination stands, byte for byte what the buffer got
		if good && c.d.Seed%3 == 0 {
			if w3, err := carv2.NewSelectiveWriter(bg, &ls, root, c.sel, opts...); err == nil {
				log.take()
				fp := filepath.Join(lab.TempDir("c15f"), "dest.bin")
				defer os.RemoveAll(filepath.Dir(fp))
				pre := []byte("16-byte preamble")
				f, ferr := os.OpenFile(fp, os.O_RDWR|os.O_CREATE|os.O_TRUNC, 0o644)
				if ferr != nil {
					panic(ferr)
				}
				f.Write(pre)
				n3, werr := w3.WriteTo(f)
				f.Close()
				fileLog := log.take()
				got, _ := os.ReadFile(fp)
				if werr != nil {
					t.ViolateD(api+"(file behind a preamble)/"+class+"/unexpected-error", c.detail(pass2, map[string]any{"error": werr.Error()}), "%s into a file failed: %v", api, werr)
				} else if len(got) != len(pre)+buf.Len() || !bytes.Equal(got[:len(pre)], pre) || n3 != int64(buf.Len()) {
					t.ViolateD(api+"(file behind a preamble)/"+class+"/position-or-count", c.detail(pass2, map[string]any{"returned": n3, "file_len": len(got), "want_len": len(pre) + buf.Len()}),
						"%s into a file positioned behind a %d-byte preamble: returned %d, the file has %d bytes (want %d, the preamble intact)", api, len(pre), n3, len(got), len(pre)+buf.Len())
				} else {
					// what follows the preamble is judged like any other output (the order of index records that
					// share a digest is not fixed, so the two outputs need not be byte-identical)
					c.checkV2(api+"(file behind a preamble)", class, got[len(pre):], fileLog)
				}
				t.Cover("writeto-a-file-behind-a-preamble")
			}
		}
		// one Writer, a failed attempt (the destination breaks midway), then another attempt on a healthy
		// destination: the second output is the archive again, whatever the first attempt left behind
		if good && buf.Len() > 2 {
			if w2, err := carv2.NewSelectiveWriter(bg, &ls, root, c.sel, opts...); err == nil {
				log.take()
				_, ferr := w2.WriteTo(&c15Quota{quota: buf.Len() / 2})
				log.take()
				var again bytes.Buffer
				n2, rerr := w2.WriteTo(lab.PlainWriter{W: &again})
				retryLog := log.take()
				if ferr == nil {
					t.ViolateD(api+"/failing-destination/returned-nil", c.detail(pass2, nil), "%s returned nil although the destination failed after half of the bytes", api)
				} else if rerr != nil && again.Len() == 0 {
					t.Cover("writer-reuse-refused") // refusing to reuse the Writer is fine: nothing was announced or written
				} else if rerr != nil {
					t.ViolateD(api+"/retry-after-failed-attempt/announced-then-failed", c.detail(pass2, map[string]any{"retry_error": fmt.Sprint(rerr), "written": again.Len()}),
						"%s on the same Writer after a failed attempt wrote %d bytes (a header announcing the sizes among them) to a healthy destination and then failed: %v", api, again.Len(), rerr)
				} else {
					// the second output is judged like any other: header, sizes, blocks of ITS traversal, index
					if c.checkV2(api+"(retry after a failed attempt)", class, again.Bytes(), retryLog) && n2 != int64(again.Len()) {
						t.ViolateD(api+"/retry-after-failed-attempt/returned-count", c.detail(retryLog, map[string]any{"returned": n2, "written": again.Len()}), "%s returned %d but wrote %d bytes", api, n2, again.Len())
					}
				}
				t.Cover("failing-destination-probes")
				t.Cover("writer-reused-after-failed-attempt")
			}
		}
		if good {
			c.okCover(api, pass2, hasBudget)
		}
	case "v2.TraverseV1":
		var buf bytes.Buffer
		n, err := carv2.TraverseV1(bg, &ls, root, c.sel, lab.PlainWriter{W: &buf}, opts...)
		lg := log.take()
		if err != nil {
			// a traversal that fails midway has already streamed sections out: the returned count is
			// still "the bytes written"
			if n != uint64(buf.Len()) {
				t.ViolateD(api+"/failed-traversal/returned-count", c.detail(lg, map[string]any{"returned": n, "written": buf.Len(), "error": err.Error()}),
					"%s failed (%v) after writing %d bytes but returned %d", api, err, buf.Len(), n)
			}
			t.Cover("failed-traversal:count-checked")
			c.onError(api, linkOpt, err, lg, budget, hasBudget)
			return
		}
		class := linkOpt + "+" + c15Shape(lg)
		_, good := c.checkPayload(api, class, buf.Bytes(), roots, lg)
		if n != uint64(buf.Len()) {
			t.ViolateD(api+"/"+class+"/returned-count", c.detail(lg, map[string]any{"returned": n, "written": buf.Len()}),
				"%s returned %d but wrote %d bytes", api, n, buf.Len())
			good = false
		}
		if good {
			c.okCover(api, lg, hasBudget)
		}
		for _, q := range c15Quotas(buf.Len()) {
			qw := &c15Quota{quota: q}
			n, err := carv2.TraverseV1(bg, &ls, root, c.sel, qw, opts...)
			if err == nil {
				t.ViolateD(api+"/failing-destination/returned-nil", c.detail(lg, map[string]any{"destination_accepts": q, "accepted": qw.n, "returned": n}),
					"%s returned nil although the destination failed after %d of %d bytes", api, qw.n, buf.Len())
			}
			log.take()
			t.Cover("failing-destination-probes")
		}
	case "v2.TraverseToFile":
		dir := lab.TempDir("c15")
		defer os.RemoveAll(dir)
		p := filepath.Join(dir, "out.car")
		if c.d.Seed%2 == 0 {
			// the destination already holds a larger file (an earlier export): it must be replaced
			mustWrite(p, bytes.Repeat([]byte{0xEE, 0x01, 0x00}, 30000))
			t.Cover("traverse-to-file-over-existing-larger-file")
		}
		err := carv2.TraverseToFile(bg, &ls, root, c.sel, p, opts...)
		lg := log.take()
		if err != nil {
			c.onError(api, linkOpt, err, lg, budget, hasBudget)
			return
		}
		out, rerr := os.ReadFile(p)
		if rerr != nil {
			t.Violatef(api+"/"+c.d.V2.short()+"/no-file", "%s returned nil but the destination cannot be read: %v", api, rerr)
			return
		}
		if c.checkV2(api, linkOpt+"+"+c15Shape(lg), out, lg) {
			c.okCover(api, lg, hasBudget)
		}
	}
}

// c15Quota is a destination that accepts quota bytes and then fails.
type c15Quota struct{ n, quota int }

func (q *c15Quota) Write(p []byte) (int, error) {
	if q.n+len(p) > q.quota {
		k := q.quota - q.n
		if k < 0 {
			k = 0
		}
		q.n += k
		return k, errors.New("injected: no space left on device")
	}
	q.n += len(p)
	return len(p), nil
}

func c15Tail(b []byte, from int) []byte {
	if from < 0 || from > len(b) {
		return nil
	}
	if from > 16 {
		from -= 16
	}
	end := from + 96
	if end > len(b) {
		end = len(b)
	}
	return b[from:end]
}

func c15Quotas(total int) []int {
	if total < 2 {
		return nil
	}
	return []int{total / 2, total - 1}
}

// checkCallbacks: oracle (d). Offset is taken to be the archive offset of the
// section's length varint and Size the whole section (varint + CID + data):
// that is what the code computes (util.LdSize(cid, data)); the API does not
// document it, so the assertion is that [Offset, Offset+Size) of the output IS
// the section of that CID, and that callbacks are one per section, in order.
func (c *c15Case) checkCallbacks(api, class string, out []byte, cbs []carv1.Block, log [][]byte) bool {
	t := c.t
	p, err := refcar.DecodeV1(out, false)
	if err != nil {
		return false // already reported by checkPayload
	}
	if len(cbs) != len(p.Sections) {
		t.ViolateD(api+"/"+class+"/callback-count", c.detail(log, map[string]any{"callbacks": len(cbs), "sections": len(p.Sections)}),
			"%s: %d block callbacks for %d sections written", api, len(cbs), len(p.Sections))
		return false
	}
	ok := true
	for i, cb := range cbs {
		s := p.Sections[i]
		if !bytes.Equal(cb.BlockCID.Bytes(), s.Cid.Raw) || !bytes.Equal(cb.Data, s.Data) {
			t.ViolateD(api+"/"+class+"/callback-block", c.detail(log, map[string]any{"index": i}), "%s: callback %d reports a block other than section %d of the output", api, i, i)
			ok = false
			continue
		}
		if cb.Offset != s.Offset {
			t.ViolateD(api+"/"+class+"/callback-offset", c.detail(log, map[string]any{"index": i, "reported": cb.Offset, "section_start": s.Offset, "data_start": s.DataOff}),
				"%s: callback %d reports Offset %d, the section starts at %d", api, i, cb.Offset, s.Offset)
			ok = false
		}
		if cb.Size != s.End-s.Offset {
			t.ViolateD(api+"/"+class+"/callback-size", c.detail(log, map[string]any{"index": i, "reported": cb.Size, "section_size": s.End - s.Offset, "data_size": len(s.Data)}),
				"%s: callback %d reports Size %d, the section has %d bytes", api, i, cb.Size, s.End-s.Offset)
			ok = false
		}
		if cb.Offset+cb.Size <= uint64(len(out)) && cb.Offset+cb.Size >= cb.Offset &&
			!bytes.Equal(out[cb.Offset:cb.Offset+cb.Size], refcar.EncodeSection(s.Cid.Raw, s.Data)) && cb.Offset == s.Offset && cb.Size == s.End-s.Offset {
			panic("c15: reference section table inconsistent")
		}
		t.Cover("callbacks-checked")
	}
	return ok
}

func (c *c15Case) runRootSelective() {
	t := c.t
	d := c.d
	var budget int64
	hasBudget := false
	if d.Budget != "" && !d.Root.TwoDags {
		l, err := c15RefLinkLoads(c.dag, c.sel, d.Root.Once, c15PBChooser)
		if err != nil {
			t.Inconclusive("reference walk failed (%v); budget case skipped", err)
			return
		}
		budget, hasBudget = c15ResolveBudget(d.Budget, l)
	}
	if d.Budget == "per-dag-max" && d.Root.TwoDags {
		// two Dags under one MaxTraversalLinks: the budget is per traversal, so the larger of the two
		// needs is enough for both
		all, _ := c15Selector(c.dag, "all", 0, 0)
		l1, e1 := c15RefLinkLoads(c.dag, c.sel, d.Root.Once, c15PBChooser)
		l2, e2 := c15RefLinkLoadsFrom(c.dag, c.second(), all, d.Root.Once, c15PBChooser)
		if e1 != nil || e2 != nil {
			t.Inconclusive("reference walk failed (%v, %v); budget case skipped", e1, e2)
			return
		}
		budget, hasBudget = int64(max(l1, l2)), true
		c.perDagBudget = true
		if l1 > 0 && l2 > 0 {
			t.Cover("root:two-dags-under-a-per-dag-budget")
		}
	}
	var opts []carv1.Option
	linkOpt := "revisit-links"
	if d.Root.Once {
		opts = append(opts, carv1.TraverseLinksOnlyOnce())
		linkOpt = "TraverseLinksOnlyOnce"
	}
	c.budget = budget
	if hasBudget {
		opts = append(opts, carv1.MaxTraversalLinks(c.budgetArg(budget)))
	}
	rootCid := c.dag.cidOf(c.dag.root)
	dags := []carv1.Dag{{Root: rootCid, Selector: c.sel}}
	dagIdx, dagSel := []int{c.dag.root}, []datamodel.Node{c.sel}
	roots := [][]byte{c.dag.nodes[c.dag.root].cid}
	if d.Root.TwoDags {
		i := c.second()
		all, _ := c15Selector(c.dag, "all", 0, 0)
		dagIdx, dagSel = append(dagIdx, i), append(dagSel, all)
		dags = append(dags, carv1.Dag{Root: c.dag.cidOf(i), Selector: all})
		roots = append(roots, c.dag.nodes[i].cid)
		t.Cover("root:two-dags")
	}
	log := &c15Log{}
	store := c15Store{d: c.dag, log: log, twin: c.d.Seed%2 == 0}
	if store.twin {
		t.Cover("root:store-hands-blocks-out-under-a-twin-cid")
	}
	want := func(name string) bool { return d.Only == "" || d.Only == name }

	var writeOut []byte
	writeOK := false
	if want("root.SelectiveCar.Write") || want("root.SelectiveCar.Prepare+Dump") {
		api := "root.SelectiveCar.Write"
		t.Cover("run:" + api)
		sc := carv1.NewSelectiveCar(bg, store, dags, opts...)
		var buf bytes.Buffer
		var cbs []carv1.Block
		err := sc.Write(lab.PlainWriter{W: &buf}, func(b carv1.Block) error {
			b.Data = append([]byte{}, b.Data...)
			cbs = append(cbs, b)
			return nil
		})
		lg := log.take()
		if err != nil {
			c.onError(api, linkOpt, err, lg, budget, hasBudget)
		} else {
			class := linkOpt + "+" + c15Shape(lg)
			_, good := c.checkPayload(api, class, buf.Bytes(), roots, lg)
			if good && !hasBudget {
				// every Dag is traversed in its own right: what a traversal of (root, selector) loads, Dag by
				// Dag, must have been loaded here — also when an earlier Dag already emitted a later Dag's root
				loaded := map[string]bool{}
				for _, k := range lg {
					loaded[string(k)] = true
				}
				for di, dg := range dagIdx {
					ref, rerr := c15RefLoads(c.dag, dg, dagSel[di], d.Root.Once, c15PBChooser)
					if rerr != nil {
						break // partial DAGs: the reference walk has no lenient loader
					}
					for _, k := range ref {
						if !loaded[string(k)] {
							t.ViolateD(api+"/"+class+"/dag-not-fully-traversed", c.detail(lg, map[string]any{"dag": di, "missing": fmt.Sprintf("%x", k)}),
								"%s: a traversal of Dag %d (its root, its selector) loads a block that was never loaded and is not in the output", api, di)
							good = false
							break
						}
					}
					t.Cover("dags-compared-with-a-reference-walk")
				}
			}
			if good {
				good = c.checkCallbacks(api, class, buf.Bytes(), cbs, lg)
				writeOut, writeOK = buf.Bytes(), true
			}
			if good {
				c.okCover(api, lg, hasBudget)
			}
			for _, q := range c15Quotas(buf.Len()) {
				qw := &c15Quota{quota: q}
				if err := carv1.NewSelectiveCar(bg, store, dags, opts...).Write(qw); err == nil {
					t.ViolateD(api+"/failing-destination/returned-nil", c.detail(lg, map[string]any{"destination_accepts": q, "accepted": qw.n}),
						"Write returned nil although the destination failed after %d of %d bytes", qw.n, buf.Len())
				}
				log.take()
				t.Cover("failing-destination-probes")
			}
		}
	}
	if want("root.SelectiveCar.Prepare+Dump") {
		api := "root.SelectiveCar.Prepare"
		t.Cover("run:root.SelectiveCar.Prepare+Dump")
		sc := carv1.NewSelectiveCar(bg, store, dags, opts...)
		var cbs []carv1.Block
		var cbs2 []carv1.Block // a second callback: every callback sees every block with the same, true coordinates
		prep, err := sc.Prepare(func(b carv1.Block) error {
			b.Data = append([]byte{}, b.Data...)
			cbs = append(cbs, b)
			return nil
		}, func(b carv1.Block) error {
			b.Data = append([]byte{}, b.Data...)
			cbs2 = append(cbs2, b)
			return nil
		})
		lg := log.take()
		if err != nil {
			c.onError(api, linkOpt, err, lg, budget, hasBudget)
			return
		}
		class := linkOpt + "+" + c15Shape(lg)
		good := true
		wantBlocks := c.want(lg)
		// Cids() and Header() announce what Dump will write
		cids := prep.Cids()
		same := len(cids) == len(wantBlocks)
		for i := 0; same && i < len(cids); i++ {
			same = bytes.Equal(cids[i].Bytes(), wantBlocks[i].Cid)
		}
		if !same {
			t.ViolateD(api+"/"+class+"/cids", c.detail(lg, map[string]any{"got": len(cids), "want": len(wantBlocks)}),
				"%s: Cids() is not the list of distinct loaded blocks in first-visit order (%d vs %d)", api, len(cids), len(wantBlocks))
			good = false
		}
		if hd := prep.Header(); hd.Version != 1 || !lab.CidsEqual(hd.Roots, roots) {
			t.ViolateD(api+"/"+class+"/header", c.detail(lg, nil), "%s: Header() = %+v, want version 1 and the dag roots", api, hd)
			good = false
		}
		api = "root.SelectiveCar.Dump"
		var buf bytes.Buffer
		err = prep.Dump(bg, lab.PlainWriter{W: &buf})
		dumpLoads := log.take()
		if err != nil {
			t.ViolateD(api+"/"+class+"/unexpected-error", c.detail(lg, map[string]any{"error": err.Error()}), "%s failed after a successful Prepare: %v", api, err)
			return
		}
		if _, pok := c.checkPayload(api, class, buf.Bytes(), roots, lg); !pok {
			good = false
		} else if !c.checkCallbacks(api, class, buf.Bytes(), cbs, lg) || !c.checkCallbacks(api+"(second callback)", class, buf.Bytes(), cbs2, lg) {
			good = false
		}
		if prep.Size() != uint64(buf.Len()) {
			t.ViolateD("root.SelectiveCar.Prepare/"+class+"/announced-size", c.detail(lg, map[string]any{"announced": prep.Size(), "written": buf.Len()}),
				"Prepare().Size() = %d but Dump wrote %d bytes", prep.Size(), buf.Len())
			good = false
		}
		if writeOK {
			if !bytes.Equal(writeOut, buf.Bytes()) {
				t.ViolateD(api+"/"+class+"/differs-from-Write", c.detail(lg, nil), "Dump and Write produce different bytes (first difference at %d; %d vs %d bytes)", lab.FirstDiff(buf.Bytes(), writeOut), buf.Len(), len(writeOut))
				good = false
			} else {
				t.Cover("dump-equals-write")
			}
			if prep.Size() != uint64(len(writeOut)) {
				t.ViolateD("root.SelectiveCar.Prepare/"+class+"/announced-size-vs-Write", c.detail(lg, map[string]any{"announced": prep.Size(), "written": len(writeOut)}),
					"Prepare().Size() = %d but Write wrote %d bytes", prep.Size(), len(writeOut))
				good = false
			}
		}
		if good {
			c.okCover("root.SelectiveCar.Prepare+Dump", lg, hasBudget)
			t.Events(len(dumpLoads))
		}
		// a destination that fails before everything is out: Dump must say so (a nil return announces
		// that Size() bytes were written)
		for _, q := range c15Quotas(buf.Len()) {
			qw := &c15Quota{quota: q}
			if err := prep.Dump(bg, qw); err == nil {
				t.ViolateD("root.SelectiveCar.Dump/failing-destination/returned-nil", c.detail(lg, map[string]any{"destination_accepts": q, "announced": prep.Size(), "accepted": qw.n}),
					"Dump returned nil although the destination failed after %d of %d bytes", qw.n, prep.Size())
			}
			log.take()
			t.Cover("failing-destination-probes")
		}
	}
}

// second picks the second root for two-dag / two-root cases: the root again, or any other node.
func (c *c15Case) second() int {
	r := gen.Rand(c.d.Seed ^ 0x2d)
	if r.Intn(2) == 0 {
		return c.dag.root
	}
	return r.Intn(len(c.dag.nodes))
}

func (c *c15Case) runWriteCar() {
	t := c.t
	api := "root.WriteCar"
	t.Cover("run:" + api)
	log := &c15Log{}
	g := c15Getter{d: c.dag, log: log}
	rootIdx := []int{c.dag.root}
	if c.d.Root.TwoDags {
		rootIdx = append(rootIdx, c.second())
	}
	var roots [][]byte
	var rcids []cid.Cid
	for _, i := range rootIdx {
		roots = append(roots, c.dag.nodes[i].cid)
		rcids = append(rcids, c.dag.cidOf(i))
	}
	var wopts []merkledag.WalkOption
	linkOpt := "default"
	if c.d.Root.SkipRoot {
		wopts = append(wopts, merkledag.SkipRoot())
		linkOpt = "SkipRoot"
		t.Cover("root.WriteCar:SkipRoot")
	}
	var buf bytes.Buffer
	err := carv1.WriteCar(bg, g, rcids, lab.PlainWriter{W: &buf}, wopts...)
	lg := log.take()
	defer func() {
		// the same walk through WriteCarWithWalker with a WalkFunc that refuses (returns an error for) some
		// nodes and a walk that tolerates the refusal: a refused node was loaded by the traversal like any
		// other, so it is in the output; only what lies below it may be missing
		refuse := map[string]bool{}
		rr := gen.Rand(c.d.Seed ^ 0x3a1c)
		for _, n := range c.dag.nodes {
			if rr.Intn(4) == 0 {
				refuse[string(n.cid)] = true
			}
		}
		if len(refuse) == 0 {
			return
		}
		walk := func(nd format.Node) ([]*format.Link, error) {
			if refuse[string(nd.Cid().Bytes())] {
				return nil, fmt.Errorf("the links of this node are not to be followed")
			}
			return nd.Links(), nil
		}
		wapi := "root.WriteCarWithWalker(refusing)"
		var wbuf bytes.Buffer
		werr := carv1.WriteCarWithWalker(bg, g, rcids, lab.PlainWriter{W: &wbuf}, walk, append(append([]merkledag.WalkOption{}, wopts...), merkledag.IgnoreErrors())...)
		wlg := log.take()
		t.Cover("run:" + wapi)
		if werr != nil {
			t.ViolateD(wapi+"/"+linkOpt+"/unexpected-error", c.detail(wlg, map[string]any{"error": werr.Error()}), "%s with IgnoreErrors failed on a complete DAG: %v", wapi, werr)
			return
		}
		c.checkPayload(wapi, linkOpt+"+"+c15WalkShape(wlg), wbuf.Bytes(), roots, wlg)
	}()
	c.selS = fmt.Sprintf("n/a (WriteCar walks all links of %d roots)", len(roots))
	if err != nil {
		t.ViolateD(api+"/"+linkOpt+"+"+c15WalkShape(lg)+"/unexpected-error", c.detail(lg, map[string]any{"error": err.Error()}), "%s failed on a complete DAG: %v", api, err)
		return
	}
	if _, ok := c.checkPayload(api, linkOpt+"+"+c15WalkShape(lg), buf.Bytes(), roots, lg); ok {
		c.okCover(api, lg, false)
	}
}

func runC15(t *mon.T, raw json.RawMessage) {
	var d c15Desc
	if err := json.Unmarshal(raw, &d); err != nil {
		panic(err)
	}
	dag := c15MakeDag(d.Seed)
	sel, selS := c15Selector(dag, d.Sel, d.SelDepth, d.Seed^0x5e1)
	c := &c15Case{t: t, d: d, dag: dag, sel: sel, selS: selS, kind: strings.TrimSuffix(d.Sel, "+all")}

	// workload coverage
	t.Cover("sel:" + strings.TrimSuffix(d.Sel, "+all"))
	t.Cover(fmt.Sprintf("dag:depth:%d", dag.depth))
	if dag.hasRepeated {
		t.Cover("dag:repeated-link")
	}
	if dag.hasShared {
		t.Cover("dag:shared-subtree")
	}
	if dag.hasIdentity {
		t.Cover("dag:identity-link")
	}
	if dag.hasTwins {
		t.Cover("dag:same-bytes-under-two-cids")
	}
	if len(dag.codecs) >= 2 {
		t.Cover("dag:mixed-codecs")
	}
	if dag.hasPB {
		t.Cover("dag:dag-pb")
	}
	if len(dag.reachable) < len(dag.nodes) {
		t.Cover("dag:store-holds-unreachable-blocks")
	}
	if len(dag.reachable) >= 2 {
		t.Nontrivial()
	}
	if d.V2.Index == "none" {
		t.Cover("v2:without-index")
	} else {
		t.Cover("v2:with-index")
		if d.V2.Index == "sorted" {
			t.Cover("v2:index-codec:sorted")
		} else {
			t.Cover("v2:index-codec:multihash-sorted")
		}
	}
	if d.V2.DataPad > 0 {
		t.Cover("v2:data-padding")
	}
	if d.V2.IndexPad > 0 && d.V2.Index != "none" {
		t.Cover("v2:index-padding")
	}
	if d.V2.Dup {
		t.Cover("v2:AllowDuplicatePuts")
	}
	if d.Root.Once {
		t.Cover("root:TraverseLinksOnlyOnce")
	}
	if d.Budget != "" {
		t.Cover("budget:" + d.Budget)
	}

	want := func(name string) bool { return d.Only == "" || d.Only == name }
	for _, api := range c15Writers[:3] {
		if want(api) {
			c.runV2(api)
		}
	}
	if want("root.SelectiveCar.Write") || want("root.SelectiveCar.Prepare+Dump") {
		c.runRootSelective()
	}
	if want("root.WriteCar") {
		c.runWriteCar()
	}
	t.Sample(map[string]any{"selector": selS, "dag_depth": dag.depth, "dag_nodes": len(dag.nodes), "reachable": len(dag.reachable),
		"repeated_link": dag.hasRepeated, "shared_subtree": dag.hasShared, "v2": d.V2, "root": d.Root, "budget": d.Budget})
}

func genC15(g *mon.G) {
	r := gen.Rand(g.Seed)
	n := g.Pick(800, 15000)
	dpads := []uint64{0, 0, 1, 7, 1413, 4096, 4097, 8141, 12289}
	ipads := []uint64{0, 0, 1, 1024, 4097, 10000}
	sels := []string{"all", "all", "all", "all", "depth", "depth", "depth", "fields", "fields", "fields+all"}
	budgets := []string{"exact", "minus1", "half", "ample", "zero", "2^63", "max-uint64", "max-int64"}
	for i := 0; i < n; i++ {
		d := c15Desc{Seed: r.Int63(), Sel: sels[r.Intn(len(sels))]}
		if d.Sel == "depth" {
			d.SelDepth = 1 + r.Intn(8)
		}
		d.V2 = c15V2Cfg{Dup: r.Intn(3) == 0, DataPad: dpads[r.Intn(len(dpads))], IndexPad: ipads[r.Intn(len(ipads))],
			Index: []string{"", "", "sorted", "none"}[r.Intn(4)], PBChooser: r.Intn(3) == 0}
		d.Root = c15RootCfg{Once: r.Intn(2) == 0, SkipRoot: false}
		if r.Intn(3) == 0 {
			d.Budget = budgets[r.Intn(len(budgets))]
		} else {
			d.Root.TwoDags = r.Intn(3) == 0
			if d.Root.TwoDags && r.Intn(2) == 0 {
				d.Budget = "per-dag-max"
			}
		}
		g.Emit(d)
	}
}

func init() {
	Register(&mon.Check{
		ID:    "C15",
		Level: "exploration",
		Rule:  "cases = seeded (DAG, selector, v2 options, root-module options, link-budget placement); each case runs six writer paths (v2 NewSelectiveWriter+WriteTo, TraverseV1, TraverseToFile; root SelectiveCar.Write, Prepare+Dump, WriteCar, and WriteCarWithWalker with a WalkFunc refusing a quarter of the nodes under merkledag.IgnoreErrors) against a recording store; expected output = reference encoding of header + distinct CIDs of the writing traversal's load log in first-visit order; events_observed = logged block loads of successful runs; non-trivial = ≥ 2 blocks reachable from the root; distinct = distinct descriptor",
		Assumptions: []string{
			"reference codec refcar decodes/encodes the outputs; CIDs of generated blocks are computed with refcar (stdlib hashes)",
			"go-ipld-prime's walker and codecs are dependencies, not code under test; a reference walk is used only to place the link budget, never as an oracle",
			"a budget error is legitimate exactly when the load log of that traversal holds `budget` link loads after the root load",
			"block callback Offset/Size are modelled as section start / whole section length (what the code computes; undocumented)",
			"identity-CID links are served by the caller's store like any other block; for DAGs holding them the index may or may not list the identity sections (property silent)",
			"root-module budget cases use a single Dag (the budget is per Dag and the log has no Dag boundary marker)",
		},
		Gen: genC15,
		Run: runC15,
		MinCover: map[string]int{"failed-traversal:count-checked": 20,
			"ok:v2.NewSelectiveWriter.WriteTo": 40, "ok:v2.TraverseV1": 40, "ok:v2.TraverseToFile": 40,
			"ok:root.SelectiveCar.Write": 40, "ok:root.SelectiveCar.Prepare+Dump": 40, "ok:root.WriteCar": 40,
			"dag:repeated-link": 30, "dag:shared-subtree": 30, "dag:mixed-codecs": 30,
			"sel:all": 20, "sel:depth": 20, "sel:fields": 20,
			"multi-block:sel:all": 100, "multi-block:sel:depth": 50, "multi-block:sel:fields": 50,
			"v2:with-index": 20, "v2:without-index": 20, "v2:data-padding": 20, "v2:index-padding": 20,
			"v2:index-codec:sorted": 10, "v2:index-codec:multihash-sorted": 10, "v2:index-checked": 40,
			"budget:exceeded": 10, "budget:sufficient": 10,
			"ok-with-repeated-loads:v2.TraverseV1": 5, "ok-with-repeated-loads:root.SelectiveCar.Write": 5,
			"callbacks-checked": 100, "dump-equals-write": 40,
		},
	})
}
