package checks

import (
	"bytes"
	"encoding/json"
	"errors"
	"fmt"
	"io"
	"math"
	"os"
	"path/filepath"
	"sort"
	"strings"

	blocks "github.com/ipfs/go-block-format"
	format "github.com/ipfs/go-ipld-format"
	carv2 "github.com/ipld/go-car/v2"
	"github.com/ipld/go-car/v2/blockstore"
	"github.com/ipld/go-car/v2/index"
	"github.com/ipld/go-car/v2/storage"

	"carlab/internal/gen"
	"carlab/internal/iofault"
	"carlab/internal/lab"
	"carlab/internal/mon"
	"carlab/internal/refcar"
)

// ---------------------------------------------------------------- alphabet and configurations

type c04Alpha struct {
	names  []string
	blocks map[string]refcar.Block
}

func c04Alphabet() c04Alpha {
	sha := func(d []byte) []byte { h, _ := refcar.Hash(0x12, d); return h }
	dA := []byte("block A data")
	dB := []byte("block B, a little longer than block A")
	a := c04Alpha{blocks: map[string]refcar.Block{}}
	add := func(n string, c, d []byte) {
		a.names = append(a.names, n)
		a.blocks[n] = refcar.Block{Cid: c, Data: d}
	}
	add("A", refcar.MakeCidV1(0x55, 0x12, sha(dA)), dA)
	add("A'", refcar.MakeCidV1(0x70, 0x12, sha(dA)), dA)                                             // same multihash, other codec
	add("B", refcar.MakeCidV1(0x55, 0x12, sha(dB)), dB)                                              //
	add("C", refcar.MakeCidV1(0x55, 0x1e, sha(dB)), []byte("C: B's digest under another hash code")) // equal digest, other hash function (synthetic)
	add("IA", refcar.MakeCidV1(0x55, 0x00, sha(dA)), sha(dA))                                        // identity CID whose digest is A's digest
	add("I", refcar.MakeCidV1(0x55, 0x00, []byte("hello")), []byte("hello"))
	add("I0", refcar.MakeCidV1(0x55, 0x00, nil), nil)
	dl := bytes.Repeat([]byte{0xAB}, 64)
	add("L", refcar.MakeCidV1(0x55, 0x13, dl), []byte("L has a 68-byte CID")) // over-long when MaxIndexCidSize is small
	il := bytes.Repeat([]byte("i"), 200)                                      // ≥ 128 bytes: the digest length needs a two-byte varint
	add("IL", refcar.MakeCidV1(0x55, 0x00, il), il)                           // over-long identity CID when MaxIndexCidSize is small
	return a
}

var c04Configs = []lab.Cfg{
	{},
	{WholeCID: true},
	{AllowDup: true},
	{StoreID: true},
	{StoreID: true, WholeCID: true},
	{V1: true},
	{V1: true, StoreID: true, AllowDup: true},
	{MaxCid: 36}, // exactly the length of A, A', B, C and IA: at the limit is within the limit
	{DataPad: 7, IndexPad: 5, Sorted: true},
	{MaxCid: 36, StoreID: true, WholeCID: true},
	{MaxCid: math.MaxUint64}, // "no limit"
	{MaxCid: 35},             // one byte short of A, A', B, C, IA: their multihash (34 bytes) fits, their CID does not
	{IndexPad: 1 << 63},      // an index padding no file can hold: Finalize cannot succeed, and is terminal all the same
	// thorough extras
	{V1: true, WholeCID: true},
	{AllowDup: true, WholeCID: true, StoreID: true, DataPad: 1},
	{Sorted: true, StoreID: true},
	{V1: true, MaxCid: 36},
	{V1: true, DataPad: 1024},
	{MaxCid: 1 << 63, StoreID: true},
}

// ops: "P:<name>" put, "M:<n1>,<n2>,.." putmany, "F" finalize, "R" finalize-readonly, "X" close, "D" discard
func c04Ops(api string, a c04Alpha) []string {
	var ops []string
	for _, n := range a.names {
		ops = append(ops, "P:"+n)
	}
	if api == "blockstore" || api == "blockstore-file" {
		ops = append(ops, "M:A,A',B", "M:I,L,C", "F", "R", "X", "D")
	} else {
		ops = append(ops, "F")
	}
	return ops
}

// ---------------------------------------------------------------- store adapters

type c04Store interface {
	Put(b refcar.Block) error
	PutMany(bs []refcar.Block) error
	Has(c []byte) (bool, error)
	Get(c []byte) ([]byte, error)
	GetSize(c []byte) (int, error) // storage: via GetStream
	Keys() ([]string, error)       // blockstore only (nil,nil for storage)
	Roots() ([][]byte, error)
	Finalize() error
	FinalizeReadOnly() error
	Close() error
	Discard()
	FileBytes() []byte
	Cleanup()
}

type c04BS struct {
	bs   *blockstore.ReadWrite
	path string
	dir  string
	f    *os.File // set when the caller owns the file (OpenReadWriteFile)
}

func (s *c04BS) Put(b refcar.Block) error { return s.bs.Put(bg, lab.ToBlock(b)) }
func (s *c04BS) PutMany(bs []refcar.Block) error {
	var l []blocks.Block
	for _, b := range bs {
		l = append(l, lab.ToBlock(b))
	}
	return s.bs.PutMany(bg, l)
}
func (s *c04BS) Has(c []byte) (bool, error) { return s.bs.Has(bg, lab.ToCid(c)) }
func (s *c04BS) Get(c []byte) ([]byte, error) {
	b, err := s.bs.Get(bg, lab.ToCid(c))
	if err != nil {
		return nil, err
	}
	return b.RawData(), nil
}
func (s *c04BS) GetSize(c []byte) (int, error) { return s.bs.GetSize(bg, lab.ToCid(c)) }
func (s *c04BS) Keys() ([]string, error) {
	ch, err := s.bs.AllKeysChan(bg)
	if err != nil {
		return nil, err
	}
	keys := []string{}
	for c := range ch {
		keys = append(keys, string(c.Bytes()))
	}
	sort.Strings(keys)
	return keys, nil
}
func (s *c04BS) Roots() ([][]byte, error) {
	rs, err := s.bs.Roots()
	if err != nil {
		return nil, err
	}
	out := [][]byte{}
	for _, r := range rs {
		out = append(out, r.Bytes())
	}
	return out, nil
}
func (s *c04BS) Finalize() error         { return s.bs.Finalize() }
func (s *c04BS) FinalizeReadOnly() error { return s.bs.FinalizeReadOnly() }
func (s *c04BS) Close() error            { return s.bs.Close() }
func (s *c04BS) Discard()                { s.bs.Discard() }
func (s *c04BS) FileBytes() []byte       { return mustRead(s.path) }
func (s *c04BS) Cleanup() {
	s.bs.Discard()
	if s.f != nil {
		s.f.Close()
	}
	os.Remove(s.path)
}

type c04ST struct {
	sc *storage.StorageCar
	mf *iofault.MemFile
}

func (s *c04ST) Put(b refcar.Block) error { return s.sc.Put(bg, string(b.Cid), b.Data) }
func (s *c04ST) PutMany(bs []refcar.Block) error {
	for _, b := range bs {
		if err := s.Put(b); err != nil {
			return err
		}
	}
	return nil
}
func (s *c04ST) Has(c []byte) (bool, error)   { return s.sc.Has(bg, string(c)) }
func (s *c04ST) Get(c []byte) ([]byte, error) { return s.sc.Get(bg, string(c)) }
func (s *c04ST) GetSize(c []byte) (int, error) {
	rc, err := s.sc.GetStream(bg, string(c))
	if err != nil {
		return -1, err
	}
	defer rc.Close()
	b, err := io.ReadAll(rc)
	return len(b), err
}
func (s *c04ST) Keys() ([]string, error) { return nil, nil }
func (s *c04ST) Roots() ([][]byte, error) {
	out := [][]byte{}
	for _, r := range s.sc.Roots() {
		out = append(out, r.Bytes())
	}
	return out, nil
}
func (s *c04ST) Finalize() error         { return s.sc.Finalize() }
func (s *c04ST) FinalizeReadOnly() error { return errors.New("n/a") }
func (s *c04ST) Close() error            { return errors.New("n/a") }
func (s *c04ST) Discard()                {}
func (s *c04ST) FileBytes() []byte       { return s.mf.Bytes() }
func (s *c04ST) Cleanup()                {}

func c04Open(api string, cfg lab.Cfg, roots [][]byte, dir string) (c04Store, error) {
	if api == "blockstore-file" {
		// the caller owns the *os.File: it stays open after Discard/Finalize, so a late write would land
		p := filepath.Join(dir, "rwf.car")
		os.Remove(p)
		f, err := os.OpenFile(p, os.O_RDWR|os.O_CREATE, 0o666)
		if err != nil {
			return nil, err
		}
		bs, err := blockstore.OpenReadWriteFile(f, lab.ToCids(roots, false), cfg.Opts()...)
		if err != nil {
			f.Close()
			return nil, err
		}
		return &c04BS{bs: bs, path: p, dir: dir, f: f}, nil
	}
	if api == "blockstore" {
		p := filepath.Join(dir, "rw.car")
		os.Remove(p)
		bs, err := blockstore.OpenReadWrite(p, lab.ToCids(roots, false), cfg.Opts()...)
		if err != nil {
			return nil, err
		}
		return &c04BS{bs: bs, path: p, dir: dir}, nil
	}
	mf := iofault.New(nil)
	mf.NoLog = true
	var target storage.ReaderAtWriterAt = mf
	if api == "storage-notrunc" {
		target = onlyAt{mf} // a ReaderAtWriterAt that cannot be truncated or seeked (not an *os.File)
	}
	sc, err := storage.NewReadableWritable(target, lab.ToCids(roots, false), cfg.Opts()...)
	if err != nil {
		return nil, err
	}
	return &c04ST{sc: sc, mf: mf}, nil
}

// onlyAt hides everything but ReadAt/WriteAt/Write of the memfile (no Truncate, no Seek).
type onlyAt struct{ mf *iofault.MemFile }

func (o onlyAt) ReadAt(p []byte, off int64) (int, error)  { return o.mf.ReadAt(p, off) }
func (o onlyAt) WriteAt(p []byte, off int64) (int, error) { return o.mf.WriteAt(p, off) }
func (o onlyAt) Write(p []byte) (int, error)              { return o.mf.Write(p) }

func notFound(err error) bool {
	return err != nil && (format.IsNotFound(err) || errors.Is(err, index.ErrNotFound) || storage.IsNotFound(err))
}

// ---------------------------------------------------------------- one history

type c04State int

const (
	stOpen     c04State = iota
	stReadOnly          // finalized, still readable
	stClosed
)

// c04RunHistory executes one history and checks every observable after every step.
func c04RunHistory(t *mon.T, api string, cfg lab.Cfg, a c04Alpha, hist []string, dir string) {
	roots := [][]byte{a.blocks["A"].Cid, a.blocks["B"].Cid}
	st, err := c04Open(api, cfg, roots, dir)
	if err != nil {
		t.Violatef(api+"/open/error", "cannot create the store: %v (cfg %s)", err, cfg)
		return
	}
	defer st.Cleanup()
	m := &lab.Model{Cfg: cfg}
	state := stOpen
	var frozen []byte // file snapshot once it must never change again
	hstr := strings.Join(hist, " ")
	viol := func(key string, format string, args ...any) {
		t.ViolateD(api+"/"+key, map[string]any{"history": hstr, "cfg": cfg.String()}, "[%s | %s] "+format, append([]any{hstr, cfg.Short()}, args...)...)
	}
	dataOff := 51 + cfg.DataPad

	var lastFile []byte
	probe := func(after string) {
		// file
		file := st.FileBytes()
		lastFile = file
		if frozen != nil {
			if !bytes.Equal(file, frozen) {
				viol("file-changed-after-finalize", "after %s: file changed after it was finalized/discarded (first difference at %d)", after, lab.FirstDiff(file, frozen))
			}
		} else {
			want := refcar.EncodeV1(roots, false, m.Sections)
			var got []byte
			if cfg.V1 {
				got = file
			} else if uint64(len(file)) >= dataOff && bytes.Equal(file[:11], refcar.Pragma) {
				got = file[dataOff:]
			}
			if !bytes.Equal(got, want) {
				viol("payload-differs-from-model", "after %s: payload on file differs from the model's section list at byte %d (file has %d payload bytes, model %d)", after, lab.FirstDiff(got, want), len(got), len(want))
			}
		}
		t.Events(1)
		// lookups
		for _, n := range a.names {
			b := a.blocks[n]
			kc, _, _ := refcar.SplitCid(b.Cid)
			adm, implied := m.Lookup(b.Cid)
			present := len(adm) > 0
			has, herr := st.Has(b.Cid)
			got, gerr := st.Get(b.Cid)
			size, serr := st.GetSize(b.Cid)
			t.Events(3)
			if state == stClosed {
				if kc.IsIdentity() {
					continue // identity lookups may still be answered from the CID itself
				}
				if herr == nil {
					viol("closed/Has/no-error", "Has(%s) = %v, nil after the store was closed", n, has)
				}
				if gerr == nil {
					viol("closed/Get/no-error", "Get(%s) succeeded after the store was closed", n)
				}
				if serr == nil {
					viol("closed/GetSize/no-error", "GetSize(%s) = %d, nil after the store was closed", n, size)
				}
				continue
			}
			if herr != nil || has != present {
				viol("Has/differs-from-model", "after %s: Has(%s) = %v, %v; model says %v", after, n, has, herr, present)
			}
			if present {
				if gerr != nil || !lab.ContainsData(adm, got) {
					viol("Get/differs-from-model", "after %s: Get(%s) = %d bytes, %v; model holds %d admissible value(s)", after, n, len(got), gerr, len(adm))
				}
				okSize := false
				for _, d := range adm {
					if len(d) == size {
						okSize = true
					}
				}
				if serr != nil || !okSize {
					viol("GetSize/differs-from-model", "after %s: GetSize(%s) = %d, %v", after, n, size, serr)
				}
			} else {
				if !notFound(gerr) {
					viol("Get/absent-not-notfound", "after %s: Get(%s) of an absent key returned %d bytes, err=%v", after, n, len(got), gerr)
				}
				if kc.IsIdentity() && !implied {
					// identity storing on, block absent: size is implied by the CID; a size or not-found both satisfy the statement
					if !(notFound(serr) || (serr == nil && size == len(kc.Digest))) {
						viol("GetSize/absent-identity", "after %s: GetSize(%s) = %d, %v", after, n, size, serr)
					}
				} else if !notFound(serr) {
					viol("GetSize/absent-not-notfound", "after %s: GetSize(%s) of an absent key returned %d, %v", after, n, size, serr)
				}
			}
		}
		keys, kerr := st.Keys()
		if !strings.HasPrefix(api, "storage") {
			t.Events(1)
			if state == stClosed {
				if kerr == nil {
					viol("closed/AllKeysChan/no-error", "AllKeysChan succeeded after the store was closed")
				}
			} else if kerr != nil || !lab.StringsEqual(keys, m.Keys()) {
				viol("AllKeysChan/differs-from-model", "after %s: listing has %d keys (%v), model %d", after, len(keys), kerr, len(m.Keys()))
			}
		}
		if state != stClosed {
			rs, rerr := st.Roots()
			if rerr != nil || len(rs) != len(roots) || !bytes.Equal(rs[0], roots[0]) || !bytes.Equal(rs[1], roots[1]) {
				viol("Roots/differs", "after %s: Roots() = %d roots, %v", after, len(rs), rerr)
			}
		}
	}

	var tooLarge *carv2.ErrCidTooLarge
	putOne := func(n string, op string) {
		b := a.blocks[n]
		before := lastFile
		err := st.Put(b)
		if state != stOpen {
			if err == nil {
				viol("finalized/Put/no-error", "Put(%s) succeeded after the store was finalized/closed", n)
			}
			return
		}
		switch m.Decide(b) {
		case lab.Stored:
			if err != nil {
				viol("Put/error", "Put(%s) failed: %v", n, err)
				return
			}
			m.Put(b)
			t.Cover("put:stored")
		case lab.Skipped:
			if err != nil {
				viol("Put/skip-error", "Put(%s) of a block the rules skip failed: %v", n, err)
			}
			if !bytes.Equal(st.FileBytes(), before) {
				viol("Put/skipped-but-written", "Put(%s) must be skipped (same key stored / identity) but the file changed", n)
			}
			t.Cover("put:skipped")
		case lab.Rejected:
			if !errors.As(err, &tooLarge) {
				viol("Put/oversized-cid-not-rejected", "Put(%s) with a %d-byte CID (max %d) returned %v", n, len(b.Cid), cfg.EffMaxCid(), err)
			}
			if !bytes.Equal(st.FileBytes(), before) {
				viol("Put/rejected-but-written", "rejected Put(%s) changed the file", n)
			}
			t.Cover("put:rejected")
		case lab.SkippedOrReject:
			if err != nil && !errors.As(err, &tooLarge) {
				viol("Put/oversized-identity-error", "Put(%s) returned %v", n, err)
			}
			if !bytes.Equal(st.FileBytes(), before) {
				viol("Put/rejected-but-written", "Put(%s) of an over-long identity CID changed the file", n)
			}
		}
	}

	probe("open")
	for i, op := range hist {
		switch {
		case strings.HasPrefix(op, "P:"):
			putOne(op[2:], op)
		case strings.HasPrefix(op, "M:"):
			names := strings.Split(op[2:], ",")
			var bs []refcar.Block
			for _, n := range names {
				bs = append(bs, a.blocks[n])
			}
			err := st.PutMany(bs)
			if state != stOpen {
				if err == nil {
					viol("finalized/PutMany/no-error", "PutMany succeeded after the store was finalized/closed")
				}
				break
			}
			// sequential semantics: stop at the first rejected block
			expectErr := false
			for _, b := range bs {
				o := m.Decide(b)
				if o == lab.Rejected {
					expectErr = true
					break
				}
				if o == lab.Stored {
					m.Put(b)
				}
			}
			if expectErr != (err != nil) {
				viol("PutMany/error-mismatch", "PutMany(%s) returned %v; the model expects error=%v", op[2:], err, expectErr)
			}
			if expectErr {
				t.Cover("putmany:rejected-midway")
			}
		case op == "F":
			err := st.Finalize()
			if state == stOpen {
				if err != nil && cfg.IndexPad >= 1<<62 {
					// Finalize had to fail (the index cannot be placed): "after Finalize" holds all the same —
					// the store is closed, the file never changes again
					state = stClosed
					frozen = st.FileBytes()
					t.Cover("finalize-that-cannot-succeed")
				} else if err != nil {
					viol("Finalize/error", "Finalize on an open store failed: %v", err)
				} else {
					state = stClosed
					frozen = st.FileBytes()
					t.Cover("finalize")
				}
			} else if state == stReadOnly {
				// Finalize after FinalizeReadOnly: whatever it returns, the statement says that after
				// Finalize every write and every non-identity lookup fails.
				state = stClosed
				t.Cover("finalize-after-finalize-readonly")
			}
		case op == "R":
			err := st.FinalizeReadOnly()
			if state == stOpen {
				if err != nil && cfg.IndexPad >= 1<<62 {
					// it had to fail; the store takes no more writes all the same
					state = stReadOnly
					frozen = st.FileBytes()
					t.Cover("finalize-that-cannot-succeed")
				} else if err != nil {
					viol("FinalizeReadOnly/error", "FinalizeReadOnly on an open store failed: %v", err)
				} else {
					state = stReadOnly
					frozen = st.FileBytes()
					t.Cover("finalize-readonly")
				}
			}
		case op == "X":
			err := st.Close()
			if state != stClosed {
				_, herr := st.Has(a.blocks["B"].Cid)
				if state == stOpen && !cfg.V1 && err != nil && herr != nil {
					// Close on a CARv2 store that was not finalized is refused (an error, by design): a refused
					// operation changes nothing — the store is still open, still writable, still finalizable
					viol("Close/refused-but-the-store-is-closed", "Close returned %v, and the store then answers Has with %v", err, herr)
				}
				if err == nil || herr != nil {
					if state == stOpen && !cfg.V1 && err == nil {
						viol("Close/unfinalized-accepted", "Close succeeded on a CARv2 store that was never finalized")
					}
					state = stClosed
					frozen = st.FileBytes()
					t.Cover("close")
				}
			}
		case op == "D":
			st.Discard()
			if state != stClosed {
				state = stClosed
				frozen = st.FileBytes()
				t.Cover("discard")
			}
		}
		probe(fmt.Sprintf("step %d (%s)", i, op))
	}
	// after a terminal operation: run every operation once more; all writes must fail, file must stay frozen
	if state == stClosed {
		for _, n := range a.names {
			if err := st.Put(a.blocks[n]); err == nil {
				viol("closed/Put/no-error", "Put(%s) succeeded after the store was closed", n)
			}
		}
		if !strings.HasPrefix(api, "storage") {
			if err := st.PutMany([]refcar.Block{a.blocks["A"], a.blocks["B"]}); err == nil {
				viol("closed/PutMany/no-error", "PutMany succeeded after the store was closed")
			}
			_ = st.FinalizeReadOnly()
			_ = st.Close()
			st.Discard()
		}
		_ = st.Finalize()
		t.Cover("post-terminal-sweep")
		probe("post-terminal sweep")
	}
}

// ---------------------------------------------------------------- cases

type c04Desc struct {
	API    string   `json:"api"`
	Cfg    int      `json:"cfg"`
	Prefix []string `json:"prefix,omitempty"` // exhaustive: all histories prefix + (depth) further ops
	Depth  int      `json:"depth,omitempty"`
	Seed   int64    `json:"seed,omitempty"` // random: long histories
	Random int      `json:"random,omitempty"`
}

func runC04(t *mon.T, raw json.RawMessage) {
	var d c04Desc
	if err := json.Unmarshal(raw, &d); err != nil {
		panic(err)
	}
	a := c04Alphabet()
	cfg := c04Configs[d.Cfg]
	ops := c04Ops(d.API, a)
	t.Nontrivial()
	t.Cover("api:" + d.API)
	t.Cover("cfg:" + cfg.Short())
	dir := lab.TempDir("c04")
	defer os.RemoveAll(dir)
	n := 0
	if d.Random > 0 {
		r := gen.Rand(d.Seed)
		for i := 0; i < d.Random; i++ {
			l := 10 + r.Intn(50)
			h := make([]string, l)
			for j := range h {
				// lifecycle ops rarely, so that long open phases exist
				for {
					h[j] = ops[r.Intn(len(ops))]
					if len(h[j]) == 1 && r.Intn(6) != 0 {
						continue
					}
					break
				}
			}
			c04RunHistory(t, d.API, cfg, a, h, dir)
			n++
		}
	} else {
		var rec func(h []string, depth int)
		rec = func(h []string, depth int) {
			c04RunHistory(t, d.API, cfg, a, h, dir)
			n++
			if depth == 0 {
				return
			}
			for _, op := range ops {
				rec(append(append([]string{}, h...), op), depth-1)
			}
		}
		rec(d.Prefix, d.Depth)
	}
	t.CoverN("histories", n)
	t.Sample(map[string]any{"api": d.API, "cfg": cfg.String(), "prefix": d.Prefix, "depth": d.Depth, "histories": n})
}

func genC04(g *mon.G) {
	a := c04Alphabet()
	ncfg := g.Pick(13, len(c04Configs))
	depth := g.Pick(2, 3) // histories of length ≤ 1+depth
	for _, api := range []string{"blockstore", "storage", "blockstore-file", "storage-notrunc"} {
		for ci := 0; ci < ncfg; ci++ {
			if (api == "blockstore-file" && ci%3 != 0) || (api == "storage-notrunc" && ci%3 != 1) {
				continue // the caller-owned-file variant on a third of the configurations
			}
			for _, op := range c04Ops(api, a) {
				g.Emit(c04Desc{API: api, Cfg: ci, Prefix: []string{op}, Depth: depth})
			}
		}
	}
	r := gen.Rand(g.Seed)
	for i := 0; i < g.Pick(40, 800); i++ {
		api := []string{"blockstore", "storage"}[i%2]
		g.Emit(c04Desc{API: api, Cfg: r.Intn(len(c04Configs)), Seed: r.Int63(), Random: 25})
	}
}

func init() {
	Register(&mon.Check{
		ID:          "C04",
		Level:       "exploration",
		Rule:        "EXHAUSTIVE: all histories of length ≤ 3 (quick) / ≤ 4 (thorough) over the op alphabet {Put of 9 designed blocks (A; A' same multihash other codec; B; C equal digest other hash code; IA identity twin of A's digest; I; I0 empty identity; L and IL over-long), 2 PutMany batches (one rejected midway), Finalize, FinalizeReadOnly, Close, Discard} x 10 (quick) / 14 (thorough) option configurations x {blockstore.ReadWrite, storage.StorageCar on a memfile, storage.StorageCar on a bare ReaderAt+WriterAt that cannot be truncated (a third of the configurations), and (a third of the configurations) blockstore.OpenReadWriteFile on a caller-owned file that stays open after Discard/Finalize}; plus random histories of length 10-60. After EVERY step: Has/Get/GetSize of all 9 keys, AllKeysChan, Roots and the payload bytes on file are compared with the executable model; after a terminal operation every operation is run once more (errors required, file frozen). A case = all histories sharing a first op; counters.histories counts individual histories",
		Assumptions: []string{"executable model lab.Model implements the documented admission rules; lookups are compared against the admissible set, listings as multisets", "identity lookups after close and Roots() after close are not judged; GetSize of an absent identity CID under StoreIdentityCIDs may answer the implied size or not-found"},
		Gen:         genC04,
		Run:         runC04,
		MinCover:    map[string]int{"histories": 5000, "put:stored": 1000, "put:skipped": 1000, "put:rejected": 100, "putmany:rejected-midway": 10, "finalize": 100, "finalize-readonly": 50, "discard": 50, "close": 20, "post-terminal-sweep": 100, "finalize-after-finalize-readonly": 20, "api:blockstore": 10, "api:storage": 10},
	})
}
