package checks

import (
	"bytes"
	"context"
	"encoding/json"
	"fmt"
	"os"
	"os/exec"
	"path/filepath"
	"strings"
	"time"

	blocks "github.com/ipfs/go-block-format"
	"github.com/ipld/go-car/cmd/car/lib"
	carv2 "github.com/ipld/go-car/v2"
	"github.com/ipld/go-car/v2/blockstore"
	"github.com/ipld/go-car/v2/storage"
	"github.com/ipld/go-car/v2/storage/deferred"

	"carlab/internal/gen"
	"carlab/internal/iofault"
	"carlab/internal/lab"
	"carlab/internal/mon"
	"carlab/internal/refcar"
)

type c05Desc struct {
	Seed int64   `json:"seed"`
	API  string  `json:"api"` // blockstore | blockstore-many | storage-writable | storage-rw | deferred | cli
	Cfg  lab.Cfg `json:"cfg"`
	Big  int     `json:"big,omitempty"` // number of tiny honest blocks (large session)
}

// c05Expect is what the session says the file must hold (nil for CLI outputs, where only
// self-consistency and the verifiers' verdicts are judged).
type c05Expect struct {
	roots    [][]byte
	nilRoots bool
	stored   []refcar.Block
	cfg      lab.Cfg
}

// c05CheckFile applies the well-formedness oracle to a finalized file.
func c05CheckFile(t *mon.T, label string, file []byte, exp *c05Expect, dir string, v1 bool, dataPad, indexPad uint64, codec uint64, storeID *bool) {
	key := func(s string) string { return label + "/" + s }
	var payload []byte
	if v1 {
		payload = file
	} else {
		if len(file) < 51 || !bytes.Equal(file[:11], refcar.Pragma) {
			t.Violatef(key("pragma"), "%s: file does not start with the CARv2 pragma", label)
			return
		}
		h, _ := refcar.ParseV2Header(file)
		if h.DataOffset != 51+dataPad {
			t.Violatef(key("header/data-offset"), "%s: DataOffset = %d, want 51 + %d", label, h.DataOffset, dataPad)
			return
		}
		if h.DataOffset+h.DataSize > uint64(len(file)) || h.DataSize == 0 {
			t.Violatef(key("header/data-size"), "%s: DataSize = %d does not fit the file (%d bytes, DataOffset %d)", label, h.DataSize, len(file), h.DataOffset)
			return
		}
		for _, b := range file[51:h.DataOffset] {
			if b != 0 {
				t.Violatef(key("padding/nonzero"), "%s: data padding holds non-zero bytes", label)
				break
			}
		}
		payload = file[h.DataOffset : h.DataOffset+h.DataSize]
		// the payload must end exactly where DataSize says: decode strictly
		p, err := refcar.DecodeV1(payload, false)
		if err != nil {
			t.Violatef(key("header/data-size"), "%s: [DataOffset, DataOffset+DataSize) is not a complete CARv1: %v", label, err)
			return
		}
		if h.IndexOffset != h.DataOffset+h.DataSize+indexPad {
			t.Violatef(key("header/index-offset"), "%s: IndexOffset = %d, want end of payload %d + padding %d", label, h.IndexOffset, h.DataOffset+h.DataSize, indexPad)
			return
		}
		if h.IndexOffset > uint64(len(file)) {
			t.Violatef(key("header/index-offset"), "%s: IndexOffset %d beyond the file (%d)", label, h.IndexOffset, len(file))
			return
		}
		for _, b := range file[h.DataOffset+h.DataSize : h.IndexOffset] {
			if b != 0 {
				t.Violatef(key("padding/nonzero"), "%s: index padding holds non-zero bytes", label)
				break
			}
		}
		pi, err := refcar.ParseIndex(file[h.IndexOffset:])
		if err != nil {
			t.Violatef(key("index/unparseable"), "%s: index does not parse: %v", label, err)
			return
		}
		if pi.Size != len(file)-int(h.IndexOffset) {
			t.Violatef(key("index/trailing-bytes"), "%s: %d bytes follow the index", label, len(file)-int(h.IndexOffset)-pi.Size)
		}
		if codec != 0 && pi.Codec != codec {
			t.Violatef(key("index/codec"), "%s: index codec %#x, want %#x", label, pi.Codec, codec)
		}
		if err := pi.CheckCanonical(); err != nil {
			t.Violatef(key("index/order"), "%s: %v", label, err)
		}
		// fully-indexed flag and the other characteristics bits
		other := false
		for i, b := range h.Characteristics {
			if (i == 0 && b&0x7f != 0) || (i > 0 && b != 0) {
				other = true
			}
		}
		if other {
			t.Violatef(key("characteristics/unknown-bits"), "%s: characteristics %x has bits other than fully-indexed set", label, h.Characteristics)
		}
		sid := h.FullyIndexed()
		if storeID != nil {
			if sid != *storeID {
				t.Violatef(key("characteristics/fully-indexed"), "%s: fully-indexed flag = %v, StoreIdentityCIDs = %v", label, sid, *storeID)
			}
			sid = *storeID
		}
		want := refcar.ExpectedIndexRecords(p, pi.Codec, true) // every stored section: identity sections are only stored when the option is on
		if storeID == nil && !sid {
			want = refcar.ExpectedIndexRecords(p, pi.Codec, false)
		}
		if !refcar.RecordsEqual(pi.Records(), want) {
			t.Violatef(key("index/records-differ"), "%s: the index does not resolve exactly the stored sections (%d records, %d sections)", label, len(pi.Records()), len(want))
		}
		t.Cover("v2-files-checked")
	}
	if exp != nil {
		want := refcar.EncodeV1(exp.roots, exp.nilRoots, exp.stored)
		if !bytes.Equal(payload, want) {
			t.Violatef(key("payload/differs"), "%s: payload is not header(roots) ‖ stored sections in put order; first difference at %d (%d vs %d bytes)", label, lab.FirstDiff(payload, want), len(payload), len(want))
			return
		}
	}
	// the library's own verdicts
	t.Events(1)
	st, err := inspect(file, true)
	if err != nil {
		t.Violatef(key("Inspect(true)/rejected"), "%s: Reader.Inspect(true) rejects the finalized file: %v", label, err)
	} else if exp != nil && st.BlockCount != uint64(len(exp.stored)) {
		t.Violatef(key("Inspect(true)/block-count"), "%s: Inspect counts %d blocks, %d were stored", label, st.BlockCount, len(exp.stored))
	}
	p, err := refcar.DecodeV1(payload, false)
	if err != nil {
		t.Violatef(key("payload/undecodable"), "%s: payload does not decode: %v", label, err)
		return
	}
	rootsAreBlocks := len(p.Header.Roots) > 0
	for _, rt := range p.Header.Roots {
		found := false
		for _, s := range p.Sections {
			if bytes.Equal(s.Cid.Raw, rt) {
				found = true
			}
		}
		if !found {
			rootsAreBlocks = false
		}
	}
	if rootsAreBlocks {
		fp := filepath.Join(dir, "verify.car")
		mustWrite(fp, file)
		if err := lib.VerifyCar(fp); err != nil {
			t.Violatef(key("VerifyCar/rejected"), "%s: lib.VerifyCar rejects a finalized file whose roots are all stored: %v", label, err)
		}
		t.Cover("verifycar-run")
	}
}

func runC05(t *mon.T, raw json.RawMessage) {
	var d c05Desc
	if err := json.Unmarshal(raw, &d); err != nil {
		panic(err)
	}
	dir := lab.TempDir("c05")
	defer os.RemoveAll(dir)
	if d.API == "cli" {
		c05CLI(t, d, dir)
		return
	}
	r := gen.Rand(d.Seed)
	cfg := d.Cfg
	content := gen.MakeContent(r, gen.ContentOpts{MinBlocks: 0, MaxBlocks: 9, MaxRoots: 3, Dups: true, Boundaries: true, RootsFromBlocks: r.Intn(3) != 0,
		Block: gen.BlockOpts{MaxSize: 300, NoIdentity: false}})
	if r.Intn(6) == 0 {
		content.Blocks = nil // a session without puts
	}
	if d.Big > 0 {
		content.Blocks = content.Blocks[:0]
		for i := 0; i < d.Big; i++ {
			data := gen.U64(uint64(i) ^ uint64(d.Seed))
			code := []uint64{0x12, 0x13, 0x11}[i%3]
			dg, _ := refcar.Hash(code, data)
			content.Blocks = append(content.Blocks, refcar.Block{Cid: refcar.MakeCidV1(0x55, code, dg), Data: data})
		}
		t.Cover("big-sessions")
	}
	roots := lab.ToCids(content.Roots, content.NilRoots)
	m := &lab.Model{Cfg: cfg}
	var file []byte
	label := d.API
	t.Cover("api:" + d.API)
	t.Cover("cfg:" + cfg.Short())
	fail := func(err error) { t.Violatef(d.API+"/session/error", "%s session failed: %v (cfg %s)", d.API, err, cfg) }
	// "any writing session" includes one that was interrupted and resumed: in a third of the sessions of
	// the resumable APIs the store is given up (Discard, or Finalize) after `cut` puts and reopened
	cut, cutHow := -1, ""
	if d.Big == 0 && len(content.Blocks) >= 2 && d.Seed%3 == 0 && (d.API == "blockstore" || d.API == "blockstore-many" || d.API == "storage-rw") {
		cut, cutHow = 1+int(uint64(d.Seed>>3)%uint64(len(content.Blocks)-1)), []string{"discard", "finalize"}[(d.Seed>>2)&1]
		t.Cover("sessions-resumed-after-" + cutHow)
	}
	if cut >= 2 && cfg.AllowDup {
		// the part written before the interruption holds the same block twice (two sections, two index entries)
		content.Blocks[1] = content.Blocks[0]
		t.Cover("sessions-resumed-over-duplicate-sections")
	}
	for _, b := range content.Blocks {
		m.Put(b)
	}
	switch d.API {
	case "blockstore", "blockstore-many":
		p := filepath.Join(dir, "bs.car")
		bs, err := blockstore.OpenReadWrite(p, roots, cfg.Opts()...)
		if err != nil {
			fail(err)
			return
		}
		reopen := func() bool {
			if cutHow == "discard" {
				bs.Discard()
			} else if err := bs.Finalize(); err != nil {
				fail(err)
				return false
			}
			if bs, err = blockstore.OpenReadWrite(p, roots, cfg.Opts()...); err != nil {
				fail(err)
				return false
			}
			return true
		}
		if d.API == "blockstore" {
			for i, b := range content.Blocks {
				if i == cut && !reopen() {
					return
				}
				if err := bs.Put(bg, lab.ToBlock(b)); err != nil {
					fail(err)
					return
				}
			}
		} else {
			var l []blocks.Block
			for i, b := range content.Blocks {
				if i == cut {
					if err := bs.PutMany(bg, l); err != nil {
						fail(err)
						return
					}
					l = nil
					if !reopen() {
						return
					}
				}
				l = append(l, lab.ToBlock(b))
			}
			if err := bs.PutMany(bg, l); err != nil {
				fail(err)
				return
			}
		}
		if r.Intn(2) == 0 {
			if err := bs.FinalizeReadOnly(); err != nil {
				fail(err)
				return
			}
			if err := bs.Close(); err != nil {
				fail(err)
				return
			}
		} else if err := bs.Finalize(); err != nil {
			fail(err)
			return
		}
		file = mustRead(p)
	case "storage-writable", "storage-rw":
		mf := iofault.New(nil)
		mf.NoLog = true
		var w storage.WritableCar
		var err error
		if d.API == "storage-writable" {
			w, err = storage.NewWritable(mf, roots, cfg.Opts()...)
		} else {
			w, err = storage.NewReadableWritable(mf, roots, cfg.Opts()...)
		}
		if err != nil {
			fail(err)
			return
		}
		for i, b := range content.Blocks {
			if i == cut {
				if cutHow == "finalize" {
					if err := w.Finalize(); err != nil {
						fail(err)
						return
					}
				}
				if w, err = storage.OpenReadableWritable(mf, roots, cfg.Opts()...); err != nil {
					fail(err)
					return
				}
			}
			if err := w.Put(bg, string(b.Cid), b.Data); err != nil {
				fail(err)
				return
			}
		}
		if err := w.Finalize(); err != nil {
			fail(err)
			return
		}
		file = mf.Bytes()
	case "deferred":
		if len(content.Blocks) == 0 {
			return // nothing is written without a Put (C20)
		}
		p := filepath.Join(dir, "def.car")
		if r.Intn(2) == 0 {
			// the path already holds a (larger) file, e.g. the output of a previous run
			mustWrite(p, gen.Bytes(r, 5000+r.Intn(60000)))
			t.Cover("deferred-over-existing-larger-file")
		}
		w := deferred.NewDeferredCarWriterForPath(p, roots, cfg.Opts()...)
		var sf *os.File
		if r.Intn(3) == 0 {
			// the stream constructor over a stream that is also an io.WriterAt, with the caller's explicit
			// WriteAsCarV1 choice (it overrides the constructor's CARv1 default): the same file must result
			var err error
			if sf, err = os.OpenFile(p, os.O_RDWR|os.O_CREATE|os.O_TRUNC, 0o666); err != nil {
				panic(err)
			}
			defer sf.Close()
			w = deferred.NewDeferredCarWriterForStream(sf, roots, append(cfg.Opts(), carv2.WriteAsCarV1(cfg.V1))...)
			t.Cover("deferred-stream-that-is-a-writerat")
		}
		for _, b := range content.Blocks {
			if err := w.Put(bg, string(b.Cid), b.Data); err != nil {
				fail(err)
				return
			}
		}
		if err := w.Close(); err != nil {
			fail(err)
			return
		}
		file = mustRead(p)
	}
	t.Nontrivial()
	sid := cfg.StoreID
	c05CheckFile(t, label, file, &c05Expect{roots: content.Roots, nilRoots: content.NilRoots, stored: m.Sections, cfg: cfg}, dir, cfg.V1, cfg.DataPad, cfg.IndexPad, cfg.IndexCodec(), &sid)
	if len(m.Sections) == 0 {
		t.Cover("sessions-without-stored-blocks")
	}
	t.Sample(map[string]any{"api": d.API, "cfg": cfg.String(), "put": len(content.Blocks), "stored": len(m.Sections), "file_bytes": len(file)})
}

func carBin() string { return filepath.Join(os.Getenv("VERIF_BIN"), "car") }

func runCarT(t *mon.T, dir string, stdin []byte, args ...string) (string, string, error, bool) {
	ctx, cancel := context.WithTimeout(context.Background(), 120*time.Second)
	defer cancel()
	cmd := exec.CommandContext(ctx, carBin(), args...)
	cmd.Dir = dir
	var out, errb bytes.Buffer
	cmd.Stdout, cmd.Stderr = &out, &errb
	if stdin != nil {
		cmd.Stdin = bytes.NewReader(stdin)
	}
	err := cmd.Run()
	if ctx.Err() != nil {
		t.Inconclusive("car %s: wall-clock watchdog fired", strings.Join(args, " "))
		return "", "", err, true
	}
	return out.String(), errb.String(), err, false
}

// c05CLI: archives produced by car create / get-dag / filter must be well-formed containers too.
func c05CLI(t *mon.T, d c05Desc, dir string) {
	r := gen.Rand(d.Seed)
	src := filepath.Join(dir, "src")
	os.MkdirAll(filepath.Join(src, "sub"), 0o755)
	nf := 1 + r.Intn(4)
	var names []string
	for i := 0; i < nf; i++ {
		n := fmt.Sprintf("f%d.bin", i)
		if i%2 == 1 {
			n = filepath.Join("sub", n)
		}
		size := []int{0, 1, 700, 5000, 300000}[r.Intn(5)]
		mustWrite(filepath.Join(src, n), gen.Bytes(r, size))
		names = append(names, n)
	}
	created := filepath.Join(dir, "created.car")
	_, stderr, err, tmo := runCarT(t, dir, nil, "create", "--version", "2", "-f", created, src)
	if tmo {
		return
	}
	if err != nil {
		t.Violatef("car create/file tree/exit-nonzero", "car create failed: %v %s", err, stderr)
		return
	}
	t.Nontrivial()
	t.Cover("api:cli")
	file := mustRead(created)
	c05CheckFile(t, "car create", file, nil, dir, false, 0, 0, 0, nil)
	a, err := refcar.Decode(file, false)
	if err != nil || len(a.Payload.Header.Roots) != 1 {
		return
	}
	rootStr := lab.ToCid(a.Payload.Header.Roots[0]).String()
	// get-dag (CARv2 output)
	got := filepath.Join(dir, "dag.car")
	if _, stderr, err, tmo := runCarT(t, dir, nil, "get-dag", created, rootStr, got); tmo {
		return
	} else if err != nil {
		t.Violatef("car get-dag/created archive/exit-nonzero", "car get-dag failed: %v %s", err, stderr)
	} else {
		c05CheckFile(t, "car get-dag", mustRead(got), nil, dir, false, 0, 0, 0, nil)
		t.Cover("cli:get-dag")
	}
	// get-dag of a raw leaf (a root without links): the smallest archive the tool can emit
	for _, sec := range a.Payload.Sections {
		if sec.Cid.Codec != 0x55 || sec.Cid.IsIdentity() {
			continue
		}
		leaf := filepath.Join(dir, "leaf.car")
		if _, stderr, err, tmo := runCarT(t, dir, nil, "get-dag", created, lab.ToCid(sec.Cid.Raw).String(), leaf); tmo {
			return
		} else if err != nil {
			t.Violatef("car get-dag/raw leaf root/exit-nonzero", "car get-dag of a raw leaf failed: %v %s", err, stderr)
		} else {
			c05CheckFile(t, "car get-dag(raw leaf root)", mustRead(leaf), nil, dir, false, 0, 0, 0, nil)
			t.Cover("cli:get-dag-of-a-raw-leaf")
		}
		break
	}
	// filter: keep a seeded subset of the CIDs
	var keep []string
	for _, s := range a.Payload.Sections {
		if r.Intn(2) == 0 {
			keep = append(keep, lab.ToCid(s.Cid.Raw).String())
		}
	}
	keep = append(keep, rootStr)
	list := filepath.Join(dir, "cids.txt")
	mustWrite(list, []byte(strings.Join(keep, "\n")+"\n"))
	filtered := filepath.Join(dir, "filtered.car")
	if _, stderr, err, tmo := runCarT(t, dir, nil, "filter", "--cid-file", list, created, filtered); tmo {
		return
	} else if err != nil {
		t.Violatef("car filter/created archive/exit-nonzero", "car filter failed: %v %s", err, stderr)
	} else {
		c05CheckFile(t, "car filter", mustRead(filtered), nil, dir, false, 0, 0, 0, nil)
		t.Cover("cli:filter")
	}
	t.Sample(map[string]any{"api": "cli", "files": names, "created_bytes": len(file), "sections": len(a.Payload.Sections)})
}

func genC05(g *mon.G) {
	r := gen.Rand(g.Seed)
	apis := []string{"blockstore", "blockstore-many", "storage-writable", "storage-rw", "deferred"}
	dpads := []uint64{0, 0, 1, 7, 1413, 4096, 4097, 8141, 12289}
	ipads := []uint64{0, 0, 1, 1024, 4097, 10000}
	for i := 0; i < g.Pick(1200, 20000); i++ {
		cfg := lab.Cfg{V1: r.Intn(4) == 0, Sorted: r.Intn(2) == 0, StoreID: r.Intn(2) == 0, WholeCID: r.Intn(3) == 0, AllowDup: r.Intn(4) == 0}
		if !cfg.V1 || r.Intn(2) == 0 {
			// padding options are also given in CARv1 mode, where they must have no effect ("the file is exactly that payload")
			cfg.DataPad = dpads[r.Intn(len(dpads))]
			cfg.IndexPad = ipads[r.Intn(len(ipads))]
		}
		g.Emit(c05Desc{Seed: r.Int63(), API: apis[i%len(apis)], Cfg: cfg})
	}
	for i := 0; i < g.Pick(32, 400); i++ {
		g.Emit(c05Desc{Seed: r.Int63(), API: "cli"})
	}
	for i := 0; i < g.Pick(4, 30); i++ {
		g.Emit(c05Desc{Seed: r.Int63(), API: apis[i%4], Cfg: lab.Cfg{Sorted: i%2 == 0, IndexPad: uint64(i % 3)}, Big: 17000 + r.Intn(30000)})
	}
}

var _ = carv2.PragmaSize

func init() {
	Register(&mon.Check{
		ID:          "C05",
		Level:       "exploration",
		Rule:        "cases = seeded writing sessions (0-9 honest blocks incl. duplicates/identity/boundary sizes; sessions without puts; a few sessions with 17k-47k tiny blocks) x option matrix (data padding {0,1,7,1413}, index padding {0,1,1024}, both codecs, StoreIdentityCIDs, WriteAsCarV1, whole-CID, allow-dup) x {blockstore Put, blockstore PutMany, storage.NewWritable, storage.NewReadableWritable, deferred writer}; plus archives produced by the built car binary (create, get-dag, filter). Each finalized file is parsed by the reference: pragma, header arithmetic, zero padding, payload = header ‖ stored sections, index = exactly those sections in canonical order, characteristics bits, nothing after the index; then Reader.Inspect(true) and lib.VerifyCar (when all roots are stored)",
		Assumptions: []string{"refcar parses containers and indexes; lab.Model decides which puts are stored"},
		Gen:         genC05,
		Run:         runC05,
		MinCover: map[string]int{"sessions-resumed-after-discard": 20, "sessions-resumed-after-finalize": 20, "api:blockstore": 20, "api:storage-writable": 20, "api:storage-rw": 20, "api:deferred": 20, "api:cli": 10, "cli:get-dag": 10, "cli:get-dag-of-a-raw-leaf": 5, "cli:filter": 10,
			"v2-files-checked": 200, "verifycar-run": 50, "sessions-without-stored-blocks": 5, "big-sessions": 4, "deferred-over-existing-larger-file": 20},
	})
}
