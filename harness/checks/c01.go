package checks

import (
	"bytes"
	"context"
	"encoding/json"
	"errors"
	"fmt"
	"io"
	"os"
	"path/filepath"
	"sort"

	blocks "github.com/ipfs/go-block-format"
	"github.com/ipfs/go-cid"
	format "github.com/ipfs/go-ipld-format"
	carv1 "github.com/ipld/go-car"
	carv2 "github.com/ipld/go-car/v2"
	"github.com/ipld/go-car/v2/blockstore"
	"github.com/ipld/go-car/v2/storage"
	"github.com/ipld/go-car/v2/storage/deferred"

	"carlab/internal/gen"
	"carlab/internal/iofault"
	"carlab/internal/lab"
	"carlab/internal/mon"
	"carlab/internal/refcar"
)

type c01Desc struct {
	Seed int64   `json:"seed"`
	Cfg  lab.Cfg `json:"cfg"`
	Big  bool    `json:"big,omitempty"`
	Many int     `json:"many,omitempty"` // >0: that many tiny blocks (batching loaders and writers cross their batch sizes)
}

// fakeNode lets the root-module writer (which wants format.Node) emit arbitrary blocks.
type fakeNode struct {
	blocks.Block
	links []*format.Link
}

func (n *fakeNode) Resolve([]string) (interface{}, []string, error) {
	return nil, nil, errors.New("n/a")
}
func (n *fakeNode) Tree(string, int) []string { return nil }
func (n *fakeNode) ResolveLink([]string) (*format.Link, []string, error) {
	return nil, nil, errors.New("n/a")
}
func (n *fakeNode) Copy() format.Node               { return n }
func (n *fakeNode) Links() []*format.Link           { return n.links }
func (n *fakeNode) Stat() (*format.NodeStat, error) { return &format.NodeStat{}, nil }
func (n *fakeNode) Size() (uint64, error)           { return uint64(len(n.RawData())), nil }

type fakeGetter map[string]*fakeNode

func (g fakeGetter) Get(_ context.Context, c cid.Cid) (format.Node, error) {
	if n, ok := g[c.KeyString()]; ok {
		return n, nil
	}
	return nil, format.ErrNotFound{Cid: c}
}
func (g fakeGetter) GetMany(ctx context.Context, cs []cid.Cid) <-chan *format.NodeOption {
	ch := make(chan *format.NodeOption, len(cs))
	for _, c := range cs {
		n, err := g.Get(ctx, c)
		ch <- &format.NodeOption{Node: n, Err: err}
	}
	close(ch)
	return ch
}

// recStore records what LoadCar puts.
type recStore struct{ got []refcar.Block }

func (s *recStore) Put(_ context.Context, b blocks.Block) error {
	s.got = append(s.got, refcar.Block{Cid: b.Cid().Bytes(), Data: b.RawData()})
	return nil
}

type recBatchStore struct{ recStore }

func (s *recBatchStore) PutMany(ctx context.Context, bs []blocks.Block) error {
	for _, b := range bs {
		_ = s.Put(ctx, b)
	}
	return nil
}

func seqEqual(a, b []refcar.Block) bool {
	if len(a) != len(b) {
		return false
	}
	for i := range a {
		if !bytes.Equal(a[i].Cid, b[i].Cid) || !bytes.Equal(a[i].Data, b[i].Data) {
			return false
		}
	}
	return true
}

func seqSummary(s []refcar.Block) []string {
	var out []string
	for i, b := range s {
		if i >= 12 {
			out = append(out, fmt.Sprintf("…(%d total)", len(s)))
			break
		}
		out = append(out, fmt.Sprintf("%s:%d", lab.Hex(b.Cid), len(b.Data)))
	}
	return out
}

func c01Content(d c01Desc) gen.Content {
	r := gen.Rand(d.Seed)
	c := gen.MakeContent(r, gen.ContentOpts{
		MinBlocks: 0, MaxBlocks: 9, MaxRoots: 60, Dups: true, Boundaries: true, BigBoundary: d.Big,
		Block: gen.BlockOpts{MaxSize: 400},
	})
	if d.Many > 0 {
		c.Blocks = c.Blocks[:0]
		for i := 0; i < d.Many; i++ {
			data := []byte{byte(i), byte(i >> 8), byte(d.Seed)}
			dg, _ := refcar.Hash(0x12, data)
			c.Blocks = append(c.Blocks, refcar.Block{Cid: refcar.MakeCidV1(0x55, 0x12, dg), Data: data})
		}
		if len(c.Roots) > 3 {
			c.Roots = c.Roots[:3]
		}
		return c
	}
	if !d.Cfg.StoreID && r.Intn(6) == 0 {
		// an identity block whose CID is longer than MaxIndexCidSize: with identity storing off it is
		// skipped like any identity block (the limit is for indexed CIDs)
		i := r.Intn(len(c.Blocks) + 1)
		c.Blocks = append(c.Blocks[:i], append([]refcar.Block{gen.LongIdentityBlock(r)}, c.Blocks[i:]...)...)
	}
	return c
}

// writers: each returns the produced file bytes.
type c01Writer struct {
	name string
	ok   func(cfg lab.Cfg, blocks []refcar.Block) bool
	run  func(dir string, roots []cid.Cid, cfg lab.Cfg, blks []refcar.Block) ([]byte, error)
}

var bg = context.Background()

func c01Writers() []c01Writer {
	always := func(lab.Cfg, []refcar.Block) bool { return true }
	rw := func(many bool) func(string, []cid.Cid, lab.Cfg, []refcar.Block) ([]byte, error) {
		return func(dir string, roots []cid.Cid, cfg lab.Cfg, blks []refcar.Block) ([]byte, error) {
			p := filepath.Join(dir, "rw.car")
			os.Remove(p)
			bs, err := blockstore.OpenReadWrite(p, roots, cfg.Opts()...)
			if err != nil {
				return nil, err
			}
			if many {
				for i := 0; i < len(blks); i += 3 {
					j := i + 3
					if j > len(blks) {
						j = len(blks)
					}
					var batch []blocks.Block
					for _, b := range blks[i:j] {
						batch = append(batch, lab.ToBlock(b))
					}
					if err := bs.PutMany(bg, batch); err != nil {
						return nil, err
					}
				}
			} else {
				for i, b := range blks {
					if len(blks) >= 2 && len(blks)%3 == 0 && i == len(blks)/2 {
						// the session is interrupted (Finalize, or Discard) and resumed halfway: the round trip is the same
						if len(blks)%2 == 0 {
							if err := bs.Finalize(); err != nil {
								return nil, err
							}
						} else {
							bs.Discard()
						}
						if bs, err = blockstore.OpenReadWrite(p, roots, cfg.Opts()...); err != nil {
							return nil, err
						}
					}
					if err := bs.Put(bg, lab.ToBlock(b)); err != nil {
						return nil, err
					}
				}
			}
			if err := bs.Finalize(); err != nil {
				return nil, err
			}
			return os.ReadFile(p)
		}
	}
	putAll := func(w interface {
		Put(context.Context, string, []byte) error
	}, blks []refcar.Block) error {
		for _, b := range blks {
			if err := w.Put(bg, string(b.Cid), b.Data); err != nil {
				return err
			}
		}
		return nil
	}
	return []c01Writer{
		{"blockstore.ReadWrite/Put", always, rw(false)},
		{"blockstore.ReadWrite/PutMany", always, rw(true)},
		{"storage.NewWritable/WriterAt", always, func(dir string, roots []cid.Cid, cfg lab.Cfg, blks []refcar.Block) ([]byte, error) {
			mf := iofault.New(nil)
			mf.NoLog = true
			w, err := storage.NewWritable(mf, roots, cfg.Opts()...)
			if err != nil {
				return nil, err
			}
			if err := putAll(w, blks); err != nil {
				return nil, err
			}
			if err := w.Finalize(); err != nil {
				return nil, err
			}
			return mf.Bytes(), nil
		}},
		{"storage.NewWritable/io.Writer", func(c lab.Cfg, _ []refcar.Block) bool { return c.V1 }, func(dir string, roots []cid.Cid, cfg lab.Cfg, blks []refcar.Block) ([]byte, error) {
			var buf bytes.Buffer
			w, err := storage.NewWritable(lab.PlainWriter{W: &buf}, roots, cfg.Opts()...)
			if err != nil {
				return nil, err
			}
			if err := putAll(w, blks); err != nil {
				return nil, err
			}
			if err := w.Finalize(); err != nil {
				return nil, err
			}
			return buf.Bytes(), nil
		}},
		{"storage.NewReadableWritable", always, func(dir string, roots []cid.Cid, cfg lab.Cfg, blks []refcar.Block) ([]byte, error) {
			mf := iofault.New(nil)
			mf.NoLog = true
			w, err := storage.NewReadableWritable(mf, roots, cfg.Opts()...)
			if err != nil {
				return nil, err
			}
			if err := putAll(w, blks); err != nil {
				return nil, err
			}
			if err := w.Finalize(); err != nil {
				return nil, err
			}
			return mf.Bytes(), nil
		}},
		{"deferred.ForPath", func(_ lab.Cfg, b []refcar.Block) bool { return len(b) > 0 }, func(dir string, roots []cid.Cid, cfg lab.Cfg, blks []refcar.Block) ([]byte, error) {
			p := filepath.Join(dir, "deferred.car")
			os.Remove(p)
			if len(blks)%2 == 0 {
				// the path holds an earlier, longer output (the same path written again): it is replaced, not overlaid
				if err := os.WriteFile(p, bytes.Repeat([]byte{0x24, 0x01, 0x55, 0x12, 0x20, 0xEE}, 40<<10), 0o644); err != nil {
					panic(err)
				}
			}
			w := deferred.NewDeferredCarWriterForPath(p, roots, cfg.Opts()...)
			if err := putAll(w, blks); err != nil {
				return nil, err
			}
			if err := w.Close(); err != nil {
				return nil, err
			}
			return os.ReadFile(p)
		}},
		{"deferred.ForStream(io.WriterAt, WriteAsCarV1(false))", func(c lab.Cfg, b []refcar.Block) bool { return !c.V1 && len(b) > 0 }, func(dir string, roots []cid.Cid, cfg lab.Cfg, blks []refcar.Block) ([]byte, error) {
			mf := iofault.New(nil)
			mf.NoLog = true
			w := deferred.NewDeferredCarWriterForStream(mf, roots, append(cfg.Opts(), carv2.WriteAsCarV1(false))...)
			if err := putAll(w, blks); err != nil {
				return nil, err
			}
			if err := w.Close(); err != nil {
				return nil, err
			}
			return mf.Bytes(), nil
		}},
		{"deferred.ForStream", func(c lab.Cfg, b []refcar.Block) bool { return c.V1 && len(b) > 0 }, func(dir string, roots []cid.Cid, cfg lab.Cfg, blks []refcar.Block) ([]byte, error) {
			var buf bytes.Buffer
			w := deferred.NewDeferredCarWriterForStream(&buf, roots, cfg.Opts()...)
			if err := putAll(w, blks); err != nil {
				return nil, err
			}
			if err := w.Close(); err != nil {
				return nil, err
			}
			return buf.Bytes(), nil
		}},
	}
}

// c01Read runs every reader over file and reports disagreements with (roots, seq).
func c01Read(t *mon.T, dir, label string, file []byte, payload []byte, roots [][]byte, seq []refcar.Block, cfg lab.Cfg) {
	wantRoots := roots
	checkRoots := func(reader string, got []cid.Cid) {
		if !lab.CidsEqual(got, wantRoots) {
			t.Violatef("reader:"+reader+"/roots", "%s on %s: roots differ: got %v want %d roots", reader, label, got, len(wantRoots))
		}
	}
	checkSeq := func(reader string, got []refcar.Block) {
		if !seqEqual(got, seq) {
			t.ViolateD("reader:"+reader+"/sequence", map[string]any{"got": seqSummary(got), "want": seqSummary(seq)},
				"%s on %s: (CID, bytes) sequence differs from the written one (got %d blocks, want %d)", reader, label, len(got), len(seq))
		}
	}
	rerr := func(reader string, err error) {
		t.Violatef("reader:"+reader+"/error", "%s on %s: unexpected error: %v", reader, label, err)
	}

	// 1. v2 BlockReader over three source kinds
	fp := filepath.Join(dir, "read.car")
	if err := os.WriteFile(fp, file, 0o644); err != nil {
		panic(err)
	}
	for _, src := range []string{"bytes.Reader", "plain", "file"} {
		var r io.Reader
		var closer io.Closer
		switch src {
		case "bytes.Reader":
			r = bytes.NewReader(file)
		case "plain":
			r = lab.PlainReader{R: bytes.NewReader(file)}
		case "file":
			f, err := os.Open(fp)
			if err != nil {
				panic(err)
			}
			r, closer = f, f
		}
		name := "v2.BlockReader(" + src + ")"
		br, err := carv2.NewBlockReader(r)
		if err != nil {
			rerr(name, err)
		} else {
			checkRoots(name, br.Roots)
			var got []refcar.Block
			for {
				b, err := br.Next()
				if err == io.EOF {
					break
				}
				if err != nil {
					rerr(name, err)
					break
				}
				got = append(got, refcar.Block{Cid: b.Cid().Bytes(), Data: b.RawData()})
			}
			checkSeq(name, got)
			t.Events(len(got) + 1)
		}
		if closer != nil {
			closer.Close()
		}
	}

	// 2. v2 Reader: roots + payload bytes
	{
		name := "v2.Reader"
		rd, err := carv2.NewReader(bytes.NewReader(file))
		if err != nil {
			rerr(name, err)
		} else {
			rs, err := rd.Roots()
			if err != nil {
				rerr(name, err)
			} else {
				checkRoots(name, rs)
			}
			dr, err := rd.DataReader()
			if err != nil {
				rerr(name, err)
			} else {
				got, err := io.ReadAll(dr)
				if err != nil {
					rerr(name, err)
				} else if !bytes.Equal(got, payload) {
					t.Violatef("reader:"+name+"/payload", "%s on %s: DataReader bytes differ from the payload at %d", name, label, lab.FirstDiff(got, payload))
				}
			}
			t.Events(2)
		}
	}

	// 3. root-module reader and loader, over the payload
	{
		name := "root.CarReader"
		cr, err := carv1.NewCarReaderWithOptions(bytes.NewReader(payload), carv1.WithErrorOnEmptyRoots(false))
		if err != nil {
			rerr(name, err)
		} else {
			checkRoots(name, cr.Header.Roots)
			var got []refcar.Block
			for {
				b, err := cr.Next()
				if err == io.EOF {
					break
				}
				if err != nil {
					rerr(name, err)
					break
				}
				got = append(got, refcar.Block{Cid: b.Cid().Bytes(), Data: b.RawData()})
			}
			checkSeq(name, got)
			t.Events(len(got) + 1)
		}
		if len(wantRoots) > 0 {
			for _, batch := range []bool{false, true} {
				name := "root.LoadCar"
				var st carv1.Store
				var rec *recStore
				if batch {
					name += "(batch)"
					b := &recBatchStore{}
					st, rec = b, &b.recStore
				} else {
					rec = &recStore{}
					st = rec
				}
				h, err := carv1.LoadCar(bg, st, bytes.NewReader(payload))
				if err != nil {
					rerr(name, err)
					continue
				}
				checkRoots(name, h.Roots)
				checkSeq(name, rec.got)
				t.Events(len(rec.got) + 1)
			}
		}
	}

	// 4. read-only stores
	ropts := []carv2.Option{}
	if cfg.WholeCID {
		ropts = append(ropts, carv2.UseWholeCIDs(true))
	}
	if cfg.StoreID {
		ropts = append(ropts, carv2.StoreIdentityCIDs(true))
	}
	m := &lab.Model{Cfg: cfg, Sections: seq}
	wantKeys := lab.KeysOf(seq, cfg.WholeCID)
	{
		name := "blockstore.ReadOnly"
		ro, err := blockstore.NewReadOnly(bytes.NewReader(file), nil, ropts...)
		if err != nil {
			rerr(name, err)
		} else {
			rs, err := ro.Roots()
			if err != nil {
				rerr(name, err)
			} else {
				checkRoots(name, rs)
			}
			ch, err := ro.AllKeysChan(bg)
			if err != nil {
				rerr(name, err)
			} else {
				var keys []string
				for c := range ch {
					keys = append(keys, string(c.Bytes()))
				}
				sort.Strings(keys)
				if !lab.StringsEqual(keys, wantKeys) {
					t.Violatef("reader:"+name+"/allkeys", "%s on %s: key listing differs (got %d want %d keys)", name, label, len(keys), len(wantKeys))
				}
			}
			for _, s := range seq {
				k := lab.ToCid(s.Cid)
				adm, _ := m.Lookup(s.Cid)
				has, err := ro.Has(bg, k)
				if err != nil || !has {
					t.Violatef("reader:"+name+"/has", "%s on %s: Has(%s) = %v, %v for a written block", name, label, k, has, err)
				}
				b, err := ro.Get(bg, k)
				if err != nil {
					t.Violatef("reader:"+name+"/get", "%s on %s: Get(%s) failed: %v", name, label, k, err)
				} else if !lab.ContainsData(adm, b.RawData()) {
					t.Violatef("reader:"+name+"/get", "%s on %s: Get(%s) returned bytes that no section with that key holds", name, label, k)
				}
				n, err := ro.GetSize(bg, k)
				if err != nil {
					t.Violatef("reader:"+name+"/getsize", "%s on %s: GetSize(%s) failed: %v", name, label, k, err)
				} else {
					ok := false
					for _, a := range adm {
						if len(a) == n {
							ok = true
						}
					}
					if !ok {
						t.Violatef("reader:"+name+"/getsize", "%s on %s: GetSize(%s) = %d matches no section", name, label, k, n)
					}
				}
				t.Events(3)
			}
		}
	}
	{
		name := "storage.OpenReadable"
		sr, err := storage.OpenReadable(bytes.NewReader(file), ropts...)
		if err != nil {
			rerr(name, err)
		} else {
			checkRoots(name, sr.Roots())
			for _, s := range seq {
				adm, _ := m.Lookup(s.Cid)
				has, err := sr.Has(bg, string(s.Cid))
				if err != nil || !has {
					t.Violatef("reader:"+name+"/has", "%s on %s: Has(%x) = %v, %v for a written block", name, label, s.Cid, has, err)
				}
				b, err := sr.Get(bg, string(s.Cid))
				if err != nil {
					t.Violatef("reader:"+name+"/get", "%s on %s: Get(%x) failed: %v", name, label, s.Cid, err)
				} else if !lab.ContainsData(adm, b) {
					t.Violatef("reader:"+name+"/get", "%s on %s: Get(%x) returned bytes that no section with that key holds", name, label, s.Cid)
				}
				st, err := sr.GetStream(bg, string(s.Cid))
				if err != nil {
					t.Violatef("reader:"+name+"/getstream", "%s on %s: GetStream(%x) failed: %v", name, label, s.Cid, err)
				} else {
					b2, _ := io.ReadAll(st)
					st.Close()
					if !lab.ContainsData(adm, b2) {
						t.Violatef("reader:"+name+"/getstream", "%s on %s: GetStream(%x) returned bytes that no section with that key holds", name, label, s.Cid)
					}
				}
				t.Events(3)
			}
		}
	}
}

func uvlenClass(n uint64) string { return fmt.Sprintf("%d", refcar.UvarintLen(n)) }

func runC01(t *mon.T, raw json.RawMessage) {
	var d c01Desc
	if err := json.Unmarshal(raw, &d); err != nil {
		panic(err)
	}
	content := c01Content(d)
	cfg := d.Cfg
	seq := lab.Dedupe(cfg, content.Blocks)
	roots := lab.ToCids(content.Roots, content.NilRoots)
	wantPayload := refcar.EncodeV1(content.Roots, content.NilRoots, seq)

	dir := lab.TempDir("c01")
	defer os.RemoveAll(dir)

	// coverage bookkeeping
	t.Cover("cfg:" + cfg.Short())
	hb := refcar.EncodeHeaderBody(content.Roots, content.NilRoots, 1)
	t.Cover("header-varint-width:" + uvlenClass(uint64(len(hb))))
	for _, s := range seq {
		t.Cover("section-varint-width:" + uvlenClass(uint64(len(s.Cid)+len(s.Data))))
		c, _, _ := refcar.SplitCid(s.Cid)
		if c.IsIdentity() {
			t.Cover("stored-identity-blocks")
		}
		if c.Version == 0 {
			t.Cover("cidv0-blocks")
		}
		if len(s.Data) == 0 {
			t.Cover("empty-data-blocks")
		}
	}
	if len(seq) != len(content.Blocks) {
		t.Cover("contents-with-deduplicated-blocks")
	}
	if len(seq) >= 2 {
		t.Nontrivial()
	}
	if len(content.Roots) == 0 {
		t.Cover("rootless")
	}

	seen := map[string]bool{}
	for _, w := range c01Writers() {
		if !w.ok(cfg, content.Blocks) {
			continue
		}
		t.Cover("writer:" + w.name)
		file, err := w.run(dir, roots, cfg, content.Blocks)
		if err != nil {
			t.Violatef("writer:"+w.name+"/error", "%s failed on valid content: %v (cfg %s)", w.name, err, cfg)
			continue
		}
		var payload []byte
		if cfg.V1 {
			payload = file
		} else {
			h, err := refcar.ParseV2Header(file)
			if err != nil || h.DataOffset+h.DataSize > uint64(len(file)) || h.DataOffset+h.DataSize < h.DataOffset {
				t.Violatef("writer:"+w.name+"/container", "%s produced a file whose CARv2 header does not locate a payload: %v %+v", w.name, err, h)
				continue
			}
			payload = file[h.DataOffset : h.DataOffset+h.DataSize]
		}
		if !bytes.Equal(payload, wantPayload) {
			got, _ := refcar.DecodeV1(payload, false)
			var gs []refcar.Block
			if got != nil {
				for _, s := range got.Sections {
					gs = append(gs, refcar.Block{Cid: s.Cid.Raw, Data: s.Data})
				}
			}
			t.ViolateD("writer:"+w.name+"/payload-mismatch", map[string]any{"got": seqSummary(gs), "want": seqSummary(seq), "cfg": cfg.String()},
				"%s: CARv1 payload differs from the reference encoding of the logical content at byte %d (got %d bytes, want %d)", w.name, lab.FirstDiff(payload, wantPayload), len(payload), len(wantPayload))
			continue
		}
		t.Events(1)
		k := string(file)
		if seen[k] {
			continue
		}
		seen[k] = true
		c01Read(t, dir, w.name+" output", file, wantPayload, content.Roots, seq, cfg)
	}

	// root-module writer: single root = first block linking to the rest; de-duplication is by CID.
	if len(seq) > 0 {
		uniq := map[string]bool{}
		var rs []refcar.Block
		for _, s := range seq {
			if !uniq[string(s.Cid)] {
				uniq[string(s.Cid)] = true
				rs = append(rs, s)
			}
		}
		g := fakeGetter{}
		var links []*format.Link
		for _, s := range seq[1:] { // links keep the duplicates: the walker must visit each CID once
			links = append(links, &format.Link{Cid: lab.ToCid(s.Cid)})
		}
		for i, s := range rs {
			n := &fakeNode{Block: lab.ToBlock(s)}
			if i == 0 {
				n.links = links
			}
			g[lab.ToCid(s.Cid).KeyString()] = n
		}
		rootRaw := [][]byte{rs[0].Cid}
		if d.Seed%3 == 0 {
			rootRaw = append(rootRaw, rs[0].Cid) // duplicate root
		}
		var buf bytes.Buffer
		name := "root.WriteCarWithWalker"
		t.Cover("writer:" + name)
		err := carv1.WriteCarWithWalker(bg, g, lab.ToCids(rootRaw, false), &buf, carv1.DefaultWalkFunc)
		if err != nil {
			t.Violatef("writer:"+name+"/error", "%s failed: %v", name, err)
		} else {
			want := refcar.EncodeV1(rootRaw, false, rs)
			if !bytes.Equal(buf.Bytes(), want) {
				t.Violatef("writer:"+name+"/payload-mismatch", "%s: output differs from the reference encoding at byte %d", name, lab.FirstDiff(buf.Bytes(), want))
			} else {
				// same logical content through a v2-module writer must be byte-identical
				var b2 bytes.Buffer
				w, err := storage.NewWritable(lab.PlainWriter{W: &b2}, lab.ToCids(rootRaw, false), carv2.WriteAsCarV1(true), carv2.UseWholeCIDs(true), carv2.StoreIdentityCIDs(true))
				if err == nil {
					for _, s := range rs {
						if err = w.Put(bg, string(s.Cid), s.Data); err != nil {
							break
						}
					}
				}
				if err != nil {
					t.Violatef("writer:storage.NewWritable/io.Writer/error", "unexpected error: %v", err)
				} else if !bytes.Equal(b2.Bytes(), buf.Bytes()) {
					t.Violatef("writer:cross/root-vs-storage", "root-module writer and storage writer disagree at byte %d", lab.FirstDiff(b2.Bytes(), buf.Bytes()))
				}
				c01Read(t, dir, name+" output", buf.Bytes(), want, rootRaw, rs, lab.Cfg{V1: true, WholeCID: true, StoreID: true})
			}
		}
	}

	// WrapV1 of the payload
	{
		name := "v2.WrapV1"
		t.Cover("writer:" + name)
		var out bytes.Buffer
		wcfg := lab.Cfg{Sorted: cfg.Sorted, StoreID: cfg.StoreID}
		err := carv2.WrapV1(bytes.NewReader(wantPayload), &out, wcfg.Opts()...)
		if err != nil {
			t.Violatef("writer:"+name+"/error", "%s failed: %v", name, err)
		} else {
			a, err := refcar.Decode(out.Bytes(), false)
			if err != nil {
				t.Violatef("writer:"+name+"/container", "%s output does not decode: %v", name, err)
			} else if !bytes.Equal(out.Bytes()[a.PayloadOff:a.PayloadOff+a.PayloadLen], wantPayload) {
				t.Violatef("writer:"+name+"/payload-mismatch", "%s changed the payload", name)
			} else {
				rcfg := cfg
				rcfg.V1 = false
				c01Read(t, dir, name+" output", out.Bytes(), wantPayload, content.Roots, seq, rcfg)
			}
		}
	}

	t.Sample(map[string]any{"cfg": cfg.String(), "roots": len(content.Roots), "blocks_put": seqSummary(content.Blocks), "blocks_stored": len(seq), "payload_bytes": len(wantPayload)})
}

func genC01(g *mon.G) {
	r := gen.Rand(g.Seed)
	n := g.Pick(1500, 40000)
	dpads := []uint64{0, 0, 1, 7, 1413, 4096, 4097, 8141, 12289}
	ipads := []uint64{0, 0, 1, 1024, 4097, 10000}
	for i := 0; i < n; i++ {
		cfg := lab.Cfg{
			V1:       r.Intn(3) == 0,
			Sorted:   r.Intn(2) == 0,
			WholeCID: r.Intn(3) == 0,
			AllowDup: r.Intn(4) == 0,
			StoreID:  r.Intn(2) == 0,
		}
		if !cfg.V1 || r.Intn(2) == 0 { // paddings are also given in CARv1 mode, where they must change nothing
			cfg.DataPad = dpads[r.Intn(len(dpads))]
			cfg.IndexPad = ipads[r.Intn(len(ipads))]
		}
		g.Emit(c01Desc{Seed: r.Int63(), Cfg: cfg, Big: g.Thorough() && i%50 == 0 || i == 7})
	}
	// contents with about a thousand and more blocks (batch sizes of loaders: 1000)
	for i, n := range []int{999, 1000, 1001, 1002, 2001, 2503, 4097} {
		if i >= g.Pick(4, 7) {
			break
		}
		g.Emit(c01Desc{Seed: r.Int63(), Cfg: lab.Cfg{V1: i%2 == 0, Sorted: i%3 == 0}, Many: n})
	}
}

func init() {
	Register(&mon.Check{
		ID:          "C01",
		Level:       "exploration",
		Rule:        "cases = seeded (content, option configuration) pairs; each content goes through every applicable writer (blockstore Put/PutMany, storage WriterAt/io.Writer/ReadableWritable, deferred path/stream, root-module walker writer, WrapV1) and each distinct output through every reader (v2 BlockReader on 3 source kinds, v2 Reader, root CarReader, root LoadCar slow+batch, ReadOnly blockstore, readable storage); non-trivial = the de-duplicated content has ≥ 2 blocks; distinct = distinct descriptor",
		Assumptions: []string{"reference codec refcar is correct (cross-checked against go-car on benign inputs by construction of this very check)", "honest blocks only: hashes computed by Go stdlib/x-crypto"},
		Gen:         genC01,
		Run:         runC01,
		MinCover: map[string]int{
			"writer:blockstore.ReadWrite/Put": 50, "writer:storage.NewWritable/io.Writer": 10, "writer:deferred.ForStream": 10,
			"writer:root.WriteCarWithWalker": 50, "writer:v2.WrapV1": 50,
			"header-varint-width:1": 1, "header-varint-width:2": 1, "section-varint-width:1": 1, "section-varint-width:2": 1, "section-varint-width:3": 1,
			"stored-identity-blocks": 1, "cidv0-blocks": 1, "empty-data-blocks": 1, "contents-with-deduplicated-blocks": 1, "rootless": 1,
		},
	})
}
