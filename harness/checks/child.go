package checks

import "fmt"

// childKinds maps a child-process kind to its entry point.
var childKinds = map[string]func(args []string) int{}

// Child runs a worker process (used by the checks that need process isolation).
func Child(args []string) int {
	if len(args) == 0 {
		fmt.Println("child: missing kind")
		return 2
	}
	f, ok := childKinds[args[0]]
	if !ok {
		fmt.Printf("child: unknown kind %q\n", args[0])
		return 2
	}
	return f(args[1:])
}
