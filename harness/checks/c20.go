package checks

import (
	"bytes"
	"context"
	"encoding/json"
	"errors"
	"fmt"
	"github.com/ipfs/go-cid"
	carv2 "github.com/ipld/go-car/v2"
	"math/rand"
	"os"
	"path/filepath"
	"runtime"
	"strings"
	"sync"
	"sync/atomic"
	"time"

	"github.com/ipld/go-car/v2/storage"
	"github.com/ipld/go-car/v2/storage/deferred"

	"carlab/internal/gen"
	"carlab/internal/iofault"
	"carlab/internal/lab"
	"carlab/internal/mon"
	"carlab/internal/refcar"
)

type c20Desc struct {
	Target string   `json:"target"` // path-v1 | path-v2 | path-v2-opts | stream | stream-opts
	Prefix []string `json:"prefix,omitempty"`
	Depth  int      `json:"depth,omitempty"`
	Seed   int64    `json:"seed,omitempty"`
	Random int      `json:"random,omitempty"`
	Conc   int      `json:"conc,omitempty"` // > 0: this many scenarios of overlapping Puts
}

// countingStream records every write reaching the stream.
type countingStream struct {
	buf    bytes.Buffer
	writes int
	quota  int // < 0: unlimited; otherwise the stream fails once this many bytes were accepted
}

func (c *countingStream) Write(p []byte) (int, error) {
	c.writes++
	if c.quota >= 0 {
		room := c.quota - c.buf.Len()
		if room < len(p) {
			if room < 0 {
				room = 0
			}
			c.buf.Write(p[:room])
			return room, errors.New("injected: broken pipe")
		}
	}
	return c.buf.Write(p)
}

var c20Ops = []string{"OnPutOnce", "OnPutAlways", "OnPutNest", "Has:k1", "Has:k2", "Put:k1", "Put:k2", "Put:id", "Put:bad", "Put:k2c", "Close"}

func c20Cfg(target string) lab.Cfg {
	switch target {
	case "path-v1":
		return lab.Cfg{V1: true}
	case "path-v2", "path-v2-first-header-fails":
		return lab.Cfg{}
	case "path-v2-opts":
		return lab.Cfg{DataPad: 5, IndexPad: 3, Sorted: true, StoreID: true}
	case "stream", "stream-failing":
		return lab.Cfg{V1: true}
	case "stream-v2-refused":
		// a plain stream asked for a CARv2: the direct writer refuses (not seekable), and so must every Put
		return lab.Cfg{}
	case "stream-opts":
		return lab.Cfg{V1: true, AllowDup: true, StoreID: true, WholeCID: true}
	case "stream-writerat-default":
		// a stream that happens to be an io.WriterAt (os.Stdout is an *os.File), default options:
		// the stream constructor's CARv1 default applies all the same
		return lab.Cfg{V1: true}
	case "stream-writerat-v2":
		// a "stream" that is also an io.WriterAt, with an explicit WriteAsCarV1(false): a CARv2 is written
		return lab.Cfg{IndexPad: 2}
	}
	panic(target)
}

func c20RunHistory(t *mon.T, target string, hist []string, dir string) {
	cfg := c20Cfg(target)
	isStream := strings.HasPrefix(target, "stream")
	sha := func(d []byte) []byte { h, _ := refcar.Hash(0x12, d); return h }
	blk := map[string]refcar.Block{
		"k1": {Cid: refcar.MakeCidV1(0x55, 0x12, sha([]byte("one"))), Data: []byte("one")},
		"k2": {Cid: refcar.MakeCidV1(0x71, 0x12, sha([]byte("block two"))), Data: []byte("block two")},
		"id": {Cid: refcar.MakeCidV1(0x55, 0x00, []byte("idd")), Data: []byte("idd")},
	}
	rootsRaw := [][]byte{blk["k1"].Cid}
	roots := lab.ToCids(rootsRaw, false)
	switch len(hist) % 5 {
	case 3:
		roots = []cid.Cid{} // no roots, as an empty non-nil list: the header says [] (0x80)
		t.Cover("roots:empty-list")
	case 4:
		roots = nil // no roots, as nil: the header says null (0xf6)
		t.Cover("roots:nil")
	}
	hstr := strings.Join(hist, " ")
	viol := func(key, format string, a ...any) {
		t.ViolateD("deferred("+target+")/"+key, map[string]any{"history": hstr}, "[%s] "+format, append([]any{hstr}, a...)...)
	}

	path := filepath.Join(dir, "out.car")
	os.Remove(path)
	preexisting := false
	if !isStream && len(hist)%3 == 2 {
		// the path already holds a larger file (an earlier output): it must be replaced, not overlaid
		mustWrite(path, bytes.Repeat([]byte{0xEE}, 4096))
		preexisting = true
	}
	stream := &countingStream{quota: -1}
	refused := target == "stream-v2-refused"
	failing := target == "stream-failing" || refused
	if target == "stream-failing" {
		// the stream breaks after the header (59 bytes) / after the first section / inside the header
		stream.quota = []int{70, 110, 20, 59}[len(hist)%4]
	}
	streamFailed := false
	var w *deferred.DeferredCarWriter
	// the deferred stream constructor forces CARv1 itself; pass the remaining options only
	dopts := cfg
	var wat *iofault.MemFile
	opts := cfg.Opts()
	var prefix []byte
	if strings.HasPrefix(target, "stream-writerat") && len(hist)%2 == 0 {
		// the stream already holds data and its write position is behind it (a file opened for append-like
		// use): an io.WriterAt is written from absolute offset 0 by the direct writer, and so by this one
		prefix = bytes.Repeat([]byte{0xEE}, 37)
	}
	if target == "stream-writerat-v2" {
		wat = iofault.New(nil)
		opts = append(opts, carv2.WriteAsCarV1(false))
		w = deferred.NewDeferredCarWriterForStream(wat, roots, opts...)
	} else if target == "stream-writerat-default" {
		wat = iofault.New(nil)
		w = deferred.NewDeferredCarWriterForStream(wat, roots) // no option at all
	} else if refused {
		w = deferred.NewDeferredCarWriterForStream(stream, roots, append(cfg.Opts(), carv2.WriteAsCarV1(false))...)
	} else if isStream {
		dopts.V1 = false
		// the caller's option slice has spare capacity and is used for a second writer as well (a
		// constructor must not write into the slice it was handed)
		shared := append(make([]carv2.Option, 0, 16), dopts.Opts()...)
		w = deferred.NewDeferredCarWriterForStream(stream, roots, shared...)
		_ = deferred.NewDeferredCarWriterForStream(&bytes.Buffer{}, roots, shared...)
	} else {
		if target == "path-v2-first-header-fails" {
			// the first write of the CARv1 header fails (3 bytes get through), every later write works:
			// the Put fails, the caller puts again, the writer starts the file over
			tp := iofault.TapPath(path)
			tp.SetFaults([]iofault.Fault{{At: 0, Keep: 3}})
			defer iofault.UntapPath(path)
		}
		shared := append(make([]carv2.Option, 0, 16), cfg.Opts()...)
		w = deferred.NewDeferredCarWriterForPath(path, roots, shared...)
		_ = deferred.NewDeferredCarWriterForPath(path+".other", roots, shared...)
	}
	pathFailed := false
	// the direct writer with the same roots/options, fed the same puts
	direct := iofault.New(nil)
	direct.NoLog = true
	watBase := 0
	if wat != nil && prefix != nil {
		wat.Write(prefix)
		direct.Write(prefix)
		watBase = wat.Writes()
		t.Cover("stream-writerat:write-position-not-at-the-start")
	}
	var dw storage.WritableCar
	output := func() ([]byte, bool) {
		if wat != nil {
			return wat.Bytes(), wat.Writes() > watBase
		}
		if isStream {
			return stream.buf.Bytes(), stream.writes > 0
		}
		b, err := os.ReadFile(path)
		if err != nil {
			return nil, false
		}
		if preexisting && len(b) == 4096 && b[0] == 0xEE && b[4095] == 0xEE {
			return nil, false // still the untouched earlier file: nothing written yet
		}
		return b, true
	}

	// model
	type cb struct {
		id   int
		once bool
	}
	var cbs []cb
	var log, wantLog []string
	optional := map[int]bool{} // indexes into wantLog of entries that may be absent
	var nested []cb            // callbacks registered from inside a callback during the current Put
	nextID := 0
	started, closed := false, false
	m := &lab.Model{Cfg: cfg}

	for i, op := range hist {
		switch {
		case op == "OnPutOnce" || op == "OnPutAlways":
			id := nextID
			nextID++
			once := op == "OnPutOnce"
			cbs = append(cbs, cb{id, once})
			w.OnPut(func(n int) { log = append(log, fmt.Sprintf("cb%d(%d)", id, n)) }, once)
		case op == "OnPutNest":
			// a once-only callback that, when it fires, registers a persistent callback (OnPut takes no
			// lock, so this is legal): the new one fires on every LATER Put; whether it also fires on the
			// Put during which it was registered is not fixed
			id := nextID
			inner := nextID + 1
			nextID += 2
			cbs = append(cbs, cb{id, true})
			w.OnPut(func(n int) {
				log = append(log, fmt.Sprintf("cb%d(%d)", id, n))
				w.OnPut(func(n int) { log = append(log, fmt.Sprintf("cb%d(%d)", inner, n)) }, false)
				nested = append(nested, cb{inner, false})
			}, true)
			t.Cover("callback-registered-from-inside-a-callback")
		case strings.HasPrefix(op, "Has:"):
			b := blk[op[4:]]
			has, err := w.Has(bg, string(b.Cid))
			t.Events(1)
			if closed {
				if !errors.Is(err, storage.ErrClosed) {
					viol("Has/after-close", "step %d: Has after Close returned %v, %v", i, has, err)
				}
				break
			}
			if streamFailed {
				break // lookups on a writer whose stream failed are C16's business
			}
			adm, _ := m.Lookup(b.Cid)
			want := started && len(adm) > 0
			if err != nil || has != want {
				viol("Has/differs-from-model", "step %d: Has(%s) = %v, %v; want %v", i, op[4:], has, err, want)
			}
		case strings.HasPrefix(op, "Put:"):
			b := blk[strings.TrimSuffix(op[4:], "c")]
			pctx := bg
			if op == "Put:k2c" {
				// the caller's context is already cancelled: a direct writer does not look at it, so neither
				// may the deferred one (the same puts must give the same bytes)
				cctx, cancel := context.WithCancel(context.Background())
				cancel()
				pctx = cctx
				t.Cover("put-under-a-cancelled-context")
			}
			badKey := op == "Put:bad"
			if badKey {
				// a key that is no CID: the Put fails — as a Put: callbacks fire, a deferred writer is started
				// (a direct writer has its header out and rejects only the block)
				b = refcar.Block{Cid: []byte("no CID at all"), Data: []byte("payload of the bad put")}
			}
			err := w.Put(pctx, string(b.Cid), b.Data)
			t.Events(1)
			if closed {
				if !errors.Is(err, storage.ErrClosed) {
					viol("Put/after-close", "step %d: Put after Close returned %v", i, err)
				}
				break
			}
			// callbacks: registration order, once-callbacks exactly once; they announce the START of
			// a Put, so a Put that then fails on the stream has fired them too
			var keep []cb
			for _, c := range cbs {
				wantLog = append(wantLog, fmt.Sprintf("cb%d(%d)", c.id, len(b.Data)))
				if !c.once {
					keep = append(keep, c)
				}
			}
			cbs = keep
			// callbacks registered during this Put: registered from now on, optional for this Put
			for _, c := range nested {
				optional[len(wantLog)] = true
				wantLog = append(wantLog, fmt.Sprintf("cb%d(%d)", c.id, len(b.Data)))
				cbs = append(cbs, c)
			}
			nested = nil
			if badKey && !failing && !(target == "path-v2-first-header-fails" && !pathFailed) {
				if err == nil {
					viol("Put/bad-key-accepted", "step %d: Put with a key that is no CID returned nil", i)
					return
				}
				if !started {
					started = true
					var derr error
					dw, derr = storage.NewWritable(direct, roots, opts...)
					if derr != nil {
						panic(derr)
					}
					t.Cover("first-put")
				}
				if derr := dw.Put(bg, string(b.Cid), b.Data); derr == nil {
					panic("c20: the direct writer accepts a key that is no CID")
				}
				t.Cover("put-with-a-key-that-is-no-cid")
				break
			}
			if err != nil && target == "path-v2-first-header-fails" && !pathFailed {
				pathFailed = true // the injected fault: this Put is not acknowledged, the next one starts over
				t.Cover("failing-path:first-put-failed")
				break
			}
			if refused && err == nil && !streamFailed {
				viol("Put/acknowledged-on-refused-target", "step %d: Put succeeded on a plain stream asked for a CARv2; a direct writer refuses that target", i)
				return
			}
			if err != nil && failing {
				streamFailed = true
				started = true // the first Put was attempted: output may exist from here on
				t.Cover("failing-stream:put-failed")
				break
			}
			if err != nil {
				viol("Put/error", "step %d: Put failed: %v", i, err)
				return
			}
			if streamFailed {
				break // e.g. a de-duplicated Put needs no write; what a broken stream may acknowledge is C16's business
			}
			if !started {
				started = true
				var derr error
				dw, derr = storage.NewWritable(direct, roots, opts...)
				if derr != nil {
					panic(derr)
				}
				t.Cover("first-put")
			}
			if derr := dw.Put(pctx, string(b.Cid), b.Data); derr != nil {
				panic(derr)
			}
			m.Put(b)
		case op == "Close":
			err := w.Close()
			t.Events(1)
			if closed {
				if !errors.Is(err, storage.ErrClosed) {
					viol("Close/after-close", "step %d: second Close returned %v", i, err)
				}
				break
			}
			if err != nil && !streamFailed && !(pathFailed && !started) {
				viol("Close/error", "step %d: Close failed: %v", i, err)
			}
			if pathFailed && started {
				t.Cover("failing-path:restarted-and-closed")
			}
			if streamFailed {
				t.Cover("failing-stream:close-after-failure")
			}
			closed = true // whatever Close returned, the writer is closed from now on
			if started && !streamFailed {
				if derr := dw.Finalize(); derr != nil {
					panic(derr)
				}
				t.Cover("close-after-put")
			} else {
				t.Cover("close-before-put")
			}
		}
		// observations after every step
		out, exists := output()
		if !started {
			if exists && !pathFailed {
				what := "the file exists"
				if isStream {
					what = fmt.Sprintf("%d write(s) reached the stream", stream.writes)
				}
				viol("laziness/output-before-first-put", "step %d (%s): %s before the first Put", i, op, what)
			}
			t.Cover("lazy-steps-observed")
		} else if streamFailed {
			// bytes after a failed write are C16's business; here only "closed means closed" and the callbacks
			if refused && stream.writes > 0 {
				viol("output/bytes-on-refused-target", "step %d (%s): %d write(s) reached a stream on which no CARv2 can be written", i, op, stream.writes)
				return
			}
		} else {
			want := direct.Bytes()
			if !exists || !bytes.Equal(out, want) {
				viol("output/differs-from-direct-writer", "step %d (%s): output differs from a directly constructed writer at byte %d (%d vs %d bytes)", i, op, lab.FirstDiff(out, want), len(out), len(want))
				return
			}
			t.Cover("byte-comparisons")
		}
		if !c20LogMatches(log, wantLog, optional) {
			viol("callbacks/log-differs", "step %d (%s): callback log [%s], want [%s]", i, op, strings.Join(log, " "), strings.Join(wantLog, " "))
			return
		}
	}
	if len(wantLog) > 0 {
		t.Cover("histories-with-callbacks")
	}
	if !closed {
		w.Close()
	}
}

// c20RunConcurrent: several goroutines put at the same time while once-only callbacks are registered.
// The writer serialises Puts itself (its mutex), so "once per Put, once-only callbacks exactly once,
// registration order" is as decidable as in a sequential history; the output must equal a direct
// writer fed the same puts in SOME order. The first callback entered lingers a moment so that
// another Put arrives while a Put is in progress (widening, not a verdict).
func c20RunConcurrent(t *mon.T, target string, r *rand.Rand, dir string) {
	cfg := c20Cfg(target)
	isStream := strings.HasPrefix(target, "stream")
	sha := func(d []byte) []byte { h, _ := refcar.Hash(0x12, d); return h }
	var blks []refcar.Block
	nput := 2 + r.Intn(3)
	for i := 0; i < nput; i++ {
		data := bytes.Repeat([]byte{byte('a' + i)}, 3+i) // distinct lengths identify the Put in the callback log
		blks = append(blks, refcar.Block{Cid: refcar.MakeCidV1(0x55, 0x12, sha(data)), Data: data})
	}
	roots := lab.ToCids([][]byte{blks[0].Cid}, false)
	path := filepath.Join(dir, "conc.car")
	os.Remove(path)
	stream := &countingStream{quota: -1}
	var w *deferred.DeferredCarWriter
	opts := cfg.Opts()
	if isStream {
		dopts := cfg
		dopts.V1 = false
		w = deferred.NewDeferredCarWriterForStream(stream, roots, dopts.Opts()...)
	} else {
		w = deferred.NewDeferredCarWriterForPath(path, roots, opts...)
	}
	type reg struct{ once bool }
	ncb := 2 + r.Intn(3)
	regs := make([]reg, ncb)
	var mu sync.Mutex
	var log []string // "cb<id>(<n>)"
	entered := make(chan struct{}, 64)
	var lingered atomic.Bool
	desc := ""
	for i := range regs {
		regs[i].once = r.Intn(2) == 0
		if i == ncb-1 && !regs[0].once && !regs[ncb-1].once {
			regs[i].once = true // at least one once-only callback
		}
		id := i
		if regs[i].once {
			desc += "o"
		} else {
			desc += "a"
		}
		w.OnPut(func(n int) {
			mu.Lock()
			log = append(log, fmt.Sprintf("cb%d(%d)", id, n))
			mu.Unlock()
			select {
			case entered <- struct{}{}:
			default:
			}
			if lingered.CompareAndSwap(false, true) {
				time.Sleep(3 * time.Millisecond)
			}
			runtime.Gosched()
		}, regs[i].once)
	}
	viol := func(key, format string, a ...any) {
		t.ViolateD("deferred("+target+")/concurrent/"+key, map[string]any{"callbacks": desc, "puts": nput}, "[%d overlapping Puts, callbacks %s] "+format, append([]any{nput, desc}, a...)...)
	}
	errs := make([]error, nput)
	var wg sync.WaitGroup
	for i := 0; i < nput; i++ {
		wg.Add(1)
		go func(i int) {
			defer wg.Done()
			if i > 0 {
				<-entered // start while the first Put is inside its callbacks
			}
			errs[i] = w.Put(bg, string(blks[i].Cid), blks[i].Data)
			select {
			case entered <- struct{}{}:
			default:
			}
		}(i)
	}
	wg.Wait()
	t.Events(nput)
	for i, err := range errs {
		if err != nil {
			viol("Put/error", "Put %d failed: %v", i, err)
			return
		}
	}
	cerr := w.Close()
	if cerr != nil {
		viol("Close/error", "Close failed: %v", cerr)
		return
	}
	// callbacks: per Put (identified by n), the persistent callbacks exactly once each, in registration order;
	// every once-only callback exactly once over the whole scenario, and within its Put in registration order
	perPut := map[int][]int{}
	total := map[int]int{}
	for _, e := range log {
		var id, n int
		fmt.Sscanf(e, "cb%d(%d)", &id, &n)
		perPut[n] = append(perPut[n], id)
		total[id]++
	}
	for id, rg := range regs {
		want := nput
		if rg.once {
			want = 1
		}
		if total[id] != want {
			kind := "persistent"
			if rg.once {
				kind = "once-only"
			}
			viol("callbacks/count", "%s callback %d fired %d times, want %d (log %v)", kind, id, total[id], want, log)
			return
		}
	}
	for n, ids := range perPut {
		for k := 1; k < len(ids); k++ {
			if ids[k] <= ids[k-1] {
				viol("callbacks/order", "within the Put of %d bytes the callbacks ran in the order %v, not in registration order", n, ids)
				return
			}
		}
	}
	t.Cover("concurrent:callback-logs-checked")
	// output: equal to a direct writer fed the puts in the order in which they reached the file
	var out []byte
	if isStream {
		out = stream.buf.Bytes()
	} else {
		out, _ = os.ReadFile(path)
	}
	okAny := false
	perm := make([]int, nput)
	for i := range perm {
		perm[i] = i
	}
	var try func(k int)
	try = func(k int) {
		if okAny {
			return
		}
		if k == nput {
			direct := iofault.New(nil)
			direct.NoLog = true
			dw, derr := storage.NewWritable(direct, roots, opts...)
			if derr != nil {
				panic(derr)
			}
			for _, i := range perm {
				if derr := dw.Put(bg, string(blks[i].Cid), blks[i].Data); derr != nil {
					panic(derr)
				}
			}
			if derr := dw.Finalize(); derr != nil {
				panic(derr)
			}
			if bytes.Equal(direct.Bytes(), out) {
				okAny = true
			}
			return
		}
		for j := k; j < nput; j++ {
			perm[k], perm[j] = perm[j], perm[k]
			try(k + 1)
			perm[k], perm[j] = perm[j], perm[k]
		}
	}
	try(0)
	if !okAny {
		viol("output/differs-from-direct-writer", "the output (%d bytes) equals a direct writer's for no order of the %d puts", len(out), nput)
		return
	}
	t.Cover("concurrent:byte-comparisons")
	if err := w.Put(bg, string(blks[0].Cid), blks[0].Data); !errors.Is(err, storage.ErrClosed) {
		viol("Put/after-close", "Put after Close returned %v", err)
	}
}

// c20LogMatches: the observed callback log equals the wanted one, entries marked optional may be absent.
func c20LogMatches(log, want []string, optional map[int]bool) bool {
	i := 0
	for j, w := range want {
		if i < len(log) && log[i] == w {
			i++
			continue
		}
		if !optional[j] {
			return false
		}
	}
	return i == len(log)
}

func runC20(t *mon.T, raw json.RawMessage) {
	var d c20Desc
	if err := json.Unmarshal(raw, &d); err != nil {
		panic(err)
	}
	dir := lab.TempDir("c20")
	defer os.RemoveAll(dir)
	t.Nontrivial()
	t.Cover("target:" + d.Target)
	n := 0
	if d.Conc > 0 {
		r := gen.Rand(d.Seed)
		for i := 0; i < d.Conc; i++ {
			c20RunConcurrent(t, d.Target, r, dir)
			n++
		}
	} else if d.Random > 0 {
		r := gen.Rand(d.Seed)
		for i := 0; i < d.Random; i++ {
			h := make([]string, 5+r.Intn(25))
			for j := range h {
				h[j] = c20Ops[r.Intn(len(c20Ops))]
				if h[j] == "Close" && r.Intn(4) != 0 {
					h[j] = "Put:k2"
				}
			}
			c20RunHistory(t, d.Target, h, dir)
			n++
		}
	} else {
		var rec func(h []string, depth int)
		rec = func(h []string, depth int) {
			c20RunHistory(t, d.Target, h, dir)
			n++
			if depth == 0 {
				return
			}
			for _, op := range c20Ops {
				rec(append(append([]string{}, h...), op), depth-1)
			}
		}
		rec(d.Prefix, d.Depth)
	}
	t.CoverN("histories", n)
	t.Sample(map[string]any{"target": d.Target, "prefix": d.Prefix, "depth": d.Depth, "histories": n})
}

func genC20(g *mon.G) {
	targets := []string{"path-v1", "path-v2", "path-v2-opts", "stream", "stream-opts", "stream-writerat-v2", "stream-failing", "stream-writerat-default", "path-v2-first-header-fails", "stream-v2-refused"}
	depth := g.Pick(3, 4) // histories up to length 1+depth (the alphabet has 11 operations)
	for _, tg := range targets {
		for _, op := range c20Ops {
			g.Emit(c20Desc{Target: tg, Prefix: []string{op}, Depth: depth})
		}
	}
	r := gen.Rand(g.Seed)
	for i := 0; i < g.Pick(20, 400); i++ {
		g.Emit(c20Desc{Target: targets[i%len(targets)], Seed: r.Int63(), Random: 50})
	}
	for i, tg := range []string{"path-v1", "path-v2", "path-v2-opts", "stream", "stream-opts"} {
		for k := 0; k < g.Pick(2, 20); k++ {
			g.Emit(c20Desc{Target: tg, Seed: r.Int63() + int64(i), Conc: 25})
		}
	}
}

func init() {
	Register(&mon.Check{
		ID:          "C20",
		Level:       "exploration",
		Rule:        "EXHAUSTIVE: all op strings of length ≤ 4 (quick) / ≤ 5 (thorough) over {OnPut(once), OnPut(always), OnPut(a callback that registers another), Has(k1), Has(k2), Put(k1), Put(k2), Put(identity), Put(a key that is no CID), Put(k2 under a cancelled context), Close} x 10 targets (a plain stream asked for a CARv2, which a direct writer refuses: every Put fails, nothing reaches the stream, closed means closed; a path whose first header write fails and which is started over by the next Put, a stream that is an io.WriterAt with default options, path CARv1, path CARv2, path CARv2 with paddings/codec/identity options, stream, stream with options, a stream that is an io.WriterAt with WriteAsCarV1(false), a stream that breaks after 20/59/70/110 bytes: callbacks still once per Put, and after the first Close, whatever it returned, every call reports closed), plus random strings of length 5-30, plus scenarios of 2-4 overlapping Puts from separate goroutines with 2-4 callbacks (counts, per-Put order, output equal to a direct writer for some order of the puts); after EVERY step: no write on the stream / no file before the first Put, then output bytes equal to a directly constructed storage.NewWritable fed the same puts, callback log equal to the model's (registration order, once-callbacks exactly once), closed-error after Close. A case = all strings sharing a first op; counters.histories counts individual strings",
		Assumptions: []string{"the direct writer itself is judged by C01/C05; here only equality with it", "callbacks are registered from the same goroutine (OnPut is registration, not a concurrent operation)"},
		Gen:         genC20,
		Run:         runC20,
		MinCover:    map[string]int{"histories": 10000, "lazy-steps-observed": 1000, "byte-comparisons": 5000, "first-put": 1000, "close-before-put": 100, "close-after-put": 500, "histories-with-callbacks": 1000, "failing-stream:put-failed": 100, "failing-path:first-put-failed": 100, "failing-path:restarted-and-closed": 50, "roots:empty-list": 100, "roots:nil": 100, "failing-stream:close-after-failure": 50, "concurrent:callback-logs-checked": 200, "concurrent:byte-comparisons": 200},
	})
}
