package checks

// Workload generation for C15: seeded IPLD DAGs (dag-cbor / dag-json / dag-pb
// interior nodes, raw / cbor / json / identity leaves, shared subtrees, repeated
// links), selectors over them, the recording stores handed to the code under
// test, and a reference link-load count used only to place link budgets.
//
// CIDs are computed with refcar (stdlib hashes), never with go-cid / LinkSystem.Store.

import (
	"bytes"
	"context"
	"fmt"
	"io"
	"math"
	"math/rand"
	"sync"

	blocks "github.com/ipfs/go-block-format"
	"github.com/ipfs/go-cid"
	format "github.com/ipfs/go-ipld-format"
	dagpb "github.com/ipld/go-codec-dagpb"
	"github.com/ipld/go-ipld-prime/codec/dagcbor"
	"github.com/ipld/go-ipld-prime/codec/dagjson"
	_ "github.com/ipld/go-ipld-prime/codec/raw"
	"github.com/ipld/go-ipld-prime/datamodel"
	"github.com/ipld/go-ipld-prime/fluent/qp"
	"github.com/ipld/go-ipld-prime/linking"
	cidlink "github.com/ipld/go-ipld-prime/linking/cid"
	basicnode "github.com/ipld/go-ipld-prime/node/basic"
	"github.com/ipld/go-ipld-prime/traversal"
	"github.com/ipld/go-ipld-prime/traversal/selector"
	"github.com/ipld/go-ipld-prime/traversal/selector/builder"

	"carlab/internal/gen"
	"carlab/internal/lab"
	"carlab/internal/refcar"
)

// c15Val is the in-block value tree a node is built from (and paths are drawn from).
type c15Val struct {
	K     byte // m map, l list, k link, i int, s string, b bytes, t bool, n null
	Keys  []string
	Items []*c15Val
	Link  int // node index for K == 'k'
	I     int64
	S     string
	B     []byte
}

type c15Node struct {
	cid      []byte
	data     []byte
	codec    uint64
	val      *c15Val
	children []int // link targets in document order, with repeats
	level    int
}

type c15Dag struct {
	nodes []*c15Node
	byCid map[string]int
	root  int

	depth       int
	hasRepeated bool // a reachable node holds the same link twice
	hasShared   bool // a reachable node has two distinct reachable parents
	hasIdentity bool // a reachable link is an identity CID
	hasPB       bool
	hasTwins    bool  // two reachable CIDs over the same bytes (other codec / CID version)
	twins       []int // nodes created as twins, waiting to join their level
	codecs      map[uint64]bool
	reachable   map[int]bool

	gone int // >0: the caller's (lenient) link system has no block for that node and answers traversal.SkipMe
}

func (d *c15Dag) cidOf(i int) cid.Cid { return lab.ToCid(d.nodes[i].cid) }

func c15ToAssemble(d *c15Dag, v *c15Val) qp.Assemble {
	switch v.K {
	case 'm':
		return qp.Map(int64(len(v.Keys)), func(ma datamodel.MapAssembler) {
			for i, k := range v.Keys {
				qp.MapEntry(ma, k, c15ToAssemble(d, v.Items[i]))
			}
		})
	case 'l':
		return qp.List(int64(len(v.Items)), func(la datamodel.ListAssembler) {
			for _, it := range v.Items {
				qp.ListEntry(la, c15ToAssemble(d, it))
			}
		})
	case 'k':
		return qp.Link(cidlink.Link{Cid: d.cidOf(v.Link)})
	case 'i':
		return qp.Int(v.I)
	case 's':
		return qp.String(v.S)
	case 'b':
		return qp.Bytes(v.B)
	case 't':
		return qp.Bool(v.I != 0)
	}
	return qp.Null()
}

func c15Build(d *c15Dag, v *c15Val) datamodel.Node {
	nb := basicnode.Prototype.Any.NewBuilder()
	func() {
		defer func() {
			if r := recover(); r != nil {
				panic(fmt.Sprintf("c15: generator cannot build node: %v", r))
			}
		}()
		c15ToAssemble(d, v)(nb)
	}()
	return nb.Build()
}

func c15Links(v *c15Val, out []int) []int {
	switch v.K {
	case 'k':
		return append(out, v.Link)
	case 'm', 'l':
		for _, it := range v.Items {
			out = c15Links(it, out)
		}
	}
	return out
}

func c15Scalar(r *rand.Rand) *c15Val {
	switch r.Intn(5) {
	case 0:
		return &c15Val{K: 'i', I: r.Int63n(1 << 40)}
	case 1:
		return &c15Val{K: 's', S: fmt.Sprintf("s%x", r.Int63n(1<<30))}
	case 2:
		return &c15Val{K: 'b', B: gen.Bytes(r, r.Intn(40))}
	case 3:
		return &c15Val{K: 't', I: int64(r.Intn(2))}
	}
	return &c15Val{K: 'n'}
}

// add encodes the value under the codec, derives the CID with the reference
// hash and stores the node (equal blocks collapse into one node).
func (d *c15Dag) add(r *rand.Rand, codec uint64, v *c15Val, level int, identity bool) int {
	var buf bytes.Buffer
	var err error
	switch codec {
	case 0x55:
		buf.Write(v.B)
	case 0x71:
		err = dagcbor.Encode(c15Build(d, v), &buf)
	case 0x0129:
		err = dagjson.Encode(c15Build(d, v), &buf)
	case 0x70:
		err = dagpb.Encode(c15Build(d, v), &buf)
	default:
		panic("c15: codec")
	}
	if err != nil {
		panic(fmt.Sprintf("c15: generator cannot encode a node (codec %#x): %v", codec, err))
	}
	data := buf.Bytes()
	var c []byte
	switch {
	case identity && len(data) <= 400:
		c = refcar.MakeCidV1(codec, 0, data)
	case codec == 0x70 && r.Intn(3) == 0:
		h, _ := refcar.Hash(0x12, data)
		c = refcar.MakeCidV0(h)
	default:
		code := []uint64{0x12, 0x12, 0x12, 0x13, 0xb220}[r.Intn(5)]
		h, _ := refcar.Hash(code, data)
		c = refcar.MakeCidV1(codec, code, h)
	}
	if i, ok := d.byCid[string(c)]; ok {
		return i
	}
	n := &c15Node{cid: c, data: data, codec: codec, val: v, children: c15Links(v, nil), level: level}
	d.nodes = append(d.nodes, n)
	d.byCid[string(c)] = len(d.nodes) - 1
	idx := len(d.nodes) - 1
	// twin: the same bytes under another CID (dag-pb as CIDv0/CIDv1; anything else also as a raw block)
	if cc, _, _ := refcar.SplitCid(c); cc.MhCode == 0x12 && r.Intn(8) == 0 {
		var tc []byte
		tn := &c15Node{data: data, codec: codec, val: v, children: n.children, level: level}
		switch {
		case codec == 0x70 && cc.Version == 1:
			tc = refcar.MakeCidV0(cc.Digest)
		case codec == 0x70:
			tc = refcar.MakeCidV1(0x70, 0x12, cc.Digest)
		case codec != 0x55:
			tc = refcar.MakeCidV1(0x55, 0x12, cc.Digest)
			tn.codec, tn.val, tn.children = 0x55, &c15Val{K: 'b', B: data}, nil
		}
		if _, ok := d.byCid[string(tc)]; tc != nil && !ok {
			tn.cid = tc
			d.nodes = append(d.nodes, tn)
			d.byCid[string(tc)] = len(d.nodes) - 1
			d.twins = append(d.twins, len(d.nodes)-1)
		}
	}
	return idx
}

func (d *c15Dag) addLeaf(r *rand.Rand, allowIdentity bool) int {
	switch k := r.Intn(20); {
	case k < 11:
		sz := []int{0, 1, 5, 40, 90, 200, 300}[r.Intn(7)]
		switch r.Intn(30) {
		case 0:
			sz = 16350 + r.Intn(60) // section length varint of 3 bytes
		case 1:
			// section body (36..38-byte CID + data) in the windows just below and at a varint-width
			// boundary: 16256..16390 (2→3 bytes) — an off-by-one in a length computation hides here
			sz = 16256 - 38 + r.Intn(16390-16256+38)
		case 2:
			sz = 127 - 38 + r.Intn(6) // 1→2 byte boundary
		}
		return d.add(r, 0x55, &c15Val{K: 'b', B: gen.Bytes(r, sz)}, 0, false)
	case k < 15 && allowIdentity:
		sz := r.Intn(30)
		if r.Intn(3) == 0 {
			// digests around the point where the multihash length needs a second varint byte, and beyond
			sz = []int{120, 126, 127, 128, 129, 200, 255, 256, 300}[r.Intn(9)]
		}
		return d.add(r, 0x55, &c15Val{K: 'b', B: gen.Bytes(r, sz)}, 0, true)
	case k < 16:
		v := &c15Val{K: 'm'}
		for i := 0; i < 1+r.Intn(3); i++ {
			v.Keys = append(v.Keys, fmt.Sprintf("f%d", i))
			v.Items = append(v.Items, c15Scalar(r))
		}
		return d.add(r, 0x71, v, 0, false)
	case k < 17:
		return d.add(r, 0x71, c15Scalar(r), 0, allowIdentity && r.Intn(2) == 0)
	case k < 19:
		v := &c15Val{K: 'l'}
		for i := 0; i < r.Intn(3); i++ {
			v.Items = append(v.Items, c15Scalar(r))
		}
		return d.add(r, 0x0129, v, 0, false)
	}
	// dag-pb leaf: no links, some data
	v := &c15Val{K: 'm', Keys: []string{"Links", "Data"}, Items: []*c15Val{{K: 'l'}, {K: 'b', B: gen.Bytes(r, r.Intn(50))}}}
	return d.add(r, 0x70, v, 0, false)
}

func (d *c15Dag) addInterior(r *rand.Rand, level int, links []int) int {
	lk := func(i int) *c15Val { return &c15Val{K: 'k', Link: i} }
	wrap := func(i int) *c15Val {
		switch f := r.Intn(10); {
		case f < 6:
			return lk(i)
		case f < 8:
			v := &c15Val{K: 'l', Items: []*c15Val{lk(i), c15Scalar(r)}}
			if r.Intn(3) == 0 {
				v.Items = append(v.Items, lk(i)) // the same link twice, inside a nested list
			}
			return v
		}
		return &c15Val{K: 'm', Keys: []string{"l", "n"}, Items: []*c15Val{lk(i), {K: 'i', I: int64(r.Intn(1000))}}}
	}
	switch k := r.Intn(20); {
	case k < 10, k >= 17: // map: dag-cbor (k<10) or dag-json (k>=17)
		v := &c15Val{K: 'm'}
		for i, l := range links {
			v.Keys = append(v.Keys, fmt.Sprintf("%c%d", 'a'+rune(r.Intn(5)), i))
			v.Items = append(v.Items, wrap(l))
		}
		for i := 0; i < r.Intn(3); i++ {
			v.Keys = append(v.Keys, fmt.Sprintf("s%d", i))
			v.Items = append(v.Items, c15Scalar(r))
		}
		codec := uint64(0x71)
		if k >= 17 {
			codec = 0x0129
		}
		return d.add(r, codec, v, level, false)
	case k < 14: // dag-cbor list
		v := &c15Val{K: 'l'}
		for _, l := range links {
			v.Items = append(v.Items, wrap(l))
			if r.Intn(4) == 0 {
				v.Items = append(v.Items, c15Scalar(r))
			}
		}
		return d.add(r, 0x71, v, level, false)
	}
	// dag-pb
	ll := &c15Val{K: 'l'}
	for i, l := range links {
		e := &c15Val{K: 'm', Keys: []string{"Hash"}, Items: []*c15Val{lk(l)}}
		if r.Intn(2) == 0 {
			e.Keys = append(e.Keys, "Name")
			e.Items = append(e.Items, &c15Val{K: 's', S: fmt.Sprintf("n%02d", i)})
		}
		if r.Intn(2) == 0 {
			e.Keys = append(e.Keys, "Tsize")
			e.Items = append(e.Items, &c15Val{K: 'i', I: int64(r.Intn(5000))})
		}
		ll.Items = append(ll.Items, e)
	}
	v := &c15Val{K: 'm', Keys: []string{"Links"}, Items: []*c15Val{ll}}
	if r.Intn(2) == 0 {
		v.Keys = append(v.Keys, "Data")
		v.Items = append(v.Items, &c15Val{K: 'b', B: gen.Bytes(r, r.Intn(30))})
	}
	return d.add(r, 0x70, v, level, false)
}

// c15MakeDag draws a DAG of 1..6 levels from the seed.
func c15MakeDag(seed int64) *c15Dag {
	r := gen.Rand(seed)
	d := &c15Dag{byCid: map[string]int{}, codecs: map[uint64]bool{}}
	d.depth = 1 + r.Intn(6)
	if d.depth == 1 && r.Intn(4) != 0 {
		d.depth = 2 + r.Intn(5)
	}
	allowIdentity := r.Intn(4) == 0
	levels := make([][]int, d.depth)
	for i := 0; i < 1+r.Intn(4); i++ {
		levels[0] = append(levels[0], d.addLeaf(r, allowIdentity))
	}
	levels[0] = append(levels[0], d.twins...)
	d.twins = nil
	for lv := 1; lv < d.depth; lv++ {
		cnt := 1 + r.Intn(3)
		if lv == d.depth-1 {
			cnt = 1
		}
		for j := 0; j < cnt; j++ {
			links := []int{levels[lv-1][r.Intn(len(levels[lv-1]))]}
			for k := r.Intn(4); k > 0; k-- {
				if r.Intn(100) < 35 {
					links = append(links, links[r.Intn(len(links))]) // repeated link in one node
				} else {
					l := levels[r.Intn(lv)]
					links = append(links, l[r.Intn(len(l))]) // any lower level: shared subtrees
				}
			}
			r.Shuffle(len(links), func(a, b int) { links[a], links[b] = links[b], links[a] })
			levels[lv] = append(levels[lv], d.addInterior(r, lv, links))
		}
		if lv < d.depth-1 {
			levels[lv] = append(levels[lv], d.twins...)
		}
		d.twins = nil
	}
	d.root = levels[d.depth-1][0]

	// features over the part reachable from the root
	d.reachable = map[int]bool{}
	parents := map[int]map[int]bool{}
	var walk func(i int)
	walk = func(i int) {
		if d.reachable[i] {
			return
		}
		d.reachable[i] = true
		n := d.nodes[i]
		d.codecs[n.codec] = true
		if n.codec == 0x70 {
			d.hasPB = true
		}
		seen := map[int]bool{}
		for _, c := range n.children {
			if seen[c] {
				d.hasRepeated = true
			}
			seen[c] = true
			if parents[c] == nil {
				parents[c] = map[int]bool{}
			}
			parents[c][i] = true
			if cc, _, _ := refcar.SplitCid(d.nodes[c].cid); cc.IsIdentity() {
				d.hasIdentity = true
			}
			walk(c)
		}
	}
	walk(d.root)
	for _, p := range parents {
		if len(p) >= 2 {
			d.hasShared = true
		}
	}
	byData := map[string]bool{}
	for i := range d.reachable {
		k := string(d.nodes[i].data)
		if byData[k] && len(k) > 0 {
			d.hasTwins = true
		}
		byData[k] = true
	}
	return d
}

// ---------------------------------------------------------------- selectors

type c15Seg struct {
	field string
	index int64
	isIdx bool
}

// c15Path draws a path of at most maxSteps segments from the root's value tree,
// passing through links transparently (as selectors do).
func (d *c15Dag) c15Path(r *rand.Rand, maxSteps int) []c15Seg {
	var segs []c15Seg
	cur := d.nodes[d.root].val
	for len(segs) < maxSteps {
		switch cur.K {
		case 'k':
			cur = d.nodes[cur.Link].val
			continue
		case 'm':
			if len(cur.Items) == 0 {
				return segs
			}
			// prefer entries leading to links so that paths cross blocks
			i := r.Intn(len(cur.Items))
			for try := 0; try < 3 && len(c15Links(cur.Items[i], nil)) == 0; try++ {
				i = r.Intn(len(cur.Items))
			}
			segs = append(segs, c15Seg{field: cur.Keys[i]})
			cur = cur.Items[i]
			continue
		case 'l':
			if len(cur.Items) == 0 {
				return segs
			}
			i := r.Intn(len(cur.Items))
			for try := 0; try < 3 && len(c15Links(cur.Items[i], nil)) == 0; try++ {
				i = r.Intn(len(cur.Items))
			}
			segs = append(segs, c15Seg{index: int64(i), isIdx: true})
			cur = cur.Items[i]
			continue
		}
		return segs
	}
	return segs
}

// c15Selector builds the selector node of a case. kind: all | depth | fields | fields+all.
func c15Selector(d *c15Dag, kind string, depth int, pathSeed int64) (datamodel.Node, string) {
	ssb := builder.NewSelectorSpecBuilder(basicnode.Prototype.Any)
	all := func(limit selector.RecursionLimit) builder.SelectorSpec {
		return ssb.ExploreRecursive(limit, ssb.ExploreAll(ssb.ExploreRecursiveEdge()))
	}
	switch kind {
	case "all":
		return all(selector.RecursionLimitNone()).Node(), "explore-all"
	case "depth":
		return all(selector.RecursionLimitDepth(int64(depth))).Node(), fmt.Sprintf("explore-all depth<=%d", depth)
	}
	r := gen.Rand(pathSeed)
	segs := d.c15Path(r, 1+r.Intn(8))
	var spec builder.SelectorSpec
	desc := "match"
	if kind == "fields+all" {
		spec = all(selector.RecursionLimitNone())
		desc = "explore-all"
	} else {
		spec = ssb.Matcher()
	}
	for i := len(segs) - 1; i >= 0; i-- {
		s, inner := segs[i], spec
		if s.isIdx {
			spec = ssb.ExploreIndex(s.index, inner)
			desc = fmt.Sprintf("[%d]/", s.index) + desc
		} else {
			spec = ssb.ExploreFields(func(b builder.ExploreFieldsSpecBuilder) { b.Insert(s.field, inner) })
			desc = s.field + "/" + desc
		}
	}
	return spec.Node(), desc
}

// ---------------------------------------------------------------- recording stores (the event source)

// c15Log is the load log: CID bytes of every block the code under test asked
// the caller-supplied store for, in order.
type c15Log struct {
	mu   sync.Mutex
	cids [][]byte
}

func (l *c15Log) add(c []byte) {
	l.mu.Lock()
	l.cids = append(l.cids, c)
	l.mu.Unlock()
}

// take returns the loads since the previous take.
func (l *c15Log) take() [][]byte {
	l.mu.Lock()
	defer l.mu.Unlock()
	out := l.cids
	l.cids = nil
	return out
}

// linkSystem is the caller's LinkSystem for the v2 traversal writers.
func (d *c15Dag) linkSystem(log *c15Log) linking.LinkSystem {
	ls := cidlink.DefaultLinkSystem()
	ls.StorageReadOpener = func(_ linking.LinkContext, l datamodel.Link) (io.Reader, error) {
		cl, ok := l.(cidlink.Link)
		if !ok {
			return nil, fmt.Errorf("c15 store: not a cid link")
		}
		raw := cl.Cid.Bytes()
		i, ok := d.byCid[string(raw)]
		if !ok {
			return nil, fmt.Errorf("c15 store: block %x not found", raw)
		}
		if d.gone > 0 && i == d.gone {
			return nil, traversal.SkipMe{} // a partial DAG: the walker is told to step over the absent block
		}
		log.add(raw)
		return bytes.NewReader(d.nodes[i].data), nil
	}
	return ls
}

// c15Store is the caller's ReadStore for the root-module SelectiveCar.
type c15Store struct {
	d   *c15Dag
	log *c15Log
	// twin: the store is keyed by multihash and hands a block out under the CID it was stored with —
	// another codec than the link's. What is written is framed by the CID the traversal asked for.
	twin bool
}

func (s c15Store) Get(_ context.Context, c cid.Cid) (blocks.Block, error) {
	raw := c.Bytes()
	i, ok := s.d.byCid[string(raw)]
	if !ok {
		return nil, format.ErrNotFound{Cid: c}
	}
	s.log.add(raw)
	if s.twin && c.Version() == 1 {
		codec := uint64(cid.Raw)
		if c.Prefix().Codec == cid.Raw {
			codec = cid.DagCBOR
		}
		return blocks.NewBlockWithCid(s.d.nodes[i].data, cid.NewCidV1(codec, c.Hash()))
	}
	return blocks.NewBlockWithCid(s.d.nodes[i].data, c)
}

// c15Getter is the caller's NodeGetter for root-module WriteCar.
type c15Getter struct {
	d   *c15Dag
	log *c15Log
}

func (g c15Getter) Get(_ context.Context, c cid.Cid) (format.Node, error) {
	raw := c.Bytes()
	i, ok := g.d.byCid[string(raw)]
	if !ok {
		return nil, format.ErrNotFound{Cid: c}
	}
	g.log.add(raw)
	n := g.d.nodes[i]
	blk, err := blocks.NewBlockWithCid(n.data, c)
	if err != nil {
		return nil, err
	}
	fn := &fakeNode{Block: blk}
	for _, ch := range n.children {
		fn.links = append(fn.links, &format.Link{Cid: g.d.cidOf(ch)})
	}
	return fn, nil
}

func (g c15Getter) GetMany(ctx context.Context, cs []cid.Cid) <-chan *format.NodeOption {
	ch := make(chan *format.NodeOption, len(cs))
	for _, c := range cs {
		n, err := g.Get(ctx, c)
		ch <- &format.NodeOption{Node: n, Err: err}
	}
	close(ch)
	return ch
}

// ---------------------------------------------------------------- budget placement (workload shaping only)

func c15PBChooser(lnk datamodel.Link, _ linking.LinkContext) (datamodel.NodePrototype, error) {
	if l, ok := lnk.(cidlink.Link); ok && l.Cid.Prefix().Codec == 0x70 {
		return dagpb.Type.PBNode, nil
	}
	return basicnode.Prototype.Any, nil
}

func c15AnyChooser(datamodel.Link, linking.LinkContext) (datamodel.NodePrototype, error) {
	return basicnode.Prototype.Any, nil
}

// c15RefLinkLoads runs go-ipld-prime's walker (a dependency, not code under
// test) over the DAG to learn how many links an unbounded traversal loads. The
// number only decides where the generated link budget sits (exactly enough,
// one short, …); no oracle uses it.
func c15RefLinkLoads(d *c15Dag, sel datamodel.Node, once bool, chooser traversal.LinkTargetNodePrototypeChooser) (int, error) {
	return c15RefLinkLoadsFrom(d, d.root, sel, once, chooser)
}

// c15RefLinkLoadsFrom counts the link loads of one traversal starting at node `from`.
func c15RefLinkLoadsFrom(d *c15Dag, from int, sel datamodel.Node, once bool, chooser traversal.LinkTargetNodePrototypeChooser) (int, error) {
	log := &c15Log{}
	ls := d.linkSystem(log)
	ls.TrustedStorage = true
	s, err := selector.CompileSelector(sel)
	if err != nil {
		return 0, err
	}
	lnk := cidlink.Link{Cid: d.cidOf(from)}
	np, _ := chooser(lnk, linking.LinkContext{})
	rn, err := ls.Load(linking.LinkContext{}, lnk, np)
	if err != nil {
		return 0, err
	}
	prog := traversal.Progress{Cfg: &traversal.Config{Ctx: context.Background(), LinkSystem: ls, LinkTargetNodePrototypeChooser: chooser, LinkVisitOnlyOnce: once}}
	err = prog.WalkAdv(rn, s, func(traversal.Progress, datamodel.Node, traversal.VisitReason) error { return nil })
	return len(log.take()) - 1, err
}

// c15RefLoads lists the CIDs one traversal from node `from` loads (the root load included).
func c15RefLoads(d *c15Dag, from int, sel datamodel.Node, once bool, chooser traversal.LinkTargetNodePrototypeChooser) ([][]byte, error) {
	log := &c15Log{}
	ls := d.linkSystem(log)
	ls.TrustedStorage = true
	s, err := selector.CompileSelector(sel)
	if err != nil {
		return nil, err
	}
	lnk := cidlink.Link{Cid: d.cidOf(from)}
	np, _ := chooser(lnk, linking.LinkContext{})
	rn, err := ls.Load(linking.LinkContext{}, lnk, np)
	if err != nil {
		return nil, err
	}
	prog := traversal.Progress{Cfg: &traversal.Config{Ctx: context.Background(), LinkSystem: ls, LinkTargetNodePrototypeChooser: chooser, LinkVisitOnlyOnce: once}}
	err = prog.WalkAdv(rn, s, func(traversal.Progress, datamodel.Node, traversal.VisitReason) error { return nil })
	return log.take(), err
}

func c15ResolveBudget(mode string, l int) (int64, bool) {
	switch mode {
	case "exact":
		return int64(l), true
	case "minus1":
		if l == 0 {
			return 0, true
		}
		return int64(l - 1), true
	case "half":
		return int64(l / 2), true
	case "ample":
		return int64(l + 3), true
	case "zero":
		return 0, true
	case "2^63", "max-uint64", "max-int64":
		return math.MaxInt64, true // what is handed to the option may be larger still (budgetArg)
	}
	return 0, false
}
