package checks

// C18 — car create followed by car extract reproduces the file tree.
//
// Every case regenerates a source tree from its seed, packs it with the real
// `car create` binary (--version 1|2, wrapped / --no-wrap / several sources / "."),
// asks `car root` for the root, extracts the archive three times (-f, stdin fed through a
// pipe, stdin redirected from the file) into
// fresh directories and compares the trees: names, file contents, link targets
// (modes and timestamps are not part of the property). The archive header is read
// with the reference decoder: exactly one root, equal to what `car root` printed.

import (
	"bytes"
	"encoding/json"
	"fmt"
	"math/rand"
	"os"
	"path/filepath"
	"strings"
	"syscall"
	"time"

	"github.com/ipfs/go-cid"

	"carlab/internal/gen"
	"carlab/internal/lab"
	"carlab/internal/mon"
	"carlab/internal/refcar"
)

type c18Desc struct {
	Seed    int64  `json:"seed"`
	Profile string `json:"profile"`
	Version int    `json:"version"`           // 1 | 2
	Implied bool   `json:"implied,omitempty"` // --version omitted (2 is the default)
	Form    string `json:"form"`              // wrap | no-wrap | several | dot
}

// ---------------------------------------------------------------- tree model

type tNode struct {
	Name     string
	Kind     string // file | dir | symlink
	Size     int
	Seed     int64 // content seed
	Target   string
	Children []*tNode
	Lit      []byte // literal file content (overrides Size/Seed)
}

func tFile(name string, size int, seed int64) *tNode {
	return &tNode{Name: name, Kind: "file", Size: size, Seed: seed}
}

// tZero is a file of size bytes that is all NUL except for [dataFrom, dataTo).
func tZero(name string, size, dataFrom, dataTo int) *tNode {
	b := make([]byte, size)
	for i := dataFrom; i < dataTo && i < size; i++ {
		b[i] = byte(i*7+1) | 1
	}
	return &tNode{Name: name, Kind: "file", Lit: b}
}
func tDir(name string, ch ...*tNode) *tNode { return &tNode{Name: name, Kind: "dir", Children: ch} }
func tLink(name, target string) *tNode      { return &tNode{Name: name, Kind: "symlink", Target: target} }

func (n *tNode) add(c *tNode) bool {
	for _, x := range n.Children {
		if x.Name == c.Name {
			return false
		}
	}
	n.Children = append(n.Children, c)
	return true
}

func c18Content(seed int64, size int) []byte {
	b := make([]byte, size)
	rand.New(rand.NewSource(seed)).Read(b)
	return b
}

func (n *tNode) materialise(parent string) error {
	p := filepath.Join(parent, n.Name)
	switch n.Kind {
	case "file":
		if n.Lit != nil {
			return os.WriteFile(p, n.Lit, 0o644)
		}
		return os.WriteFile(p, c18Content(n.Seed, n.Size), 0o644)
	case "symlink":
		return os.Symlink(n.Target, p)
	case "dir":
		if err := os.Mkdir(p, 0o755); err != nil {
			return err
		}
		for _, c := range n.Children {
			if err := c.materialise(p); err != nil {
				return err
			}
		}
	}
	return nil
}

func (n *tNode) stats(st map[string]int, depth int) {
	st[n.Kind]++
	if depth > st["depth"] {
		st["depth"] = depth
	}
	switch n.Kind {
	case "file":
		st["bytes"] += n.Size
		switch {
		case n.Size == 0:
			st["empty-files"]++
		case n.Size > 262144:
			st["multi-chunk-files"]++
		}
		if n.Size > 174*262144 {
			st["multi-level-files"]++
		}
	case "dir":
		if len(n.Children) == 0 {
			st["empty-dirs"]++
		}
		est := 0
		for _, c := range n.Children {
			est += len(c.Name) + 36
			c.stats(st, depth+1)
		}
		if est > 262144 {
			st["sharded-dirs"]++
		}
	case "symlink":
		if !strings.Contains(n.Target, "/") && n.Target != "." && n.Target != ".." {
			st["symlinks-plain-target"]++
		}
	}
	for _, r := range n.Name {
		if r > 127 {
			st["non-ascii-names"]++
			break
		}
	}
}

// ---------------------------------------------------------------- profiles

const c18Chunk = 262144

var c18OddNames = []string{
	"ünï çødé", "日本語のファイル", "🙂.txt", "é", "é", "a b", " leading", "trailing ", "tab\there", "new\nline", "back\\slash", "quote\"'", "...", ".hidden", "..hidden",
	"unknown", "Links", "Data", "-dash", "--version", "UPPER", "upper", "x.car", strings.Repeat("n", 255), "%41", "*", "?", "a:b", "\x7f", "\xff\xfe-not-utf8", "‮rtl", "．．", "con", "~",
}

func c18Profiles() []string {
	return []string{"small files", "chunk boundaries", "deep nesting", "many siblings", "odd names", "symbolic links", "empty directories", "duplicate contents", "mixed", "sharded directory", "multi-level file", "long names", "almost-sharded directory", "zero-filled files", "names differing only in case"}
}

// c18Tree draws the source tree of a profile; the root's name is the source's base name.
func c18Tree(profile string, seed int64, thorough bool) *tNode {
	r := gen.Rand(seed)
	rootNames := []string{"src", "tree ü", "my.dir", "unknown", "a"}
	root := tDir(rootNames[r.Intn(len(rootNames))])
	small := func() int { return []int{0, 1, 2, 100, 4095, 4096, 4097, 70000}[r.Intn(8)] }
	name := func(i int) string { return fmt.Sprintf("f%03d.bin", i) }
	switch profile {
	case "small files":
		for i := 0; i < 1+r.Intn(8); i++ {
			root.add(tFile(name(i), small(), r.Int63()))
		}
		sub := tDir("sub")
		for i := 0; i < r.Intn(4); i++ {
			sub.add(tFile(name(i), small(), r.Int63()))
		}
		root.add(sub)
	case "chunk boundaries":
		// at most ~600 KiB per tree in the quick tier
		sizes := [][]int{{c18Chunk - 1, 1}, {c18Chunk}, {c18Chunk + 1, 0}, {2 * c18Chunk}, {2*c18Chunk + 1}, {c18Chunk, c18Chunk + 1}, {300000, 300000}}
		if thorough {
			sizes = append(sizes, []int{3*c18Chunk - 1, 3 * c18Chunk, 3*c18Chunk + 1}, []int{10*c18Chunk + 17}, []int{173 * c18Chunk / 8, 174 * c18Chunk / 8})
		}
		for i, sz := range sizes[r.Intn(len(sizes))] {
			if r.Intn(2) == 0 {
				root.add(tFile(name(i), sz, r.Int63()))
			} else {
				root.add(tDir(fmt.Sprintf("d%d", i), tFile(name(i), sz, r.Int63())))
			}
		}
	case "deep nesting":
		depth := 15 + r.Intn(25)
		if thorough {
			depth = 40 + r.Intn(120)
		}
		if seed&(1<<62) != 0 { // set by the generator for the first tree of the profile
			depth = 129 + r.Intn(60) // deeper than any round number a tool might pick as "deep enough" (PATH_MAX is far away)
		}
		cur := root
		for i := 0; i < depth; i++ {
			if r.Intn(3) == 0 {
				cur.add(tFile("f.txt", small(), r.Int63()))
			}
			if r.Intn(6) == 0 {
				cur.add(tLink("up", "../f.txt"))
			}
			next := tDir([]string{"d", "dd", "ü", "n"}[r.Intn(4)])
			cur.add(next)
			cur = next
		}
		if r.Intn(2) == 0 {
			cur.add(tFile("bottom.txt", 10, r.Int63()))
		}
	case "many siblings":
		n := 100 + r.Intn(300)
		if thorough {
			n = 1000 + r.Intn(3000)
		}
		for i := 0; i < n; i++ {
			switch r.Intn(10) {
			case 0:
				root.add(tDir(fmt.Sprintf("dir%04d", i)))
			case 1:
				root.add(tLink(fmt.Sprintf("lnk%04d", i), name(i-1)))
			default:
				root.add(tFile(name(i), r.Intn(40), r.Int63()))
			}
		}
	case "odd names":
		for i := 0; i < 4+r.Intn(10); i++ {
			nm := c18OddNames[r.Intn(len(c18OddNames))]
			switch r.Intn(4) {
			case 0:
				d := tDir(nm)
				d.add(tFile(c18OddNames[r.Intn(len(c18OddNames))], small(), r.Int63()))
				root.add(d)
			case 1:
				root.add(tLink(nm, c18OddNames[r.Intn(len(c18OddNames))]))
			default:
				root.add(tFile(nm, small(), r.Int63()))
			}
		}
	case "names differing only in case":
		// siblings whose names are equal after case folding (distinct entries on this filesystem and in UnixFS)
		for _, pr := range [][2]string{{"Makefile", "makefile"}, {"README", "readme"}, {"Émile.txt", "émile.txt"}, {"a.TXT", "a.txt"}} {
			root.add(tFile(pr[0], small(), r.Int63()))
			root.add(tFile(pr[1], small(), r.Int63()))
		}
		root.add(tDir("Docs", tFile("Index.md", 12, r.Int63()), tFile("index.md", 13, r.Int63())))
		root.add(tDir("docs", tFile("x", 3, r.Int63())))
		root.add(tLink("Link", "Makefile"))
		root.add(tLink("link", "makefile"))
	case "long names":
		// names up to NAME_MAX (255 bytes): whatever the tool appends to a name while extracting must still fit
		for _, n := range []int{200, 247, 248, 250, 255} {
			root.add(tFile(strings.Repeat(string(rune('a'+n%26)), n), small(), r.Int63()))
		}
		root.add(tFile(strings.Repeat("日", 85), 3, r.Int63()))
		root.add(tDir(strings.Repeat("d", 255), tFile(strings.Repeat("e", 255), 9, r.Int63())))
		root.add(tLink(strings.Repeat("l", 255), strings.Repeat("a", 200)))
	case "symbolic links":
		root.add(tFile("target.txt", 33, r.Int63()))
		root.add(tDir("dir", tFile("inner.txt", 5, r.Int63()), tLink("back", "../target.txt"), tLink("updir", "..")))
		links := [][2]string{
			{"rel", "target.txt"}, {"rel-dir", "dir"}, {"rel-deep", "dir/inner.txt"}, {"dangling", "does-not-exist"}, {"dangling-deep", "no/such/path"},
			{"abs-dangling", "/nonexistent-carlab-c18/x"}, {"self", "self"}, {"chain1", "chain2"}, {"chain2", "rel"}, {"dot", "."}, {"dotdot", ".."}, {"outside", "../../outside"},
			{"long", strings.Repeat("t/", 1500) + "x"}, {"spaces", "a b  c"}, {"uni", "ünï/日本"}, {"trailing-slash", "dir/"}, {"abs-root", "/"},
		}
		r.Shuffle(len(links), func(i, j int) { links[i], links[j] = links[j], links[i] })
		for _, l := range links[:4+r.Intn(len(links)-4)] {
			root.add(tLink(l[0], l[1]))
		}
	case "empty directories":
		switch r.Intn(4) {
		case 0: // nothing but the (empty) root
		case 1:
			root.add(tDir("e1"))
			root.add(tDir("e2", tDir("e3", tDir("e4"))))
		case 2:
			root.add(tDir("empty"))
			root.add(tFile("f.txt", 3, r.Int63()))
			root.add(tDir("sub", tDir("empty-inside"), tFile("g.txt", 0, r.Int63())))
		case 3:
			for i := 0; i < 30; i++ {
				root.add(tDir(fmt.Sprintf("e%02d", i)))
			}
		}
	case "duplicate contents":
		s := r.Int63()
		sz := []int{0, 7, 5000, c18Chunk + 5}[r.Intn(4)]
		root.add(tFile("a.bin", sz, s))
		root.add(tFile("b.bin", sz, s))
		root.add(tDir("twin1", tFile("a.bin", sz, s), tDir("e"), tLink("l", "a.bin")))
		root.add(tDir("twin2", tFile("a.bin", sz, s), tDir("e"), tLink("l", "a.bin")))
		root.add(tLink("l", "a.bin"))
		// files whose bytes equal the encoding of a UnixFS node that is also in the tree (same multihash,
		// other codec: the archive stores the bytes once): an empty directory, an empty file node
		root.add(tDir("empty-dir"))
		root.add(&tNode{Name: "bytes-of-an-empty-dir-node.bin", Kind: "file", Lit: []byte{0x0a, 0x02, 0x08, 0x01}})
		root.add(&tNode{Name: "bytes-of-an-empty-file-node.bin", Kind: "file", Lit: []byte{0x0a, 0x04, 0x08, 0x02, 0x18, 0x00}})
		root.add(tFile("really-empty.bin", 0, 1))
	case "mixed":
		var fill func(d *tNode, depth int, budget *int)
		fill = func(d *tNode, depth int, budget *int) {
			for i := 0; i < 1+r.Intn(7); i++ {
				nm := fmt.Sprintf("n%d", i)
				if r.Intn(4) == 0 {
					nm = c18OddNames[r.Intn(len(c18OddNames))]
				}
				switch k := r.Intn(10); {
				case k < 2 && depth < 5:
					sub := tDir(nm)
					if d.add(sub) {
						fill(sub, depth+1, budget)
					}
				case k < 4:
					d.add(tLink(nm, []string{"n0", "../n1", "missing", ".", "n2/n0"}[r.Intn(5)]))
				case k == 4:
					d.add(tDir(nm))
				default:
					sz := small()
					if r.Intn(8) == 0 && *budget > c18Chunk+100 {
						sz = c18Chunk + r.Intn(100)
					}
					if sz > *budget {
						sz = 0
					}
					*budget -= sz
					d.add(tFile(nm, sz, r.Int63()))
				}
			}
		}
		budget := 600 << 10
		fill(root, 0, &budget)
	case "sharded directory":
		// the builder shards when sum(len(name)+len(cid)) exceeds 256 KiB
		big := root
		if r.Intn(2) == 0 {
			big = tDir("big")
			root.add(big)
			root.add(tFile("beside.txt", 9, r.Int63()))
		}
		nameLen := 150 + r.Intn(80)
		n := 262144/(nameLen+36) + 20 + r.Intn(200)
		for i := 0; i < n; i++ {
			nm := fmt.Sprintf("%06d-", i) + strings.Repeat(string(rune('a'+i%26)), nameLen-7)
			switch r.Intn(12) {
			case 0:
				big.add(tDir(nm, tFile("in.txt", 4, r.Int63())))
			case 1:
				big.add(tLink(nm, "nowhere"))
			case 2:
				big.add(tDir(nm))
			default:
				big.add(tFile(nm, r.Intn(30), r.Int63()))
			}
		}
	case "almost-sharded directory":
		// as many short-named siblings as fit below the sharding threshold (sum(len(name)+len(cid)) ≤ 256 KiB):
		// the one directory block is then far larger than a file chunk (≈ 330 KB)
		n := 5450 + r.Intn(900)
		for i := 0; i < n; i++ {
			nm := fmt.Sprintf("%05d", i)
			switch {
			case i%997 == 0:
				root.add(tDir(nm))
			case i%499 == 0:
				root.add(tLink(nm, "00001"))
			default:
				root.add(tFile(nm, i%3, r.Int63()))
			}
		}
	case "zero-filled files":
		// long runs of NUL bytes (disk images, blank database files): at the start, in the middle, at the
		// very end, sizes that are and are not multiples of the usual buffer sizes
		root.add(tZero("all-zero-128k.bin", 128<<10, 0, 0))
		root.add(tZero("all-zero-65536.bin", 65536, 0, 0))
		root.add(tZero("disk.img", 1<<20, 0, 300<<10))
		root.add(tZero("hole-in-the-middle.bin", 512<<10, 100<<10, 200<<10))
		root.add(tZero("zero-tail-odd-size.bin", 300<<10+17, 0, 100<<10))
		root.add(tZero("zero-head.bin", 256<<10, 192<<10, 256<<10))
		root.add(tFile("plain.txt", 20, r.Int63()))
	case "multi-level file":
		// more than 174 chunks: the file DAG gets a second level of link nodes
		root.add(tFile("huge.bin", 174*c18Chunk+1+r.Intn(3*c18Chunk), r.Int63()))
		root.add(tFile("small.txt", 12, r.Int63()))
	default:
		panic("c18: unknown profile " + profile)
	}
	return root
}

// ---------------------------------------------------------------- the case

func c18CompareKeyPart(x snapDiff) string {
	typ := ""
	if x.Before != nil {
		typ = x.Before.Type
	} else if x.After != nil {
		typ = x.After.Type
	}
	switch x.Change {
	case "deleted":
		return typ + "-missing-after-extract"
	case "created":
		return "extra-" + typ + "-after-extract"
	case "content-changed":
		return "file-content-differs"
	case "target-changed":
		return "link-target-differs"
	case "type-changed":
		return "entry-type-differs"
	}
	return x.Change
}

func runC18(t *mon.T, raw json.RawMessage) {
	var d c18Desc
	if err := json.Unmarshal(raw, &d); err != nil {
		panic(err)
	}
	T := lab.TempDir("c18")
	defer os.RemoveAll(T)
	must := func(err error) {
		if err != nil {
			panic(err)
		}
	}
	srcParent := filepath.Join(T, "srcparent")
	must(os.Mkdir(srcParent, 0o755))
	tree := c18Tree(d.Profile, d.Seed, t.Tier == "thorough")
	must(tree.materialise(srcParent))
	srcRoot := filepath.Join(srcParent, tree.Name)
	want, err := snapshotTree(srcRoot)
	must(err)

	form := d.Form
	if form == "several" && len(tree.Children) == 0 {
		form = "wrap"
	}
	st := map[string]int{}
	tree.stats(st, 0)
	flags := fmt.Sprintf("--version %d", d.Version)
	if d.Implied {
		flags = "(default version)"
	}
	input := keyPart(d.Profile)
	flagKey := fmt.Sprintf("version=%d", d.Version)
	if d.Implied {
		flagKey = "version=default"
	}

	// ---- car create
	carPath := filepath.Join(T, "out.car")
	if gen.Rand(d.Seed^7).Intn(4) == 0 {
		// the archive's name was reserved beforehand (mktemp, os.CreateTemp): an empty file is there
		must(os.WriteFile(carPath, nil, 0o600))
		t.Cover("create:archive-path-holds-an-empty-file")
	}
	args := []string{"create", "-f", carPath}
	if !d.Implied {
		args = append(args, "--version", fmt.Sprint(d.Version))
	}
	cwd := T
	expectUnder := "" // where the tree's contents are expected below the extraction directory
	switch form {
	case "wrap":
		// the same request in the spellings a shell user produces: absolute or relative source, with a
		// trailing separator (tab completion), a leading "./", the flag given with its default value
		sp := gen.Rand(d.Seed ^ 1)
		if sp.Intn(3) == 0 {
			args = append(args, "--no-wrap=false")
			t.Cover("create:spelling:--no-wrap=false")
		}
		switch k := sp.Intn(6); k {
		case 0:
			args = append(args, srcRoot)
		case 1:
			args = append(args, srcRoot+"/")
			t.Cover("create:spelling:trailing-separator")
		default: // relative source path
			cwd = srcParent
			nm := tree.Name
			if k >= 4 {
				nm = "./" + nm
			}
			if k%2 == 1 {
				nm += "/"
				t.Cover("create:spelling:trailing-separator")
			}
			args = append(args, nm)
		}
		expectUnder = tree.Name
	case "no-wrap":
		sp := gen.Rand(d.Seed ^ 1)
		flag := []string{"--no-wrap", "--no-wrap=true", "--no-wrap"}[sp.Intn(3)]
		src := srcRoot
		if sp.Intn(3) == 0 {
			src += "/"
		}
		args = append(args, flag, src)
	case "several":
		for _, c := range tree.Children {
			nm := filepath.Join(srcRoot, c.Name)
			args = append(args, nm)
		}
	case "dot":
		cwd = srcRoot
		args = append(args, ".")
	}
	detail := func(extra map[string]any) map[string]any {
		m := map[string]any{"profile": d.Profile, "form": form, "flags": flags, "tree": listing(want, 40), "tree_stats": st,
			"create_args": strings.ReplaceAll(quoteArgs(args), T, "$T"), "create_cwd": strings.ReplaceAll(cwd, T, "$T")}
		for k, v := range extra {
			m[k] = v
		}
		return m
	}
	cr := runCar(cwd, nil, 4*time.Minute, args...)
	if cr.TimedOut {
		t.Inconclusive("car create did not finish within the watchdog (%s, %s)", d.Profile, form)
		return
	}
	if cr.StartErr != nil {
		t.Inconclusive("car binary could not be started: %v", cr.StartErr)
		return
	}
	t.Events(1)
	t.Cover("create:" + form)
	t.Cover(fmt.Sprintf("create:version-%d", d.Version))
	if cr.Exit != 0 {
		t.ViolateD("car-create/"+input+"/create-failed", detail(map[string]any{"stderr": cr.Stderr, "exit": cr.Exit}),
			"car create (%s, %s) failed on a tree of regular files, directories and links (%s): %s", form, flags, d.Profile, strings.TrimSpace(cr.Stderr))
		return
	}
	// the source must not have been touched by packing it (otherwise the comparison below is void)
	again, err := snapshotTree(srcRoot)
	must(err)
	if df := diffSnapshots(want, again, false); len(df) > 0 {
		t.ViolateD("car-create/"+input+"/source-tree-modified", detail(map[string]any{"diff": df}), "car create changed its own source tree")
		return
	}

	// ---- the archive's header, by the reference decoder, against `car root`
	carBytes, err := os.ReadFile(carPath)
	if err != nil {
		t.ViolateD("car-create/"+input+"/no-archive-written", detail(nil), "car create exited 0 but %v", err)
		return
	}
	arch, err := refcar.Decode(carBytes, false)
	archVersion, archBlocks := uint64(d.Version), -1
	if err == nil {
		archVersion, archBlocks = arch.Version, len(arch.Payload.Sections)
		t.Cover(fmt.Sprintf("archive:carv%d", arch.Version))
		t.CoverN("archive:sections", len(arch.Payload.Sections))
	}
	rr := runCar(T, nil, time.Minute, "root", carPath)
	if err != nil {
		// whether the archive is well-formed is C05/C19's question; without a reference reading
		// of the header the root clause cannot be decided here
		t.Inconclusive("the reference decoder cannot read the created archive (%s, %s, %s): %v; head %s", d.Profile, form, flags, err, lab.Hex(carBytes))
	} else if rr.TimedOut || rr.StartErr != nil {
		t.Inconclusive("car root did not run: timeout=%v err=%v", rr.TimedOut, rr.StartErr)
	} else {
		t.Events(1)
		t.Cover("car-root-runs")
		lines := strings.Fields(string(rr.Stdout))
		hdrRoots := arch.Payload.Header.Roots
		var hdrShown []string
		for _, hr := range hdrRoots {
			if c, err := cid.Cast(hr); err == nil {
				hdrShown = append(hdrShown, c.String())
			} else {
				hdrShown = append(hdrShown, fmt.Sprintf("%x", hr))
			}
		}
		rd := map[string]any{"car_root_stdout": string(rr.Stdout), "car_root_stderr": rr.Stderr, "car_root_exit": rr.Exit, "header_roots": hdrShown}
		switch {
		case len(hdrRoots) != 1:
			t.ViolateD("car-create/"+flagKey+"/header-root-count", detail(rd), "the created archive has %d roots in its header, not one", len(hdrRoots))
		case rr.Exit != 0 || len(lines) != 1:
			t.ViolateD("car-root/"+flagKey+"/not-one-cid-printed", detail(rd), "car root printed %d CIDs (exit %d) for an archive with one root", len(lines), rr.Exit)
		default:
			pc, err := cid.Decode(lines[0])
			if err != nil {
				t.ViolateD("car-root/"+flagKey+"/unparsable-output", detail(rd), "car root printed %q: %v", lines[0], err)
			} else if !bytes.Equal(pc.Bytes(), hdrRoots[0]) {
				t.ViolateD("car-root/"+flagKey+"/differs-from-header-root", detail(rd), "car root printed %s, the archive header's root is %s", lines[0], hdrShown[0])
			} else {
				t.Cover("root-agrees")
				// the root must be a block of the archive (otherwise "root" would be an empty word)
				found := false
				for _, s := range arch.Payload.Sections {
					if bytes.Equal(s.Cid.Raw, hdrRoots[0]) {
						found = true
						break
					}
				}
				if !found {
					t.ViolateD("car-create/"+flagKey+"/root-block-absent", detail(rd), "the archive's root %s is not among its %d blocks", hdrShown[0], len(arch.Payload.Sections))
				}
			}
		}
	}

	// ---- car extract, twice
	allEqual := true
	for i, mode := range []string{"-f", "stdin (pipe)", "stdin (socket)", "stdin (file)", "-f (output directory below a symlinked directory)", "-f (older, longer files already in place)", "-f . (into the current directory)"} {
		out := filepath.Join(T, fmt.Sprintf("out-%d", i))
		must(os.Mkdir(out, 0o755))
		var er carRun
		switch mode {
		case "-f . (into the current directory)":
			// the output directory is named "." and the tool runs inside it
			er = runCar(out, nil, 4*time.Minute, "extract", "-f", carPath, ".")
		case "-f (older, longer files already in place)":
			// re-extraction into a directory that holds an earlier, LONGER version of the regular files
			k := 0
			for p, e := range want {
				if e.Type != "file" || k >= 40 {
					continue
				}
				k++
				dst := filepath.Join(out, expectUnder, p)
				must(os.MkdirAll(filepath.Dir(dst), 0o755))
				must(os.WriteFile(dst, bytes.Repeat([]byte("old "), int(e.Size)/4+300), 0o644))
			}
			er = runCar(T, nil, 4*time.Minute, "extract", "-f", carPath, out)
		case "-f (output directory below a symlinked directory)":
			// the user names the output directory through a symlinked ancestor (a mount point alias)
			must(os.Symlink(filepath.Base(out), out+"-alias"))
			must(os.Mkdir(filepath.Join(out, "o"), 0o755))
			er = runCar(T, nil, 4*time.Minute, "extract", "-f", carPath, filepath.Join(out+"-alias", "o"))
			out = filepath.Join(out, "o")
		case "-f":
			er = runCar(T, nil, 4*time.Minute, "extract", "-f", carPath, out)
		case "stdin (pipe)": // car create … && cat x.car | car extract out
			er = runCar(T, carBytes, 4*time.Minute, "extract", out)
		case "stdin (socket)": // standard input is a socket (socat, ssh, socket activation): it cannot seek either
			fds, serr := syscall.Socketpair(syscall.AF_UNIX, syscall.SOCK_STREAM, 0)
			must(serr)
			wr, rd := os.NewFile(uintptr(fds[0]), "sock-w"), os.NewFile(uintptr(fds[1]), "sock-r")
			go func() {
				_, _ = wr.Write(carBytes)
				wr.Close()
			}()
			er = runCarIO(T, rd, 4*time.Minute, "extract", out)
			rd.Close()
		case "stdin (file)": // car extract out < x.car
			f, err := os.Open(carPath)
			must(err)
			er = runCarIO(T, f, 4*time.Minute, "extract", out)
			f.Close()
		}
		if er.TimedOut || er.StartErr != nil {
			t.Inconclusive("car extract (%s) did not run to completion: timeout=%v err=%v (%s, %s)", mode, er.TimedOut, er.StartErr, d.Profile, form)
			allEqual = false
			continue
		}
		t.Events(1)
		t.Cover("extract:" + mode)
		got, err := snapshotTree(out)
		must(err)
		expect := want
		if expectUnder != "" {
			expect = map[string]snapEnt{".": want["."]}
			expect[expectUnder] = want["."]
			for p, e := range want {
				if p != "." {
					expect[filepath.Join(expectUnder, p)] = e
				}
			}
		}
		df := diffSnapshots(expect, got, false)
		api := "car-create+extract:" + keyPart(strings.NewReplacer("(", "", ")", "").Replace(mode))
		if len(df) == 0 {
			t.Cover("tree-reproduced:" + mode)
			t.Cover("tree-reproduced:" + form)
			if er.Exit != 0 {
				if strings.Contains(er.Stderr, "no files extracted") {
					t.Cover("tree-reproduced,exit-nonzero:no-files-extracted")
				} else {
					t.Cover("tree-reproduced,exit-nonzero:other")
				}
			}
			continue
		}
		allEqual = false
		sym := c18CompareKeyPart(df[0])
		if er.Exit != 0 {
			sym = "extract-failed"
		}
		if er.Exit != 0 && len(got) <= 1 {
			// the tool gave up before writing anything: the phase is "opening the archive", and the
			// input class that matters is the archive kind, not the shape of the tree
			input = fmt.Sprintf("CARv%d-archive", archVersion)
			sym = "nothing-extracted"
		} else {
			input = keyPart(d.Profile)
		}
		shown := df
		if len(shown) > 12 {
			shown = shown[:12]
		}
		t.ViolateD(api+"/"+input+"/"+sym, detail(map[string]any{"extract_exit": er.Exit, "extract_stderr": strings.ReplaceAll(er.Stderr, T, "$T"), "differences": shown, "difference_count": len(df),
			"extracted": listing(got, 40)}),
			"car create (%s, %s) then car extract %s does not reproduce the %q tree: %d differences, first: %s %q (extract exit %d: %s)",
			form, flags, mode, d.Profile, len(df), df[0].Change, df[0].Path, er.Exit, strings.TrimSpace(strings.ReplaceAll(er.Stderr, T, "$T")))
	}

	// ---- coverage of what the tree held
	for _, k := range []string{"empty-files", "multi-chunk-files", "multi-level-files", "empty-dirs", "sharded-dirs", "symlink", "non-ascii-names", "file", "dir"} {
		if st[k] > 0 {
			t.CoverN("trees-with:"+k, 1)
		}
	}
	if st["depth"] >= 15 {
		t.Cover("trees-with:depth>=15")
	}
	if st["depth"] >= 129 {
		t.Cover("trees-with:depth>=129")
	}
	if st["file"]+st["dir"]+st["symlink"] >= 100 {
		t.Cover("trees-with:>=100-entries")
	}
	if allEqual {
		t.Cover("cases-fully-reproduced")
		if st["file"]+st["symlink"]+st["dir"] > 1 {
			t.Nontrivial()
		}
	}
	// evidence samples: one per profile, rotating through the source forms
	sampleForm := ""
	for i, p := range c18Profiles() {
		if p == d.Profile {
			sampleForm = []string{"wrap", "no-wrap", "several", "dot"}[i%4]
		}
	}
	if d.Form != sampleForm || (d.Form != "several" && d.Form != "dot" && d.Version != 2) {
		return
	}
	t.Sample(map[string]any{"profile": d.Profile, "form": form, "flags": flags, "create_args": strings.ReplaceAll(quoteArgs(args), T, "$T"),
		"tree_stats": st, "tree": listing(want, 14), "archive_bytes": len(carBytes), "archive_blocks": archBlocks})
}

func genC18(g *mon.G) {
	r := gen.Rand(g.Seed)
	profiles := c18Profiles()
	per := g.Pick(4, 40) // trees per profile
	for i := 0; i < per; i++ {
		for _, p := range profiles {
			n := 1
			switch p {
			case "multi-level file": // ≈ 45 MiB each: one form in the quick tier, a few trees in the thorough one
				if i >= g.Pick(1, 2) {
					n = 0
				}
				if n == 1 && !g.Thorough() {
					g.Emit(c18Desc{Seed: r.Int63(), Profile: p, Version: 2, Form: "wrap"})
					n = 0
				}
			case "almost-sharded directory": // ≈ 6000 entries each
				if i >= g.Pick(1, 3) {
					n = 0
				}
				if n == 1 && !g.Thorough() {
					seed := r.Int63()
					g.Emit(c18Desc{Seed: seed, Profile: p, Version: 2, Form: "no-wrap"})
					g.Emit(c18Desc{Seed: seed, Profile: p, Version: 1, Form: "wrap"})
					n = 0
				}
			case "sharded directory": // ≈ 1500 entries each
				if i >= g.Pick(2, 8) {
					n = 0
				}
			}
			if n == 0 {
				continue
			}
			seed := r.Int63() &^ (1 << 62)
			if i == 0 {
				seed |= 1 << 62 // "deep nesting": this tree is more than 128 levels deep
			}
			g.Emit(c18Desc{Seed: seed, Profile: p, Version: 2, Implied: i%2 == 0, Form: "wrap"})
			g.Emit(c18Desc{Seed: seed, Profile: p, Version: 1, Form: "wrap"})
			g.Emit(c18Desc{Seed: seed, Profile: p, Version: 2, Form: "no-wrap"})
			g.Emit(c18Desc{Seed: seed, Profile: p, Version: 1, Form: "no-wrap"})
			g.Emit(c18Desc{Seed: seed, Profile: p, Version: 1 + i%2, Form: "several"})
			if p != "multi-level file" {
				g.Emit(c18Desc{Seed: seed, Profile: p, Version: 2 - i%2, Form: "dot"})
			}
		}
	}
}

func init() {
	var c18 *mon.Check
	c18 = &mon.Check{
		ID:    "C18",
		Level: "exploration",
		Rule: "cases = (seeded source tree of one profile, --version 1|2 or default, source form: one directory wrapped | --no-wrap | every top-level entry as its own source | \".\" from inside the tree); " +
			"each case runs car create, car root, car extract -f, car extract with stdin fed through a pipe and car extract with stdin redirected from the file (fresh directories) and compares the extracted tree with the source (names, file sha256+size, link targets; no modes, no times); " +
			"the header is read by the reference decoder: one root, byte-equal to the CID car root prints, present among the blocks; events_observed = CLI executions; " +
			"non-trivial = tree with more than one entry reproduced by all three extractions",
		Assumptions: []string{
			"expected layout: wrapped single source -> <out>/<base name>/…; --no-wrap, several sources and \".\" -> the tree's entries directly under <out>",
			"the exit status of car extract is not judged (a tree without regular files or links makes it exit 1 with 'no files extracted' after creating the directories)",
			"file modes, ownership and timestamps are outside the property",
			"sources with equal base names, special files and unreadable files are outside the property",
		},
		Gen: genC18, Run: runC18,
		MinCover: map[string]int{
			"create:wrap": 40, "trees-with:depth>=129": 2, "create:archive-path-holds-an-empty-file": 20, "create:spelling:trailing-separator": 10, "create:spelling:--no-wrap=false": 10, "create:no-wrap": 40, "create:several": 15, "create:dot": 15, "create:version-1": 60, "create:version-2": 60,
			"archive:carv1": 60, "archive:carv2": 60, "root-agrees": 150,
			"extract:-f": 150, "extract:-f . (into the current directory)": 150, "extract:-f (older, longer files already in place)": 150, "extract:-f (output directory below a symlinked directory)": 150, "extract:stdin (pipe)": 150, "extract:stdin (socket)": 150, "extract:stdin (file)": 150,
			"tree-reproduced:-f": 100, "tree-reproduced:stdin (pipe)": 50, "tree-reproduced:stdin (file)": 100,
			"trees-with:empty-files": 10, "trees-with:multi-chunk-files": 10, "trees-with:empty-dirs": 10, "trees-with:sharded-dirs": 4,
			"trees-with:symlink": 20, "trees-with:non-ascii-names": 10, "trees-with:depth>=15": 10, "trees-with:>=100-entries": 10,
		},
		CaseTimeout: 15 * time.Minute,
		// the ≈ 45 MiB files (second level of file link nodes) only exist in the thorough tier
		Setup: func(tier string, seed int64) error {
			if tier == "thorough" {
				c18.MinCover["trees-with:multi-level-files"] = 5
			}
			return nil
		},
	}
	Register(c18)
}
