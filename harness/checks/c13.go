package checks

import (
	"bytes"
	"encoding/binary"
	"encoding/json"
	"fmt"
	"github.com/multiformats/go-multihash"
	"io"
	"math"

	carv2 "github.com/ipld/go-car/v2"

	"carlab/internal/gen"
	"carlab/internal/lab"
	"carlab/internal/mon"
	"carlab/internal/refcar"
)

type c13Desc struct {
	Seed   int64  `json:"seed"`
	Family string `json:"family"` // valid | typed | random
}

type refStats struct {
	Version                                              uint64
	Roots                                                [][]byte
	RootsPresent                                         bool
	BlockCount                                           uint64
	MinCid, AvgCid, MaxCid, MinBlock, AvgBlock, MaxBlock uint64
	Codecs, MhTypes                                      map[uint64]uint64
	IndexCodec                                           uint64
}

func c13RefStats(a *refcar.Archive) refStats {
	s := refStats{Version: a.Version, Roots: a.Payload.Header.Roots, Codecs: map[uint64]uint64{}, MhTypes: map[uint64]uint64{}}
	var totC, totB uint64
	present := make([]bool, len(s.Roots))
	for i, sec := range a.Payload.Sections {
		cl, bl := uint64(len(sec.Cid.Raw)), uint64(len(sec.Data))
		if i == 0 || cl < s.MinCid {
			s.MinCid = cl
		}
		if cl > s.MaxCid {
			s.MaxCid = cl
		}
		if i == 0 || bl < s.MinBlock {
			s.MinBlock = bl
		}
		if bl > s.MaxBlock {
			s.MaxBlock = bl
		}
		totC += cl
		totB += bl
		s.BlockCount++
		s.Codecs[sec.Cid.Codec]++
		s.MhTypes[sec.Cid.MhCode]++
		for j, rt := range s.Roots {
			if bytes.Equal(rt, sec.Cid.Raw) {
				present[j] = true
			}
		}
	}
	s.RootsPresent = true
	for _, p := range present {
		if !p {
			s.RootsPresent = false
		}
	}
	if s.BlockCount > 0 {
		s.AvgCid = totC / s.BlockCount
		s.AvgBlock = totB / s.BlockCount
	}
	if a.Version == 2 && a.IndexBytes != nil {
		c, _, err := refcar.Uvarint(a.IndexBytes)
		if err == nil {
			s.IndexCodec = c
		}
	}
	return s
}

func c13Compare(t *mon.T, label string, st carv2.Stats, rs refStats, a *refcar.Archive) {
	bad := func(field string, got, want any) {
		t.ViolateD("Inspect(true)/"+label+"/stats:"+field, map[string]any{"got": fmt.Sprint(got), "want": fmt.Sprint(want)}, "Inspect reports %s = %v, the reference scan computes %v", field, got, want)
	}
	if st.Version != rs.Version {
		bad("Version", st.Version, rs.Version)
	}
	if !lab.CidsEqual(st.Roots, rs.Roots) {
		bad("Roots", st.Roots, len(rs.Roots))
	}
	if st.RootsPresent != rs.RootsPresent {
		bad("RootsPresent", st.RootsPresent, rs.RootsPresent)
	}
	if st.BlockCount != rs.BlockCount {
		bad("BlockCount", st.BlockCount, rs.BlockCount)
	}
	pairs := []struct {
		n    string
		g, w uint64
	}{{"MinCidLength", st.MinCidLength, rs.MinCid}, {"AvgCidLength", st.AvgCidLength, rs.AvgCid}, {"MaxCidLength", st.MaxCidLength, rs.MaxCid},
		{"MinBlockLength", st.MinBlockLength, rs.MinBlock}, {"AvgBlockLength", st.AvgBlockLength, rs.AvgBlock}, {"MaxBlockLength", st.MaxBlockLength, rs.MaxBlock}}
	for _, p := range pairs {
		if p.g != p.w {
			bad(p.n, p.g, p.w)
		}
	}
	gc := map[uint64]uint64{}
	for k, v := range st.CodecCounts {
		gc[uint64(k)] = v
	}
	gm := map[uint64]uint64{}
	for k, v := range st.MhTypeCounts {
		gm[uint64(k)] = v
	}
	if fmt.Sprint(gc) != fmt.Sprint(rs.Codecs) {
		bad("CodecCounts", gc, rs.Codecs)
	}
	if fmt.Sprint(gm) != fmt.Sprint(rs.MhTypes) {
		bad("MhTypeCounts", gm, rs.MhTypes)
	}
	if uint64(st.IndexCodec) != rs.IndexCodec {
		bad("IndexCodec", uint64(st.IndexCodec), rs.IndexCodec)
	}
	if a.Version == 2 {
		if st.Header.DataOffset != a.V2.DataOffset || st.Header.DataSize != a.V2.DataSize || st.Header.IndexOffset != a.V2.IndexOffset ||
			st.Header.Characteristics.IsFullyIndexed() != a.V2.FullyIndexed() {
			bad("Header", st.Header, a.V2)
		}
	} else if (st.Header != carv2.Header{}) {
		bad("Header", st.Header, "zero value for CARv1")
	}
}

type c13Hdr struct {
	name string
	body []byte
}

// c13LenientHeaders encodes {roots, version: 1} in CBOR forms other than the writer's.
func c13LenientHeaders(roots [][]byte) []c13Hdr {
	key := func(k string) []byte { return append([]byte{0x60 | byte(len(k))}, k...) }
	var items []byte
	for _, c := range roots {
		items = append(items, 0xd8, 0x2a)
		items = append(items, c19CborHead(2, uint64(len(c)+1))...)
		items = append(items, 0x00)
		items = append(items, c...)
	}
	arr := append(c19CborHead(4, uint64(len(roots))), items...)
	indef := append(append([]byte{0x9f}, items...), 0xff)
	cat := func(parts ...[]byte) []byte {
		var out []byte
		for _, p := range parts {
			out = append(out, p...)
		}
		return out
	}
	return []c13Hdr{
		{"version-as-non-minimal-integer", cat([]byte{0xa2}, key("roots"), arr, key("version"), []byte{0x18, 0x01})},
		{"roots-as-indefinite-length-array", cat([]byte{0xa2}, key("roots"), indef, key("version"), []byte{0x01})},
		{"indefinite-length-map", cat([]byte{0xbf}, key("roots"), arr, key("version"), []byte{0x01, 0xff})},
		{"version-before-roots", cat([]byte{0xa2}, key("version"), []byte{0x01}, key("roots"), arr)},
	}
}

// c13Archive builds a valid archive and returns file + decoded reference + options used for reading.
func c13Archive(r *gen.RandT, container string) ([]byte, *refcar.Archive, lab.Cfg) {
	content := gen.MakeContent(r, gen.ContentOpts{MinBlocks: 0, MaxBlocks: 9, MaxRoots: 4, Dups: true, Boundaries: true, RootsFromBlocks: r.Intn(2) == 0, TwinRoots: true, Block: gen.BlockOpts{MaxSize: 260}})
	payload := refcar.EncodeV1(content.Roots, content.NilRoots, content.Blocks)
	ref, _ := refcar.DecodeV1(payload, false)
	cfg := lab.Cfg{}
	file := payload
	switch container {
	case "v1":
	case "v1-nullpad":
		cfg.ZeroEOF = true
		file = append(append([]byte{}, payload...), make([]byte, 1+r.Intn(30))...)
	case "v2":
		file = refcar.EncodeV2(payload, refcar.V2Opts{Index: refcar.BuildIndex(refcar.CodecMhIndexSorted, refcar.ExpectedIndexRecords(ref, refcar.CodecMhIndexSorted, false))})
	case "v2-pad":
		file = refcar.EncodeV2(payload, refcar.V2Opts{DataPadding: uint64(1 + r.Intn(99)), IndexPadding: uint64(r.Intn(40)), FullyIndexed: r.Intn(2) == 0,
			Index: refcar.BuildIndex(refcar.CodecIndexSorted, refcar.ExpectedIndexRecords(ref, refcar.CodecIndexSorted, true))})
	case "v2-indexless":
		file = refcar.EncodeV2(payload, refcar.V2Opts{DataPadding: uint64(r.Intn(4))})
	case "v2-nullpad-payload":
		// the declared payload ends in null bytes (a CARv1 that was padded, then wrapped): with
		// ZeroLengthSectionAsEOF the sections end where the padding starts, in a CARv2 as in a CARv1
		cfg.ZeroEOF = true
		padded := append(append([]byte{}, payload...), make([]byte, 1+r.Intn(30))...)
		o := refcar.V2Opts{DataPadding: uint64(r.Intn(3))}
		if r.Intn(2) == 0 {
			o.Index = refcar.BuildIndex(refcar.CodecMhIndexSorted, refcar.ExpectedIndexRecords(ref, refcar.CodecMhIndexSorted, false))
		}
		file = refcar.EncodeV2(padded, o)
	}
	a, err := refcar.Decode(file, cfg.ZeroEOF)
	if err != nil {
		panic(err)
	}
	return file, a, cfg
}

func inspect(file []byte, validate bool, opts ...carv2.Option) (carv2.Stats, error) {
	var backing io.ReaderAt = bytes.NewReader(file)
	if len(file)%2 == 1 {
		backing = lab.EOFReaderAt{B: file} // legal: io.EOF together with the full read that ends at the end
	}
	rd, err := carv2.NewReader(backing, opts...)
	if err != nil {
		return carv2.Stats{}, err
	}
	return rd.Inspect(validate)
}

var c13Containers = []string{"v1", "v1-nullpad", "v2", "v2-pad", "v2-indexless", "v2-nullpad-payload"}

func runC13(t *mon.T, raw json.RawMessage) {
	var d c13Desc
	if err := json.Unmarshal(raw, &d); err != nil {
		panic(err)
	}
	r := gen.Rand(d.Seed)
	container := c13Containers[r.Intn(len(c13Containers))]
	file, a, cfg := c13Archive(r, container)
	t.Nontrivial()
	t.Cover("container:" + container)
	rs := c13RefStats(a)

	switch d.Family {
	case "valid":
		// limits exactly at the largest section / header must accept, one below must reject
		var maxSec uint64
		for _, s := range a.Payload.Sections {
			if l := s.End - s.Offset - uint64(s.LenSize); l > maxSec {
				maxSec = l
			}
		}
		hdrBody := a.Payload.HeaderSize - uint64(refcar.UvarintLen(a.Payload.HeaderSize))
		// recompute header body length exactly
		hl, _, _ := refcar.Uvarint(file[a.PayloadOff:])
		hdrBody = hl
		type variant struct {
			name   string
			opts   []carv2.Option
			accept bool
		}
		vs := []variant{{"defaults", cfg.Opts(), true}}
		// limits at the top of the integer range ("no limit")
		vs = append(vs, variant{"section-limit-max-uint64", append(cfg.Opts(), carv2.MaxAllowedSectionSize(math.MaxUint64)), true},
			variant{"section-limit-2^63", append(cfg.Opts(), carv2.MaxAllowedSectionSize(1<<63)), true},
			variant{"header-limit-max-uint64", append(cfg.Opts(), carv2.MaxAllowedHeaderSize(math.MaxUint64)), true})
		if len(a.Payload.Sections) > 0 {
			// a limit of zero is a limit: every section is over it (the block reader refuses, so must Inspect)
			vs = append(vs, variant{"section-limit-0", append(cfg.Opts(), carv2.MaxAllowedSectionSize(0)), false})
		}
		if maxSec > 0 {
			vs = append(vs, variant{"section-limit-at-max", append(cfg.Opts(), carv2.MaxAllowedSectionSize(maxSec)), true})
			vs = append(vs, variant{"section-limit-below-max", append(cfg.Opts(), carv2.MaxAllowedSectionSize(maxSec-1)), false})
		}
		if hdrBody >= 11 {
			vs = append(vs, variant{"header-limit-at-max", append(cfg.Opts(), carv2.MaxAllowedHeaderSize(hdrBody)), true})
			vs = append(vs, variant{"header-limit-below-max", append(cfg.Opts(), carv2.MaxAllowedHeaderSize(hdrBody-1)), false})
		}
		for _, v := range vs {
			if a.Version == 2 && v.name[:6] == "header" && hdrBody-1 < 10 {
				continue // the pragma itself needs 10 bytes
			}
			for _, validate := range []bool{true, false} {
				st, err := inspect(file, validate, v.opts...)
				t.Events(1)
				lbl := fmt.Sprintf("Inspect(%v)", validate)
				if v.accept {
					if err != nil {
						t.Violatef(lbl+"/valid:"+v.name+"/rejected", "%s rejects a valid %s archive (%s): %v", lbl, container, v.name, err)
						continue
					}
					t.Cover("valid-accepted")
					if validate {
						c13Compare(t, "valid:"+container, st, rs, a)
					} else {
						c13Compare(t, "novalidate:"+container, st, rs, a)
					}
				} else if err == nil {
					t.Violatef(lbl+"/"+v.name+"/accepted", "%s accepts a %s archive although a section/header exceeds the configured limit (%s)", lbl, container, v.name)
				} else {
					t.Cover("limit-rejected")
				}
			}
		}
		// headers that are not in the writer's canonical form but that the readers accept (non-minimal
		// integer, indefinite-length array or map, other key order): whatever the block reader scans,
		// Inspect must report — same verdict, same statistics
		if (container == "v1" || container == "v1-nullpad") && len(rs.Roots) > 0 {
			rest := file[a.Payload.HeaderSize:]
			for _, hv := range c13LenientHeaders(rs.Roots) {
				in := append(append(refcar.PutUvarint(nil, uint64(len(hv.body))), hv.body...), rest...)
				scanned, scanOK := 0, false
				if br, err := carv2.NewBlockReader(bytes.NewReader(in), cfg.Opts()...); err == nil {
					for {
						_, err := br.Next()
						if err == io.EOF {
							scanOK = true
							break
						}
						if err != nil {
							break
						}
						scanned++
					}
				}
				if !scanOK {
					t.Cover("lenient-header:not-accepted-by-the-scan:" + hv.name)
					continue
				}
				t.Cover("lenient-header:" + hv.name)
				st, err := inspect(in, true, cfg.Opts()...)
				t.Events(1)
				if err != nil {
					t.ViolateD("Inspect(true)/lenient-header:"+hv.name+"/rejected-but-scan-accepts", map[string]any{"header_hex": lab.Hex(hv.body), "blocks_scanned": scanned},
						"a verifying scan reads all %d blocks behind a %s header, Inspect(true) fails: %v", scanned, hv.name, err)
					continue
				}
				c13Compare(t, "lenient-header:"+hv.name, st, rs, a)
			}
		}
		t.Sample(map[string]any{"family": "valid", "container": container, "blocks": rs.BlockCount, "roots": len(rs.Roots), "roots_present": rs.RootsPresent, "avg_block": rs.AvgBlock})

	case "typed":
		po := a.PayloadOff
		for k := 0; k < 40; k++ {
			in := append([]byte{}, file...)
			var class string
			reject := true
			switch r.Intn(12) {
			case 0, 1: // flip inside data or digest
				if len(a.Payload.Sections) == 0 {
					continue
				}
				s := a.Payload.Sections[r.Intn(len(a.Payload.Sections))]
				lo := po + s.DataOff - uint64(len(s.Cid.Digest))
				hi := po + s.End
				if hi == lo {
					continue
				}
				in[lo+uint64(r.Intn(int(hi-lo)))] ^= byte(1 << uint(r.Intn(8)))
				class = "flip-in-data-or-digest"
			case 2: // truncate inside a section
				if len(a.Payload.Sections) == 0 || a.Version == 2 {
					continue
				}
				s := a.Payload.Sections[r.Intn(len(a.Payload.Sections))]
				cut := s.Offset + 1 + uint64(r.Intn(int(s.End-s.Offset-1)))
				in = in[:cut]
				class = "truncated-inside-section"
			case 3: // identity CID with wrong data
				if a.Version == 2 || cfg.ZeroEOF {
					continue
				}
				in = append(in, refcar.EncodeSection(refcar.MakeCidV1(0x55, 0, []byte("abc")), []byte("abd"))...)
				class = "identity-mismatch"
			case 4: // unknown hash function
				if a.Version == 2 || cfg.ZeroEOF {
					continue
				}
				in = append(in, refcar.EncodeSection(refcar.MakeCidV1(0x55, 0x3e7, gen.Bytes(r, 32)), []byte("data"))...)
				class = "unknown-hash-function"
			case 5: // index offset at/after end of file: codec unreadable
				if a.Version != 2 || a.V2.IndexOffset == 0 {
					continue
				}
				binary.LittleEndian.PutUint64(in[43:], uint64(len(in))+uint64(r.Intn(50)))
				class = "index-offset-past-end"
			case 6: // index offset pointing at other bytes: any readable varint is accepted, codec = that varint
				if a.Version != 2 || a.V2.IndexOffset == 0 {
					continue
				}
				off := a.V2.DataOffset + uint64(r.Intn(int(a.V2.DataSize)))
				binary.LittleEndian.PutUint64(in[43:], off)
				v, _, err := refcar.Uvarint(in[off:])
				if err != nil {
					continue // non-minimal or overlong: library behaviour not predicted
				}
				reject = false
				class = "index-offset-elsewhere"
				st, ierr := inspect(in, true, cfg.Opts()...)
				t.Events(1)
				if ierr != nil {
					t.Violatef("Inspect(true)/"+class+"/rejected", "Inspect rejects an archive whose index offset points at a readable codec varint: %v", ierr)
				} else if uint64(st.IndexCodec) != v {
					t.Violatef("Inspect(true)/"+class+"/stats:IndexCodec", "IndexCodec %d, varint at the index offset is %d", st.IndexCodec, v)
				}
				t.Cover("typed:" + class)
				continue
			case 11: // two blocks under the one hash function whose digest length is the caller's choice (blake3), shorter first
				if a.Version == 2 || cfg.ZeroEOF {
					continue
				}
				okB3 := true
				for _, dl := range []int{32, 64, 20} {
					data := gen.Bytes(r, 10+r.Intn(40))
					mh, err := multihash.Sum(data, multihash.BLAKE3, dl)
					if err != nil {
						okB3 = false // no blake3 in this build of go-multihash: class not available
						break
					}
					in = append(in, refcar.EncodeSection(refcar.MakeCidV1(0x55, 0x1e, mh[len(mh)-dl:]), data)...)
				}
				if !okB3 {
					continue
				}
				reject = false
				class = "blake3-digests-of-several-lengths"
				a2, err := refcar.Decode(in, false)
				if err != nil {
					panic(err)
				}
				// the verifying scan decides (the reference has no blake3): it accepts, so must Inspect
				scanOK := false
				if br, berr := carv2.NewBlockReader(bytes.NewReader(in)); berr == nil {
					for {
						if _, nerr := br.Next(); nerr == io.EOF {
							scanOK = true
							break
						} else if nerr != nil {
							break
						}
					}
				}
				st, ierr := inspect(in, true)
				t.Events(1)
				if scanOK != (ierr == nil) {
					t.Violatef("Inspect(true)/"+class+"/verdict-differs-from-scan", "a verifying scan says ok=%v, Inspect(true) says %v", scanOK, ierr)
				} else if ierr == nil {
					c13Compare(t, class, st, c13RefStats(a2), a2)
				}
				t.Cover("typed:" + class)
				continue
			case 10: // the declared payload ends inside the last section, the file goes on (index or padding)
				if a.Version != 2 || len(a.Payload.Sections) == 0 || cfg.ZeroEOF {
					continue
				}
				last := a.Payload.Sections[len(a.Payload.Sections)-1]
				if last.End-last.Offset < 3 || uint64(len(in)) <= a.V2.DataOffset+a.V2.DataSize {
					continue // nothing follows the payload: that is a truncated file, another class
				}
				room := int(last.End - last.Offset - 1)
				if room > 5 {
					room = 5
				}
				cutBy := uint64(1 + r.Intn(room))
				binary.LittleEndian.PutUint64(in[35:], a.V2.DataSize-cutBy)
				class = "declared-payload-ends-inside-a-section"
			case 9: // the payload header of a CARv2 claims another version than 1
				if a.Version != 2 {
					continue
				}
				hdrEnd := int(po + a.Payload.HeaderSize)
				j := bytes.Index(in[po:hdrEnd], []byte("version"))
				if j < 0 || in[int(po)+j+7] != 0x01 {
					continue
				}
				in[int(po)+j+7] = []byte{0x00, 0x02, 0x03, 0x17}[r.Intn(4)]
				class = "payload-header-version-not-1"
			case 7: // zero-length section in the middle, option off
				if a.Version == 2 || cfg.ZeroEOF {
					continue
				}
				in = append(append(in, 0x00), refcar.EncodeSection(refcar.MakeCidV1(0x55, 0, []byte("x")), []byte("x"))...)
				class = "zero-length-section-without-option"
			case 8: // appended valid section: must be accepted and counted
				if a.Version == 2 || cfg.ZeroEOF {
					continue
				}
				b := gen.HonestBlock(r, gen.BlockOpts{Size: -1, MaxSize: 50})
				in = append(in, refcar.EncodeSection(b.Cid, b.Data)...)
				reject = false
				class = "appended-valid-section"
				a2, err := refcar.Decode(in, false)
				if err != nil {
					panic(err)
				}
				st, ierr := inspect(in, true)
				t.Events(1)
				if ierr != nil {
					t.Violatef("Inspect(true)/"+class+"/rejected", "Inspect rejects: %v", ierr)
				} else {
					c13Compare(t, class, st, c13RefStats(a2), a2)
				}
				t.Cover("typed:" + class)
				continue
			}
			if class == "" {
				continue
			}
			_, err := inspect(in, true, cfg.Opts()...)
			t.Events(1)
			t.Cover("typed:" + class)
			if reject && err == nil {
				t.ViolateD("Inspect(true)/"+class+"/accepted", map[string]any{"input": fmt.Sprintf("%x", in)}, "Inspect(true) accepts a %s archive corrupted by: %s", container, class)
			}
			// Inspect(true) IS the request to verify: a Reader opened with WithTrustedCAR (an option that
			// lets the block reader skip hashing) must give the same verdict
			_, errT := inspect(in, true, append(cfg.Opts(), carv2.WithTrustedCAR(true))...)
			t.Events(1)
			t.Cover("typed:with-trusted-car")
			if (err == nil) != (errT == nil) {
				t.ViolateD("Inspect(true)/"+class+"/verdict-depends-on-WithTrustedCAR", map[string]any{"input": fmt.Sprintf("%x", in)},
					"Inspect(true) says %v, on a Reader opened with WithTrustedCAR(true) it says %v", err, errT)
			}
			// the same on ONE Reader after a non-validating pass: what Inspect(true) reports must not
			// depend on what was asked of the Reader before
			if rd, rerr := carv2.NewReader(bytes.NewReader(in), cfg.Opts()...); rerr == nil {
				_, _ = rd.Inspect(false)
				_, err2 := rd.Inspect(true)
				t.Events(1)
				if (err == nil) != (err2 == nil) {
					t.ViolateD("Inspect(true)/"+class+"/verdict-depends-on-an-earlier-Inspect(false)", map[string]any{"input": fmt.Sprintf("%x", in)},
						"a fresh Inspect(true) says %v, Inspect(true) after Inspect(false) on the same Reader says %v", err, err2)
				}
				t.Cover("typed:inspect-false-then-true")
			}
		}

	case "random":
		// three-way: Inspect(true) vs a BlockReader scan (+ index codec readability), adjudicated by the reference
		hdrEnd := int(a.PayloadOff + a.Payload.HeaderSize)
		for k := 0; k < 60; k++ {
			in := append([]byte{}, file...)
			if len(in) <= hdrEnd {
				continue
			}
			for m := 0; m < 1+r.Intn(3); m++ {
				lo := hdrEnd
				hi := int(a.PayloadOff + a.PayloadLen)
				if hi <= lo {
					continue
				}
				pos := lo + r.Intn(hi-lo)
				switch r.Intn(3) {
				case 0:
					in[pos] ^= byte(1 << uint(r.Intn(8)))
				case 1:
					in[pos] = byte(r.Intn(256))
				case 2:
					if a.Version == 1 {
						in = in[:pos]
					}
				}
				if pos >= len(in) {
					break
				}
			}
			_, ierr := inspect(in, true, cfg.Opts()...)
			brOK := func() bool {
				br, err := carv2.NewBlockReader(bytes.NewReader(in), cfg.Opts()...)
				if err != nil {
					return false
				}
				for {
					_, err := br.Next()
					if err == io.EOF {
						return true
					}
					if err != nil {
						return false
					}
				}
			}()
			t.Events(2)
			if (ierr == nil) == brOK {
				t.Cover("random:agree")
				if ierr == nil {
					t.Cover("random:both-accept")
				}
				continue
			}
			// disagreement: reference decides
			a2, rerr := refcar.Decode(in, cfg.ZeroEOF)
			refOK := rerr == nil
			if refOK {
				for _, s := range a2.Payload.Sections {
					if good, known := refcar.Verifies(s.Cid, s.Data); !known || !good {
						refOK = false
					}
				}
			}
			if (ierr == nil) != refOK {
				t.ViolateD("Inspect(true)/random-mutation/verdict-differs-from-scan", map[string]any{"input": fmt.Sprintf("%x", in), "inspect_err": fmt.Sprint(ierr), "blockreader_ok": brOK, "reference_ok": refOK, "reference_err": fmt.Sprint(rerr)},
					"Inspect(true) verdict (%v) differs from a hash-verifying scan (block reader ok=%v, reference ok=%v)", ierr, brOK, refOK)
			} else {
				t.Cover("random:blockreader-disagrees-with-reference")
			}
		}
	}
}

func genC13(g *mon.G) {
	r := gen.Rand(g.Seed)
	for i := 0; i < g.Pick(1000, 20000); i++ {
		g.Emit(c13Desc{Seed: r.Int63(), Family: "valid"})
	}
	for i := 0; i < g.Pick(400, 8000); i++ {
		g.Emit(c13Desc{Seed: r.Int63(), Family: "typed"})
	}
	for i := 0; i < g.Pick(300, 6000); i++ {
		g.Emit(c13Desc{Seed: r.Int63(), Family: "random"})
	}
}

func init() {
	Register(&mon.Check{
		ID:          "C13",
		Level:       "exploration",
		Rule:        "cases = seeded valid archives in 5 container forms: (valid) Inspect(true|false) under default limits and limits exactly at / one below the largest section and the header, all Stats fields compared with a reference scan; (typed) 40 typed corruptions per archive with a by-construction verdict; (random) 60 random mutations of the section region per archive, Inspect(true) vs BlockReader scan, disagreements adjudicated by the reference",
		Assumptions: []string{"reference scan (refcar) computes the expected statistics", "random family restricted to the section region so that CBOR-header leniency cannot cause false alarms"},
		Gen:         genC13,
		Run:         runC13,
		MinCover:    map[string]int{"valid-accepted": 300, "limit-rejected": 100, "typed:flip-in-data-or-digest": 100, "typed:index-offset-past-end": 10, "typed:unknown-hash-function": 10, "typed:appended-valid-section": 10, "random:agree": 500, "random:both-accept": 5},
	})
}
