// carlab is the dispatcher of the go-car runtime monitors:
//
//	carlab check <Cxx> <quick|thorough>
//	carlab check <Cxx> --replay <path>
//	carlab child <kind> ...   (worker processes of C08/C09)
package main

import (
	"fmt"
	"os"
	"sort"

	"carlab/checks"
	"carlab/internal/mon"
)

func main() {
	if len(os.Args) < 2 {
		usage()
	}
	switch os.Args[1] {
	case "check":
		if len(os.Args) < 3 {
			usage()
		}
		c := checks.Get(os.Args[2])
		if c == nil {
			fmt.Printf("unknown check %q\n", os.Args[2])
			os.Exit(2)
		}
		mon.Main(c, os.Args[3:])
	case "child":
		os.Exit(checks.Child(os.Args[2:]))
	case "list":
		ids := checks.IDs()
		sort.Strings(ids)
		for _, id := range ids {
			fmt.Println(id)
		}
	default:
		usage()
	}
}

func usage() {
	fmt.Println("usage: carlab check <Cxx> <quick|thorough> | carlab check <Cxx> --replay <path> | carlab list")
	os.Exit(2)
}
